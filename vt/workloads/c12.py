"""C12 — changing how a stream represents phases never changes what it contains.

Monitor (StructureLedger): per-(label, CAS) content, T, P and type of the real stream are snapshotted around every
representation change (phases=, phase=, reduce_phases, as_stream, vle/lle/sle accessors), phase-view writes and
get_data/set_data, and compared with the DenseFlows relabelling model.
"""
import numpy as np
import thermosteam as tmo
from vt.core import case_hash
from vt.common import thermo_of, phase_ledger, stream_invariant

PID = 'C12'
RULE = ('histories of 5-30 steps on one stream (5 chemicals) starting from a random distribution over any subset of s,l,g,S,L: phases= to any set containing every non-empty phase up to case, '
        'phase= / as_stream when one case-group is non-empty, reduce_phases, vle/lle/sle accessors (single-phase: phase inside the pair up to case), writes through phase views and through the parent, '
        'T/P changes on either side, get_data ... set_data. non-trivial = >=2 non-empty phases at some point and >=3 effective steps; distinct = hash of the history')
MIN_NONTRIVIAL = {'quick': 300, 'thorough': 10000}
ASSUMPTIONS = ['target phase sets contain every non-empty phase up to case (the quantifier of C12)', 'equilibrium solver objects are only requested, never called']
IDS = ('Water', 'Ethanol', 'Octane', 'CO2', 'Glycerol')
PH = 'slgSL'


def required(tier):
    return ['phases=', 'phase=', 'reduce_phases', 'as_stream', 'accessor', 'view-write', 'parent-write', 'view-TP', 'restore', 'view-after-phase-change']


def swap(p):
    if p == 'g': return 'g'
    return p.lower() if p.isupper() else p.upper()


def snap(s):
    multi = isinstance(s, tmo.MultiStream)
    return {'cls': type(s).__name__, 'phases': tuple(s.phases) if multi else (s.phase,), 'flows': phase_ledger(s), 'T': s.T, 'P': s.P}


def relabel(flows, labels):
    out = {}
    for (p, c), v in flows.items():
        d = p if p in labels else swap(p)
        out[(d, c)] = out.get((d, c), 0.0) + v
    return out


def nonempty_labels(flows):
    return {p for (p, c), v in flows.items() if v}


def gen_case(rng):
    n = len(IDS)
    phs = rng.sample(list(PH), rng.randrange(1, 5))
    start = {'phases': ''.join(phs), 'T': round(rng.uniform(290, 370), 2), 'P': rng.choice([101325., 5e4, 3e5]),
             'flows': {p: [0.0 if rng.random() < 0.35 else round(10 ** rng.uniform(-2, 3), 4) for _ in range(n)] if rng.random() < 0.75 else [0.0] * n for p in phs}}
    steps = []
    for _ in range(rng.randrange(5, 31)):
        t = rng.choices(['phases', 'phase', 'reduce', 'as_stream', 'accessor', 'view-write', 'parent-write', 'TP', 'save', 'restore', 'empty-row'],
                        [6, 2, 2, 1, 3, 4, 3, 2, 2, 2, 1])[0]
        st = {'t': t, 'r': rng.random(), 'k': rng.randrange(1000)}
        if t == 'phases': st['extra'] = rng.sample(list(PH), rng.randrange(0, 4)); st['swapcase'] = rng.random() < 0.3
        if t == 'accessor': st['which'] = rng.choice(['vle', 'lle', 'sle'])
        if t in ('view-write', 'parent-write'): st['v'] = round(10 ** rng.uniform(-2, 3), 4) if rng.random() < 0.85 else 0.0; st['i'] = rng.randrange(n)
        if t == 'TP': st['T'] = round(rng.uniform(290, 370), 2); st['P'] = rng.choice([101325., 5e4, 3e5]); st['via_view'] = rng.random() < 0.5
        steps.append(st)
    return {'start': start, 'steps': steps}


def run_case(case, rec):
    rec.begin_case(case)
    th = thermo_of(IDS)
    d = case['start']
    if len(d['phases']) == 1:
        s = tmo.Stream(None, phase=d['phases'], T=d['T'], P=d['P'], thermo=th)
        for i, v in zip(IDS, d['flows'][d['phases']]):
            if v: s.imol[i] = v
    else:
        s = tmo.MultiStream(None, phases=tuple(d['phases']), T=d['T'], P=d['P'], thermo=th)
        for p, row in d['flows'].items():
            for i, v in zip(IDS, row):
                if v: s.imol[p, i] = v
    cas = th.chemicals.CASs
    saved = None
    eff = 0; multi_seen = False
    for k, st in enumerate(case['steps']):
        t = st['t']
        before = snap(s)
        ne = nonempty_labels(before['flows'])
        groups = {p.lower() for p in ne}
        multi = isinstance(s, tmo.MultiStream)
        if len(ne) >= 2: multi_seen = True
        try:
            if t == 'phases':
                target = set(st['extra'])
                for p in ne: target.add(swap(p) if (st['swapcase'] and swap(p) not in ne) else p)
                if len(target) == 0: target = {'l'}
                s.phases = tuple(target)
                after = snap(s)
                labels = set(after['phases'])
                exp = relabel(before['flows'], labels)
                rec.check(after['flows'] == exp, 'phases=', f'content/{"multi" if multi else "single"}-to-{len(target)}', f'step {k}: phases={sorted(target)} from {before["phases"]}: content {after["flows"]} expected {exp}')
                rec.check(after['T'] == before['T'] and after['P'] == before['P'], 'phases=', 'TP', f'step {k}: phases= changed T/P')
                if len(target) >= 2: rec.check(labels == target, 'phases=', 'labels', f'step {k}: phases={sorted(target)} gave labels {sorted(labels)}')
                eff += 1
            elif t == 'phase':
                if len(groups) > 1: continue
                g = next(iter(groups)) if groups else 'l'
                p = g if st['r'] < 0.5 else g.upper() if g != 'g' else 'g'
                s.phase = p
                after = snap(s)
                exp = {}
                for (q, c), v in before['flows'].items(): exp[(p, c)] = exp.get((p, c), 0.0) + v
                rec.check(after['flows'] == exp and after['cls'] == 'Stream', 'phase=', f'content/{"multi" if multi else "single"}', f'step {k}: phase={p!r} from {before["phases"]}: {after} expected flows {exp}')
                rec.check(after['T'] == before['T'] and after['P'] == before['P'], 'phase=', 'TP', f'step {k}: phase= changed T/P')
                eff += 1
            elif t == 'reduce':
                s.reduce_phases()
                after = snap(s)
                labels = set(after['phases'])
                exp = relabel(before['flows'], labels)
                ok = after['flows'] == exp and {p.lower() for p in nonempty_labels(after['flows'])} == groups
                rec.check(ok, 'reduce_phases', f'content/{"multi" if multi else "single"}', f'step {k}: reduce_phases from {before["phases"]}: {after["flows"]} expected {exp}')
                rec.check(after['T'] == before['T'] and after['P'] == before['P'], 'reduce_phases', 'TP', f'step {k}: reduce_phases changed T/P')
                eff += 1
            elif t == 'as_stream':
                if len(groups) > 1: continue
                s.as_stream()
                after = snap(s)
                exp = relabel(before['flows'], set(after['phases']))
                rec.check(after['flows'] == exp and after['cls'] == 'Stream', 'as_stream', 'content', f'step {k}: as_stream from {before["phases"]}: {after} expected flows {exp}')
                eff += 1
            elif t == 'accessor':
                pair = {'vle': 'gl', 'lle': 'lL', 'sle': 'sl'}[st['which']]
                if not multi and s.phase.lower() not in {q.lower() for q in pair}: continue
                getattr(s, st['which'])
                after = snap(s)
                labels = set(after['phases'])
                exp = relabel(before['flows'], labels)
                rec.check(after['flows'] == exp, 'accessor', f'{st["which"]}/content/{"multi" if multi else "single"}', f'step {k}: .{st["which"]} from {before["phases"]}: content {after["flows"]} expected {exp}')
                rec.check(after['T'] == before['T'] and after['P'] == before['P'], 'accessor', f'{st["which"]}/TP', f'step {k}: .{st["which"]} changed T/P')
                rec.check(all(p in labels or swap(p) in labels for p in pair), 'accessor', f'{st["which"]}/labels', f'step {k}: .{st["which"]} did not provide its phases: {sorted(labels)}')
                eff += 1
            elif t in ('view-write', 'parent-write'):
                if not multi: continue
                p = s.phases[st['k'] % len(s.phases)]
                i = IDS[st['i']]
                view = s[p]
                if t == 'view-write':
                    view.imol[i] = st['v']
                    got = s.imol[p, i]
                    rec.check(got == st['v'], 'view-write', 'visible-in-parent', f'step {k}: write {st["v"]} through view {p!r} not visible in parent (reads {got})')
                else:
                    s.imol[p, i] = st['v']
                    got = view.imol[i]
                    rec.check(got == st['v'], 'parent-write', 'visible-in-view', f'step {k}: parent write {st["v"]} at {p!r} not visible in the view (reads {got})')
                if before['phases'] != case['start']['phases'] and any(x['t'] in ('phases', 'accessor', 'reduce', 'restore') for x in case['steps'][:k]): rec.hit('view-after-phase-change')
                after = snap(s)
                exp = dict(before['flows']); key = (p, cas[st['i']])
                if st['v']: exp[key] = st['v']
                else: exp.pop(key, None)
                rec.check(after['flows'] == exp, t, 'only-target-entry', f'step {k}: {t} at ({p},{i}) changed other entries: {after["flows"]} expected {exp}')
                eff += 1
            elif t == 'TP':
                if multi and st['via_view']:
                    p = s.phases[st['k'] % len(s.phases)]
                    v = s[p]; v.T = st['T']; v.P = st['P']
                    rec.check(s.T == st['T'] and s.P == st['P'], 'view-TP', 'view-to-parent', f'step {k}: T/P set through view {p!r} not seen by the parent')
                else:
                    s.T = st['T']; s.P = st['P']
                    if multi:
                        for p in s.phases:
                            rec.check(s[p].T == st['T'] and s[p].P == st['P'], 'view-TP', 'parent-to-view', f'step {k}: view {p!r} does not share T/P with the parent')
                rec.check(snap(s)['flows'] == before['flows'], 'view-TP', 'flows', f'step {k}: changing T/P changed flows')
            elif t == 'save':
                saved = (s.get_data(), snap(s))
            elif t == 'restore':
                if saved is None: continue
                s.set_data(saved[0])
                after = snap(s)
                want = saved[1]
                ok = after['flows'] == want['flows'] and after['T'] == want['T'] and after['P'] == want['P'] and set(after['phases']) == set(want['phases'])
                rec.check(ok, 'restore', f'{"multi" if len(want["phases"]) > 1 else "single"}-saved', f'step {k}: set_data(get_data()) gave {after} but saved state was {want}')
                eff += 1
            elif t == 'empty-row':
                if not multi: continue
                p = s.phases[st['k'] % len(s.phases)]
                s.imol[p] = 0.
        except Exception as e:
            rec.exception(t if t not in ('phases', 'phase', 'reduce') else {'phases': 'phases=', 'phase': 'phase=', 'reduce': 'reduce_phases'}[t], e,
                          what=f'step {k} {st} on {before["cls"]}{before["phases"]} (non-empty {sorted(ne)}) raised {type(e).__name__}: {str(e)[:150]}')
            # the object must stay usable
            try:
                after = snap(s)
                rec.check(sum(after['flows'].values()) == sum(before['flows'].values()), 'after-exception', t, f'step {k}: after the exception the stream holds other material')
            except Exception as e2:
                rec.violation(f'C12/after-exception/{t}/corrupt', f'step {k}: after {type(e).__name__} the stream is unusable: {type(e2).__name__}: {str(e2)[:120]}')
            return
        e = stream_invariant(s)
        if e: rec.check(False, 'invariant', t, f'step {k}: sparse invariant {e}'); return
    if multi_seen and eff >= 3: rec.mark_nontrivial(case_hash(case))


def replay(case, rec):
    run_case(case, rec)


def run(rec, rng, tier, shard, nshards):
    n = 3000 if tier == 'quick' else 30000
    for i in range(n):
        case = gen_case(rng)
        try:
            run_case(case, rec)
        except Exception as e:
            rec.exception('harness', e, what=f'harness error: {type(e).__name__}: {e}')
        if i % 301 == 0: rec.sample({'start': case['start'], 'steps': case['steps'][:6], 'n_steps': len(case['steps'])})
