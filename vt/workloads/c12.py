"""C12 — changing how a stream represents phases never changes what it contains.

Monitor (StructureLedger): per-(label, CAS) content, T, P and type of the real stream are snapshotted around every
representation change (phases=, phase=, reduce_phases, as_stream, vle/lle/sle accessors), phase-view writes and
get_data/set_data, and compared with the DenseFlows relabelling model.

A second case stream (gen_case2 / run_case2, cases marked 'v': 2) runs after the first with an extended vocabulary: other construction forms of the start state,
argument forms of phases= / multi-character phase=, empty-stream boundaries, accessors on single-phase streams outside the solver pair, views held across conversions,
the other write/read paths of views and parent, iteration, T/P through thermal_condition / copy_thermal_condition, from_data, set_data onto another object and the
temporary() / temporary_phase() context managers. The first stream (gen_case) is left exactly as it was.
"""
import numpy as np
import thermosteam as tmo
from vt.core import case_hash, exc_key
from vt.common import thermo_of, phase_ledger, stream_invariant

PID = 'C12'
RULE = ('histories of 5-30 steps on one stream (5 chemicals) starting from a random distribution over any subset of s,l,g,S,L: phases= to any set containing every non-empty phase up to case, '
        'phase= / as_stream when one case-group is non-empty, reduce_phases, vle/lle/sle accessors (single-phase: phase inside the pair up to case), writes through phase views and through the parent, '
        'T/P changes on either side, get_data ... set_data. non-trivial = >=2 non-empty phases at some point and >=3 effective steps; distinct = hash of the history. '
        'Second stream of cases (marked v=2, run after the first): start built directly / by MultiStream.from_streams / by Stream(...).phases= / as a one-phase MultiStream; '
        'phases= given as tuple, string, list, list with duplicates, iterator, set (empty target set for an empty stream), phase = multi-character string, phase= with any label and reduce_phases / as_stream on empty streams, '
        'accessors also on single-phase streams whose phase lies outside the solver pair (UndefinedPhase counted as refusal), writes through freshly fetched views, views HELD across conversions '
        '(only while the stream stays a MultiStream and keeps the label) and the parent by imol item/pair/row, imass, set_flow, mol array item/slice, empty, scale, copy_like / mix_from of a fresh stream, read back through imol / imass / get_flow / mol, '
        'judged on the per-(phase, CAS) ledger; for v in s / len(s) / Stream[label]; T/P through attributes, thermal_condition and copy_thermal_condition on either side, thermal-condition identity after every conversion; '
        'Stream.from_data / MultiStream.from_data(get_data()), set_data onto another stream object, with s.temporary(flow, T, P) incl. inner conversions and a raising body, with s.temporary_phase(label). '
        'phases= is judged against the ASSIGNED label set for every non-empty target (one label: exactly that label and a single-phase stream; keys carry exact-label-held / other-case-held / both-cases-held / empty-stream); '
        'refusals are granted only for the documented exception AND message AND input class: ValueError "at least one phase" for an empty set, RuntimeError "invalid phase <arg>" for phase = multi-character string on a single-phase stream, '
        'UndefinedPhase of an accessor only on a NON-EMPTY single-phase stream outside the solver pair, UndefinedPhase of Stream[label of another phase group] (a normal return there is a violation; the unchanged library fails to raise UndefinedPhase there and raises AttributeError (module thermosteam has no attribute UndefinedPhase) instead - exactly that message from Stream.__getitem__ is counted as the same refusal under its own reason, the exception type being no clause of C12)')
MIN_NONTRIVIAL = {'quick': 300, 'thorough': 10000}
ASSUMPTIONS = ['target phase sets contain every non-empty phase up to case (the quantifier of C12)', 'equilibrium solver objects are only requested, never called',
               'phases = one label gives a single-phase stream (tests/test_stream.py asserts type(stream) is Stream after stream.phases = "s")']
IDS = ('Water', 'Ethanol', 'Octane', 'CO2', 'Glycerol')
PH = 'slgSL'


def required(tier):
    return ['phases=', 'phase=', 'reduce_phases', 'as_stream', 'accessor', 'view-write', 'parent-write', 'view-TP', 'restore', 'view-after-phase-change',
            'v2:start/from_streams', 'v2:start/via-phases', 'v2:start/M1', 'v2:accessor-outside-pair', 'v2:write/view', 'v2:write/parent', 'v2:write/held',
            'v2:write-kind/imass', 'v2:write-kind/set_flow-kg', 'v2:write-kind/mol-item', 'v2:write-kind/mol-row', 'v2:write-kind/empty', 'v2:write-kind/scale', 'v2:write-kind/copy_like', 'v2:write-kind/mix_from',
            'v2:held-probe', 'v2:held-across/phases=', 'v2:held-across/accessor', 'v2:held-across/restore', 'v2:iter', 'v2:getitem-single', 'v2:from_data', 'v2:restore-other', 'v2:temporary', 'v2:temporary/raise',
            'v2:temporary/conv', 'v2:temp-phase', 'v2:phases-form/str', 'v2:phases-form/dup', 'v2:phases-form/iter', 'v2:phase-multichar/multi', 'v2:empty/phase=any-label',
            'v2:empty/reduce', 'v2:empty/as_stream', 'v2:empty/target-set-empty', 'v2:thermal-identity', 'v2:TP/view-ctc', 'v2:TP/parent-ctc', 'v2:TP/view-tc', 'v2:TP/held-attr',
            'phases=/single-target', 'phases=/single-target/exact-label-held', 'phases=/single-target/other-case-held', 'v2:phases=/single-target', 'v2:phases=/single-target/exact-label-held',
            'v2:phases=/single-target/other-case-held', 'v2:getitem-single/foreign-judged', 'v2:phase-multichar/single-refused']


def swap(p):
    if p == 'g': return 'g'
    return p.lower() if p.isupper() else p.upper()


def snap(s):
    multi = isinstance(s, tmo.MultiStream)
    return {'cls': type(s).__name__, 'phases': tuple(s.phases) if multi else (s.phase,), 'flows': phase_ledger(s), 'T': s.T, 'P': s.P}


def relabel(flows, labels):
    out = {}
    for (p, c), v in flows.items():
        d = p if p in labels else swap(p)
        out[(d, c)] = out.get((d, c), 0.0) + v
    return out


def nonempty_labels(flows):
    return {p for (p, c), v in flows.items() if v}


def single_target_class(target, ne):
    """input class of a one-label phases= assignment: where the material is relative to the assigned label"""
    p, = target
    if not ne: return 'empty-stream'
    if ne == {p}: return 'exact-label-held'
    if p in ne: return 'both-cases-held'       # material under p and under its other case: merged under p
    return 'other-case-held'                   # material only under the other case of p: the labels are interchangeable since the exact one is absent


def gen_case(rng):
    n = len(IDS)
    phs = rng.sample(list(PH), rng.randrange(1, 5))
    start = {'phases': ''.join(phs), 'T': round(rng.uniform(290, 370), 2), 'P': rng.choice([101325., 5e4, 3e5]),
             'flows': {p: [0.0 if rng.random() < 0.35 else round(10 ** rng.uniform(-2, 3), 4) for _ in range(n)] if rng.random() < 0.75 else [0.0] * n for p in phs}}
    steps = []
    for _ in range(rng.randrange(5, 31)):
        t = rng.choices(['phases', 'phase', 'reduce', 'as_stream', 'accessor', 'view-write', 'parent-write', 'TP', 'save', 'restore', 'empty-row'],
                        [6, 2, 2, 1, 3, 4, 3, 2, 2, 2, 1])[0]
        st = {'t': t, 'r': rng.random(), 'k': rng.randrange(1000)}
        if t == 'phases': st['extra'] = rng.sample(list(PH), rng.randrange(0, 4)); st['swapcase'] = rng.random() < 0.3
        if t == 'accessor': st['which'] = rng.choice(['vle', 'lle', 'sle'])
        if t in ('view-write', 'parent-write'): st['v'] = round(10 ** rng.uniform(-2, 3), 4) if rng.random() < 0.85 else 0.0; st['i'] = rng.randrange(n)
        if t == 'TP': st['T'] = round(rng.uniform(290, 370), 2); st['P'] = rng.choice([101325., 5e4, 3e5]); st['via_view'] = rng.random() < 0.5
        steps.append(st)
    return {'start': start, 'steps': steps}


def run_case(case, rec):
    if case.get('v') == 2: return run_case2(case, rec)
    rec.begin_case(case)
    th = thermo_of(IDS)
    d = case['start']
    if len(d['phases']) == 1:
        s = tmo.Stream(None, phase=d['phases'], T=d['T'], P=d['P'], thermo=th)
        for i, v in zip(IDS, d['flows'][d['phases']]):
            if v: s.imol[i] = v
    else:
        s = tmo.MultiStream(None, phases=tuple(d['phases']), T=d['T'], P=d['P'], thermo=th)
        for p, row in d['flows'].items():
            for i, v in zip(IDS, row):
                if v: s.imol[p, i] = v
    cas = th.chemicals.CASs
    saved = None
    eff = 0; multi_seen = False
    for k, st in enumerate(case['steps']):
        t = st['t']
        before = snap(s)
        ne = nonempty_labels(before['flows'])
        groups = {p.lower() for p in ne}
        multi = isinstance(s, tmo.MultiStream)
        if len(ne) >= 2: multi_seen = True
        try:
            if t == 'phases':
                target = set(st['extra'])
                for p in ne: target.add(swap(p) if (st['swapcase'] and swap(p) not in ne) else p)
                if len(target) == 0: target = {'l'}
                s.phases = tuple(target)
                after = snap(s)
                labels = set(after['phases'])
                exp = relabel(before['flows'], target)      # the expected labels are the ASSIGNED ones, never the ones the library produced
                rec.check(after['flows'] == exp, 'phases=', f'content/{"multi" if multi else "single"}-to-{len(target)}', f'step {k}: phases={sorted(target)} from {before["phases"]}: content {after["flows"]} expected {exp}')
                rec.check(after['T'] == before['T'] and after['P'] == before['P'], 'phases=', 'TP', f'step {k}: phases= changed T/P')
                if len(target) >= 2: rec.check(labels == target, 'phases=', 'labels', f'step {k}: phases={sorted(target)} gave labels {sorted(labels)}')
                else:
                    ic = single_target_class(target, ne)
                    rec.check(labels == target, 'phases=', f'labels/single-target/{mode(multi)}/{ic}', f'step {k}: phases={sorted(target)} on {before["cls"]}{before["phases"]} (non-empty {sorted(ne)}) gave labels {sorted(labels)}')
                    rec.check(after['cls'] == 'Stream', 'phases=', f'class/single-target/{mode(multi)}', f'step {k}: phases={sorted(target)} (one label) on {before["cls"]}{before["phases"]} gave a {after["cls"]}, not a single-phase stream')
                    rec.hit('phases=/single-target'); rec.hit('phases=/single-target/' + ic)
                eff += 1
            elif t == 'phase':
                if len(groups) > 1: continue
                g = next(iter(groups)) if groups else 'l'
                p = g if st['r'] < 0.5 else g.upper() if g != 'g' else 'g'
                s.phase = p
                after = snap(s)
                exp = {}
                for (q, c), v in before['flows'].items(): exp[(p, c)] = exp.get((p, c), 0.0) + v
                rec.check(after['flows'] == exp and after['cls'] == 'Stream', 'phase=', f'content/{"multi" if multi else "single"}', f'step {k}: phase={p!r} from {before["phases"]}: {after} expected flows {exp}')
                rec.check(after['phases'] == (p,), 'phase=', f'label/{mode(multi)}{"" if groups else "-empty"}', f'step {k}: phase={p!r} on {before["cls"]}{before["phases"]} gave labels {after["phases"]}')
                rec.check(after['T'] == before['T'] and after['P'] == before['P'], 'phase=', 'TP', f'step {k}: phase= changed T/P')
                eff += 1
            elif t == 'reduce':
                s.reduce_phases()
                after = snap(s)
                labels = set(after['phases'])
                exp = relabel(before['flows'], labels)
                ok = after['flows'] == exp and {p.lower() for p in nonempty_labels(after['flows'])} == groups
                rec.check(ok, 'reduce_phases', f'content/{"multi" if multi else "single"}', f'step {k}: reduce_phases from {before["phases"]}: {after["flows"]} expected {exp}')
                rec.check(after['T'] == before['T'] and after['P'] == before['P'], 'reduce_phases', 'TP', f'step {k}: reduce_phases changed T/P')
                eff += 1
            elif t == 'as_stream':
                if len(groups) > 1: continue
                s.as_stream()
                after = snap(s)
                exp = relabel(before['flows'], set(after['phases']))
                rec.check(after['flows'] == exp and after['cls'] == 'Stream', 'as_stream', 'content', f'step {k}: as_stream from {before["phases"]}: {after} expected flows {exp}')
                eff += 1
            elif t == 'accessor':
                pair = {'vle': 'gl', 'lle': 'lL', 'sle': 'sl'}[st['which']]
                if not multi and s.phase.lower() not in {q.lower() for q in pair}: continue
                getattr(s, st['which'])
                after = snap(s)
                labels = set(after['phases'])
                exp = relabel(before['flows'], labels)
                rec.check(after['flows'] == exp, 'accessor', f'{st["which"]}/content/{"multi" if multi else "single"}', f'step {k}: .{st["which"]} from {before["phases"]}: content {after["flows"]} expected {exp}')
                rec.check(after['T'] == before['T'] and after['P'] == before['P'], 'accessor', f'{st["which"]}/TP', f'step {k}: .{st["which"]} changed T/P')
                rec.check(all(p in labels or swap(p) in labels for p in pair), 'accessor', f'{st["which"]}/labels', f'step {k}: .{st["which"]} did not provide its phases: {sorted(labels)}')
                eff += 1
            elif t in ('view-write', 'parent-write'):
                if not multi: continue
                p = s.phases[st['k'] % len(s.phases)]
                i = IDS[st['i']]
                view = s[p]
                if t == 'view-write':
                    view.imol[i] = st['v']
                    got = s.imol[p, i]
                    rec.check(got == st['v'], 'view-write', 'visible-in-parent', f'step {k}: write {st["v"]} through view {p!r} not visible in parent (reads {got})')
                else:
                    s.imol[p, i] = st['v']
                    got = view.imol[i]
                    rec.check(got == st['v'], 'parent-write', 'visible-in-view', f'step {k}: parent write {st["v"]} at {p!r} not visible in the view (reads {got})')
                if before['phases'] != case['start']['phases'] and any(x['t'] in ('phases', 'accessor', 'reduce', 'restore') for x in case['steps'][:k]): rec.hit('view-after-phase-change')
                after = snap(s)
                exp = dict(before['flows']); key = (p, cas[st['i']])
                if st['v']: exp[key] = st['v']
                else: exp.pop(key, None)
                rec.check(after['flows'] == exp, t, 'only-target-entry', f'step {k}: {t} at ({p},{i}) changed other entries: {after["flows"]} expected {exp}')
                eff += 1
            elif t == 'TP':
                if multi and st['via_view']:
                    p = s.phases[st['k'] % len(s.phases)]
                    v = s[p]; v.T = st['T']; v.P = st['P']
                    rec.check(s.T == st['T'] and s.P == st['P'], 'view-TP', 'view-to-parent', f'step {k}: T/P set through view {p!r} not seen by the parent')
                else:
                    s.T = st['T']; s.P = st['P']
                    if multi:
                        for p in s.phases:
                            rec.check(s[p].T == st['T'] and s[p].P == st['P'], 'view-TP', 'parent-to-view', f'step {k}: view {p!r} does not share T/P with the parent')
                rec.check(snap(s)['flows'] == before['flows'], 'view-TP', 'flows', f'step {k}: changing T/P changed flows')
            elif t == 'save':
                saved = (s.get_data(), snap(s))
            elif t == 'restore':
                if saved is None: continue
                s.set_data(saved[0])
                after = snap(s)
                want = saved[1]
                ok = after['flows'] == want['flows'] and after['T'] == want['T'] and after['P'] == want['P'] and set(after['phases']) == set(want['phases'])
                rec.check(ok, 'restore', f'{"multi" if len(want["phases"]) > 1 else "single"}-saved', f'step {k}: set_data(get_data()) gave {after} but saved state was {want}')
                eff += 1
            elif t == 'empty-row':
                if not multi: continue
                p = s.phases[st['k'] % len(s.phases)]
                s.imol[p] = 0.
        except Exception as e:
            rec.exception(t if t not in ('phases', 'phase', 'reduce') else {'phases': 'phases=', 'phase': 'phase=', 'reduce': 'reduce_phases'}[t], e,
                          what=f'step {k} {st} on {before["cls"]}{before["phases"]} (non-empty {sorted(ne)}) raised {type(e).__name__}: {str(e)[:150]}')
            # the object must stay usable
            try:
                after = snap(s)
                rec.check(sum(after['flows'].values()) == sum(before['flows'].values()), 'after-exception', t, f'step {k}: after the exception the stream holds other material')
            except Exception as e2:
                rec.violation(f'C12/after-exception/{t}/corrupt', f'step {k}: after {type(e).__name__} the stream is unusable: {type(e2).__name__}: {str(e2)[:120]}')
            return
        e = stream_invariant(s)
        if e: rec.check(False, 'invariant', t, f'step {k}: sparse invariant {e}'); return
    if multi_seen and eff >= 3: rec.mark_nontrivial(case_hash(case))


# ---------------------------------------------------------------------------------------------------------------------
# second case stream (cases marked 'v': 2): extended vocabulary, same ledger model

FORMS = ('tuple', 'str', 'list', 'dup', 'iter', 'set')
VIEW_KINDS = ('imol', 'imol', 'imass', 'set_flow-kmol', 'set_flow-kg', 'mol-item', 'mol-row', 'imol-pair', 'empty', 'scale', 'copy_like', 'mix_from')
PARENT_KINDS = ('imol', 'imol', 'imass', 'set_flow-kmol', 'set_flow-kg', 'imol-row', 'imol-pair', 'empty', 'scale')
READS = ('imol', 'imass', 'get_flow', 'mol')
TP_HOWS = ('view-attr', 'parent-attr', 'view-ctc', 'parent-ctc', 'view-tc', 'parent-tc', 'held-attr', 'held-ctc')
STEPS2 = [('phases', 6), ('phase', 2), ('phase-multi', 1), ('reduce', 2), ('as_stream', 1), ('accessor', 4), ('write', 9), ('hold', 2), ('held-probe', 3), ('TP', 2), ('save', 2), ('restore', 2),
          ('restore-other', 1), ('from_data', 1), ('temporary', 2), ('temp-phase', 1), ('empty-row', 1), ('empty-all', 1), ('getitem-single', 1)]


class _Probe(Exception):
    pass


def _val(rng):
    return round(10 ** rng.uniform(-2, 3), 4) if rng.random() < 0.85 else 0.0


def _row(rng, n, pzero=0.1):
    if rng.random() < pzero: return [0.0] * n
    return [0.0 if rng.random() < 0.35 else round(10 ** rng.uniform(-2, 3), 4) for _ in range(n)]


def _fresh(rng, n):
    return {'phase': rng.choice(PH), 'T': round(rng.uniform(290, 370), 2), 'P': rng.choice([101325., 5e4, 3e5]), 'flows': _row(rng, n)}


def gen_case2(rng):
    n = len(IDS)
    phs = rng.sample(list(PH), rng.randrange(1, 5))
    all_empty = rng.random() < 0.12
    start = {'phases': ''.join(phs), 'T': round(rng.uniform(290, 370), 2), 'P': rng.choice([101325., 5e4, 3e5]),
             'form': rng.choice(['direct', 'direct', 'from_streams', 'via-phases', 'M1']),
             'flows': {p: [0.0] * n if all_empty else _row(rng, n, 0.25) for p in phs}}
    names = [a for a, b in STEPS2]; weights = [b for a, b in STEPS2]
    steps = []
    for _ in range(rng.randrange(5, 31)):
        t = rng.choices(names, weights)[0]
        st = {'t': t, 'r': rng.random(), 'k': rng.randrange(1000)}
        if t in ('phases', 'phase-multi'):
            st['extra'] = rng.sample(list(PH), rng.randrange(0, 4)); st['swapcase'] = rng.random() < 0.3
            st['order'] = rng.sample(list(PH), 5); st['form'] = rng.choice(FORMS); st['empty_ok'] = rng.random() < 0.5
        elif t == 'phase': st['p_any'] = rng.choice(PH)
        elif t == 'accessor': st['which'] = rng.choice(['vle', 'lle', 'sle'])
        elif t == 'write':
            st['side'] = rng.choice(['view', 'parent', 'held', 'held'])
            st['kind'] = rng.choice(PARENT_KINDS if st['side'] == 'parent' else VIEW_KINDS)
            st['v'] = _val(rng); st['v2'] = _val(rng); st['i'] = rng.randrange(n); st['j'] = rng.randrange(1, n); st['read'] = rng.choice(READS)
            if st['kind'] in ('mol-row', 'imol-row'): st['row'] = _row(rng, n)
            if st['kind'] == 'scale': st['f'] = rng.choice([0.5, 2.0, 3.25, 1.0, 0.0, 1e-3])
            if st['kind'] in ('copy_like', 'mix_from'): st['fresh'] = _fresh(rng, n)
        elif t == 'hold': st['how'] = rng.choice(['getitem', 'iter'])
        elif t == 'TP': st['T'] = round(rng.uniform(290, 370), 2); st['P'] = rng.choice([101325., 5e4, 3e5]); st['how'] = rng.choice(TP_HOWS)
        elif t == 'restore-other': st['other'] = dict(_fresh(rng, n), multi=rng.random() < 0.5, phases=''.join(rng.sample(list(PH), rng.randrange(1, 4))))
        elif t == 'from_data': st['cls'] = rng.choice(['Stream', 'MultiStream']); st['src'] = rng.choice(['saved', 'current'])
        elif t == 'temporary':
            st['T'] = round(rng.uniform(290, 370), 2) if rng.random() < 0.6 else None; st['P'] = rng.choice([101325., 5e4, 3e5]) if rng.random() < 0.6 else None
            st['flow'] = rng.choice([None, 'row', 'rows']); st['row'] = _row(rng, n); st['inner'] = rng.choice(['none', 'conv', 'collapse', 'empty', 'raise'])
            st['extra'] = rng.sample(list(PH), rng.randrange(1, 4)); st['v'] = _val(rng); st['i'] = rng.randrange(n)
        steps.append(st)
    return {'v': 2, 'start': start, 'steps': steps}


def build_start2(d, th, rec):
    """the start state in one of four construction forms; returns (stream, views the construction itself hands out)"""
    phs = d['phases']; form = d['form']; held = {}
    def single(p):
        x = tmo.Stream(None, phase=p, T=d['T'], P=d['P'], thermo=th)
        for i, v in zip(IDS, d['flows'][p]):
            if v: x.imol[i] = v
        return x
    if form == 'from_streams':
        parts = [single(p) for p in phs]
        s = tmo.MultiStream.from_streams(parts, thermo=th)
        held = {p: x for p, x in zip(phs, parts)}
    elif form == 'via-phases' and len(phs) > 1:
        s = single(phs[0])
        s.phases = tuple(phs)
        for p in phs[1:]:
            for i, v in zip(IDS, d['flows'][p]):
                if v: s.imol[p, i] = v
    elif len(phs) == 1 and form != 'M1':
        s = single(phs)
        form = 'direct'
    else:
        if len(phs) > 1 and form == 'M1': form = 'direct'
        s = tmo.MultiStream(None, phases=tuple(phs), T=d['T'], P=d['P'], thermo=th)
        for p, row in d['flows'].items():
            for i, v in zip(IDS, row):
                if v: s.imol[p, i] = v
    rec.hit('v2:start/' + form)
    return s, held


def as_form(target, order, form):
    lst = [p for p in order if p in target]
    if form == 'str': return ''.join(lst)
    if form == 'list': return lst
    if form == 'dup': return lst + lst[:2]
    if form == 'iter': return iter(lst)
    if form == 'set': return set(lst)
    return tuple(lst)


def view_row(v, cas):
    return {cas[i]: x for i, x in v.imol.data.dct.items()}


def parent_row(flows, p):
    return {c: x for (q, c), x in flows.items() if q == p}


def ledger_close(a, b, rel=1e-12):
    if set(a) != set(b): return False
    return all(abs(a[k] - b[k]) <= rel * max(abs(a[k]), abs(b[k])) for k in a)


def probe_view(rec, s, v, p, clause, tag, idx, cas, k):
    """v must be a live view of row p of the multi-phase stream s: same content, writes visible both ways, shared T and P. Leaves s as it was."""
    flows = phase_ledger(s)
    rec.check(view_row(v, cas) == parent_row(flows, p), clause, f'{tag}/same-content', f'step {k}: view {p!r} ({tag}) reads {view_row(v, cas)} but the parent row holds {parent_row(flows, p)}')
    rec.check(v.phase == p, clause, f'{tag}/label', f'step {k}: the view of row {p!r} ({tag}) reports phase {v.phase!r}')
    ID = IDS[idx]
    old = s.imol[p, ID]
    w = 7.5 if old != 7.5 else 8.5
    v.imol[ID] = w
    got = s.imol[p, ID]
    rec.check(got == w, clause, f'{tag}/view-to-parent', f'step {k}: write {w} through view {p!r} ({tag}) not visible in the parent (reads {got})')
    s.imol[p, ID] = old
    got = v.imol[ID]
    rec.check(got == old, clause, f'{tag}/parent-to-view', f'step {k}: parent write {old} at {p!r} not visible in the view ({tag}; reads {got})')
    T0, P0 = s.T, s.P
    v.T = T0 + 1.25; v.P = P0 + 250.
    rec.check(s.T == T0 + 1.25 and s.P == P0 + 250., clause, f'{tag}/TP-view-to-parent', f'step {k}: T/P set through view {p!r} ({tag}) not seen by the parent')
    s.T = T0; s.P = P0
    rec.check(v.T == T0 and v.P == P0, clause, f'{tag}/TP-parent-to-view', f'step {k}: view {p!r} ({tag}) does not share T/P with the parent')
    rec.check(v.thermal_condition is s.thermal_condition, clause, f'{tag}/thermal-condition-identity', f'step {k}: view {p!r} ({tag}) holds another thermal condition object than the parent')
    rec.hit('v2:thermal-identity')


def run_case2(case, rec):
    rec.begin_case(case)
    th = thermo_of(IDS)
    cas = th.chemicals.CASs
    MW = [float(x) for x in th.chemicals.MW]
    n = len(IDS)
    s, held = build_start2(case['start'], th, rec)
    crossed = {p: 'from_streams' for p in held}     # view label -> last conversion it was held across
    saved = None
    eff = 0; multi_seen = False

    def mk_fresh(d, phase=None):
        x = tmo.Stream(None, phase=phase or d['phase'], T=d['T'], P=d['P'], thermo=th)
        for i, v in zip(IDS, d['flows']):
            if v: x.imol[i] = v
        return x

    def after_conversion(tag, k, st):
        """bookkeeping for held views and the sharing oracle on the views the stream hands out now"""
        if not isinstance(s, tmo.MultiStream):
            held.clear(); crossed.clear(); return
        for p in list(held):
            if p not in s.phases: del held[p]; crossed.pop(p, None)
            else: crossed[p] = tag
        for p in s.phases:
            probe_view(rec, s, s[p], p, 'view-after-conversion', tag, st['k'] % n, cas, k)

    for k, st in enumerate(case['steps']):
        t = st['t']
        before = snap(s)
        ne = nonempty_labels(before['flows'])
        groups = {p.lower() for p in ne}
        multi = isinstance(s, tmo.MultiStream)
        zero = multi and len(s.phases) == 0
        if len(ne) >= 2: multi_seen = True
        clause = {'phases': 'phases=', 'phase': 'phase=', 'phase-multi': 'phase=', 'reduce': 'reduce_phases', 'temp-phase': 'temporary_phase', 'hold': 'iteration', 'getitem-single': 'iteration',
                  'TP': 'view-TP', 'write': 'view-write', 'empty-row': 'parent-write', 'empty-all': 'parent-write', 'restore-other': 'restore', 'save': 'restore', 'from_data': 'restore'}.get(t, t)
        try:
            if t in ('phases', 'phase-multi'):
                target = set(st['extra'])
                for p in ne: target.add(swap(p) if (st['swapcase'] and swap(p) not in ne) else p)
                if t == 'phase-multi':
                    for p in st['order']:
                        if len(target) >= 2: break
                        target.add(p)
                if len(target) == 0:
                    if st['empty_ok']: rec.hit('v2:empty/target-set-empty')
                    else: target = {'l'}
                if t == 'phases':
                    arg = as_form(target, st['order'], st['form'])
                    rec.hit('v2:phases-form/' + st['form'])
                    if len(target) == 0:
                        # an empty target set (only possible for an empty stream): refused by the library ('at least one phase must be given')
                        try:
                            s.phases = arg
                        except ValueError as e:
                            if 'at least one phase' not in str(e): raise     # only the documented refusal of an empty set; any other ValueError is reported
                            rec.refuse('phases = <empty set> refused (ValueError)')
                            a2 = snap(s)
                            rec.check(a2 == before, 'phases=', 'empty-set/refusal-leaves-stream', f'step {k}: refused phases=() changed the stream: {a2} was {before}')
                            continue
                    else:
                        s.phases = arg
                    tag = 'phases='; sfx = f'{st["form"]}-form/'
                else:
                    arg = ''.join(p for p in st['order'] if p in target)
                    try:
                        s.phase = arg
                    except RuntimeError as e:
                        # documented refusal: check_phase -> RuntimeError("invalid phase 'xy' encountered; ..."), warranted because the stream is single-phase and the string has >= 2 characters;
                        # any other RuntimeError ('phase is locked', one from deeper code) is reported by the outer handler
                        if multi or len(arg) < 2 or 'invalid phase' not in str(e) or repr(arg) not in str(e): raise
                        rec.refuse('phase = multi-character string on a single-phase stream: RuntimeError (invalid phase)'); rec.hit('v2:phase-multichar/single-refused')
                        a2 = snap(s)
                        rec.check(a2 == before, 'phase=', 'multichar/refusal-leaves-stream', f'step {k}: refused phase={arg!r} changed the stream: {a2} was {before}')
                        continue
                    rec.hit('v2:phase-multichar/' + mode(multi))
                    tag = 'phase-multichar'; sfx = 'multichar/'
                after = snap(s)
                labels = set(after['phases'])
                exp = relabel(before['flows'], target or labels)      # the expected labels are the ASSIGNED ones (an accepted empty set: the stream is empty, nothing to relabel)
                rec.check(after['flows'] == exp, clause, f'{sfx}content/{mode(multi)}-to-{min(len(target), 2)}', f'step {k}: {tag} {arg!r} from {before["phases"]}: content {after["flows"]} expected {exp}')
                rec.check(after['T'] == before['T'] and after['P'] == before['P'], clause, f'{sfx}TP', f'step {k}: {tag} changed T/P')
                if len(target) >= 2: rec.check(labels == target and after['cls'] == 'MultiStream', clause, f'{sfx}labels', f'step {k}: {tag} {sorted(target)} gave {after["cls"]} with labels {sorted(labels)}')
                elif len(target) == 1:
                    ic = single_target_class(target, ne)
                    rec.check(labels == target, clause, f'{sfx}labels/single-target/{mode(multi)}/{ic}', f'step {k}: {tag} {arg!r} on {before["cls"]}{before["phases"]} (non-empty {sorted(ne)}) gave labels {sorted(labels)}')
                    rec.check(after['cls'] == 'Stream', clause, f'{sfx}class/single-target/{mode(multi)}', f'step {k}: {tag} {arg!r} (one label) on {before["cls"]}{before["phases"]} gave a {after["cls"]}, not a single-phase stream')
                    rec.hit('v2:phases=/single-target'); rec.hit('v2:phases=/single-target/' + ic)
                after_conversion(tag, k, st)
                eff += 1
            elif t == 'phase':
                if len(groups) > 1: continue
                if groups:
                    g = next(iter(groups))
                    p = g if st['r'] < 0.5 else g.upper() if g != 'g' else 'g'
                else:
                    p = st['p_any']; rec.hit('v2:empty/phase=any-label')
                s.phase = p
                after = snap(s)
                exp = {}
                for (q, c), v in before['flows'].items(): exp[(p, c)] = exp.get((p, c), 0.0) + v
                rec.check(after['flows'] == exp and after['cls'] == 'Stream' and after['phases'] == (p,), 'phase=', f'content/{mode(multi)}{"" if groups else "-empty"}', f'step {k}: phase={p!r} from {before["phases"]}: {after} expected flows {exp}')
                rec.check(after['T'] == before['T'] and after['P'] == before['P'], 'phase=', 'TP', f'step {k}: phase= changed T/P')
                after_conversion('phase=', k, st)
                eff += 1
            elif t == 'reduce':
                if not ne: rec.hit('v2:empty/reduce')
                s.reduce_phases()
                after = snap(s)
                labels = set(after['phases'])
                exp = relabel(before['flows'], labels)
                ok = after['flows'] == exp and {p.lower() for p in nonempty_labels(after['flows'])} == groups
                rec.check(ok, 'reduce_phases', f'content/{mode(multi)}{"" if ne else "-empty"}', f'step {k}: reduce_phases from {before["phases"]}: {after["flows"]} expected {exp}')
                rec.check(after['T'] == before['T'] and after['P'] == before['P'], 'reduce_phases', 'TP', f'step {k}: reduce_phases changed T/P')
                after_conversion('reduce_phases', k, st)
                eff += 1
            elif t == 'as_stream':
                if len(groups) > 1: continue
                if not ne: rec.hit('v2:empty/as_stream')
                s.as_stream()
                after = snap(s)
                exp = relabel(before['flows'], set(after['phases']))
                rec.check(after['flows'] == exp and after['cls'] == 'Stream', 'as_stream', f'content{"" if ne else "-empty"}', f'step {k}: as_stream from {before["phases"]}: {after} expected flows {exp}')
                rec.check(after['T'] == before['T'] and after['P'] == before['P'], 'as_stream', 'TP', f'step {k}: as_stream changed T/P')
                after_conversion('as_stream', k, st)
                eff += 1
            elif t == 'accessor':
                which = st['which']
                pair = {'vle': 'gl', 'lle': 'lL', 'sle': 'sl'}[which]
                outside = not multi and s.phase.lower() not in {q.lower() for q in pair}
                mech = mode(multi)
                if outside: mech = f'single-{s.phase.lower()}-outside-pair'; rec.hit('v2:accessor-outside-pair')
                try:
                    getattr(s, which)
                except tmo.exceptions.UndefinedPhase as e:
                    # warranted only for a NON-EMPTY single-phase stream whose phase group is not in the solver pair (outside the quantifier); inside the pair, for
                    # an empty stream or for a multi-phase stream the accessor must succeed
                    if multi or not (outside and ne): raise
                    rec.refuse(f'.{which} on a single-phase stream in phase {s.phase!r}: UndefinedPhase'); rec.hit('v2:accessor-refused')
                    a2 = snap(s)
                    rec.check(a2 == before, 'accessor', f'{which}/refusal-leaves-stream', f'step {k}: refused .{which} changed the stream: {a2} was {before}')
                    continue
                after = snap(s)
                labels = set(after['phases'])
                if outside and ne:
                    # the solver's phase pair does not contain the stream's (non-empty) phase: the target phase set lacks a non-empty phase, which the
                    # quantifier of C12 excludes (the library relabels the material as liquid there); totals, T and P are still judged
                    rec.refuse(f'.{which} on a non-empty single-phase stream whose phase lies outside the solver pair (outside the quantifier: content placement not judged)')
                    tot = lambda fl: {c: sum(v for (p_, c2), v in fl.items() if c2 == c) for c in {c for _, c in fl}}
                    rec.check(tot(after['flows']) == tot(before['flows']), 'accessor', f'{which}/totals/{mech}', f'step {k}: .{which} changed per-chemical totals: {before["flows"]} -> {after["flows"]}')
                    rec.check(after['T'] == before['T'] and after['P'] == before['P'], 'accessor', f'{which}/TP', f'step {k}: .{which} changed T/P')
                    after_conversion('accessor', k, st)
                    eff += 1
                    continue
                exp = relabel(before['flows'], labels)
                rec.check(after['flows'] == exp, 'accessor', f'{which}/content/{mech}', f'step {k}: .{which} from {before["cls"]}{before["phases"]}: content {after["flows"]} expected {exp} (material must stay in its phase)')
                rec.check(after['T'] == before['T'] and after['P'] == before['P'], 'accessor', f'{which}/TP', f'step {k}: .{which} changed T/P')
                rec.check(all(p in labels or swap(p) in labels for p in pair), 'accessor', f'{which}/labels', f'step {k}: .{which} did not provide its phases: {sorted(labels)}')
                after_conversion('accessor', k, st)
                eff += 1
            elif t == 'write':
                if not multi or zero: continue
                side = st['side']; kind = st['kind']
                if side == 'held' and not held: side = 'view'
                if side == 'held':
                    labs = sorted(held); p = labs[st['k'] % len(labs)]; view = held[p]
                    rec.hit('v2:held-across/' + crossed.get(p, 'none'))
                else:
                    p = s.phases[st['k'] % len(s.phases)]; view = s[p]
                cl = {'view': 'view-write', 'parent': 'parent-write', 'held': 'held-write'}[side]
                rec.hit('v2:write/' + side); rec.hit('v2:write-kind/' + kind)
                i = st['i']; j = (i + st['j']) % n
                ID = IDS[i]; v = st['v']
                exp = dict(before['flows']); exact = True; target = None; expT = before['T']; expP = before['P']
                def put(idx, val):
                    if val: exp[(p, cas[idx])] = val
                    else: exp.pop((p, cas[idx]), None)
                def put_row(row):
                    for idx in range(n): put(idx, row[idx])
                on_view = side != 'parent'
                if kind == 'imol':
                    if on_view: view.imol[ID] = v
                    else: s.imol[p, ID] = v
                    put(i, v); target = v
                elif kind == 'imass':
                    if on_view: view.imass[ID] = v
                    else: s.imass[p, ID] = v
                    put(i, v / MW[i]); target = v / MW[i]; exact = False
                elif kind == 'set_flow-kmol':
                    if on_view: view.set_flow(v, 'kmol/hr', ID)
                    else: s.set_flow(v, 'kmol/hr', (p, ID))
                    put(i, v); target = v; exact = False
                elif kind == 'set_flow-kg':
                    if on_view: view.set_flow(v, 'kg/hr', ID)
                    else: s.set_flow(v, 'kg/hr', (p, ID))
                    put(i, v / MW[i]); target = v / MW[i]; exact = False
                elif kind == 'mol-item':
                    view.mol[i] = v
                    put(i, v); target = v
                elif kind == 'mol-row':
                    view.mol[:] = st['row']
                    put_row(st['row'])
                elif kind == 'imol-row':
                    s.imol[p] = st['row']
                    put_row(st['row'])
                elif kind == 'imol-pair':
                    key = (ID, IDS[j])
                    if on_view: view.imol[key] = [v, st['v2']]
                    else: s.imol[p, key] = [v, st['v2']]
                    put(i, v); put(j, st['v2']); target = v
                elif kind == 'empty':
                    if on_view: view.empty(); put_row([0.0] * n)
                    else: s.empty(); exp = {}
                elif kind == 'scale':
                    f = st['f']; exact = False
                    if on_view:
                        view.scale(f)
                        for idx in range(n): put(idx, before['flows'].get((p, cas[idx]), 0.0) * f)
                    else:
                        s.scale(f)
                        exp = {q: x * f for q, x in before['flows'].items() if x * f}
                elif kind == 'copy_like':
                    fr = mk_fresh(st['fresh'], phase=p)
                    view.copy_like(fr)
                    put_row(st['fresh']['flows']); expT = st['fresh']['T']; expP = st['fresh']['P']
                elif kind == 'mix_from':
                    # the streams handed to MultiStream.from_streams keep an unlocked phase until the first rebinding: mixing an inlet of another phase into one of them relabels
                    # the sub-stream itself, which is a mixing rule (C01) and no representation change; such a view gets an inlet in its own phase
                    locked = isinstance(view.imol._phase, tmo._phase.LockedPhase)
                    if not locked: rec.hit('v2:unlocked-view-mix')
                    fr = mk_fresh(st['fresh'], phase=None if locked else p)
                    view.mix_from([fr], energy_balance=False)
                    put_row(st['fresh']['flows'])
                after = snap(s)
                same = (lambda a, b: a == b) if exact else ledger_close
                rec.check(same(after['flows'], exp), cl, f'{kind}/parent-ledger', f'step {k}: {side} write {kind} at ({p},{ID}): the parent holds {after["flows"]} expected {exp}')
                vr = view_row(view, cas)
                rec.check(same(vr, parent_row(exp, p)), cl, f'{kind}/view-row', f'step {k}: {side} write {kind} at ({p},{ID}): the view reads {vr} expected {parent_row(exp, p)}')
                rec.check(after['T'] == expT and after['P'] == expP and view.T == expT and view.P == expP, cl, f'{kind}/TP', f'step {k}: {side} write {kind}: T/P {after["T"]}, {after["P"]} (view {view.T}, {view.P}) expected {expT}, {expP}')
                if target is not None:
                    rd = st['read']
                    if on_view:    # read on the parent
                        got = {'imol': lambda: s.imol[p, ID], 'imass': lambda: s.imass[p, ID] / MW[i], 'get_flow': lambda: s.get_flow('kmol/hr', (p, ID)), 'mol': lambda: s.imol[p][i]}[rd]()
                    else:          # read on the view
                        got = {'imol': lambda: view.imol[ID], 'imass': lambda: view.imass[ID] / MW[i], 'get_flow': lambda: view.get_flow('kmol/hr', ID), 'mol': lambda: view.mol[i]}[rd]()
                    ok = got == target if (exact and rd in ('imol', 'mol')) else abs(got - target) <= 1e-12 * max(abs(got), abs(target))
                    rec.check(ok, cl, f'{kind}/visible-on-other-side/read-{rd}', f'step {k}: {side} write {kind} of {target} at ({p},{ID}) reads {got} through {rd} on the other side')
                eff += 1
            elif t == 'hold':
                if zero: continue
                if not multi:
                    vs = list(s)
                    rec.check(len(s) == 1 and len(vs) == 1 and phase_ledger(vs[0]) == before['flows'], 'iteration', 'single', f'step {k}: iterating a single-phase stream gave {len(vs)} items, len {len(s)}')
                    rec.hit('v2:iter-single')
                    continue
                if st['how'] == 'getitem':
                    p = s.phases[st['k'] % len(s.phases)]
                    held[p] = s[p]; crossed[p] = 'none'
                else:
                    vs = [x for x in s]
                    rec.check(len(s) == len(s.phases) == len(vs) and [x.phase for x in vs] == list(s.phases), 'iteration', 'multi/labels', f'step {k}: for v in s gave labels {[x.phase for x in vs]}, len(s)={len(s)}, phases {s.phases}')
                    rec.check(all(view_row(x, cas) == parent_row(before['flows'], x.phase) for x in vs), 'iteration', 'multi/content', f'step {k}: the streams yielded by iteration do not read the rows of the parent')
                    for x in vs: held[x.phase] = x; crossed[x.phase] = 'none'
                    rec.hit('v2:iter')
            elif t == 'held-probe':
                if not multi or not held: continue
                for p in sorted(held):
                    tag = crossed.get(p, 'none')
                    probe_view(rec, s, held[p], p, 'held-view', 'after-' + tag, st['k'] % n, cas, k)
                    rec.hit('v2:held-probe'); rec.hit('v2:held-across/' + tag)
                a2 = snap(s)
                rec.check(a2 == before, 'held-view', 'probe-neutral', f'step {k}: probing the held views changed the stream: {a2} was {before}')
            elif t == 'TP':
                how = st['how']
                if not multi or zero: how = 'parent-' + how.split('-')[1]
                if how.startswith('held') and not held: how = 'view-' + how.split('-')[1]
                if how.startswith('parent'): obj = s
                elif how.startswith('held'): labs = sorted(held); obj = held[labs[st['k'] % len(labs)]]
                else: obj = s[s.phases[st['k'] % len(s.phases)]]
                rec.hit('v2:TP/' + how)
                m = how.split('-')[1]
                if m == 'attr': obj.T = st['T']; obj.P = st['P']
                elif m == 'tc': obj.thermal_condition.T = st['T']; obj.thermal_condition.P = st['P']
                else:
                    o = tmo.Stream(None, phase='g', T=st['T'], P=st['P'], thermo=th)
                    obj.copy_thermal_condition(o)
                    o.T = 111.; o.P = 2222.     # the source must stay independent
                sides = [('parent', s)]
                if multi: sides += [(f'view {p!r}', s[p]) for p in s.phases] + [(f'held view {p!r}', held[p]) for p in sorted(held)]
                bad = [nm for nm, x in sides if not (x.T == st['T'] and x.P == st['P'])]
                rec.check(not bad, 'view-TP', f'{how}/shared', f'step {k}: T/P written by {how} not seen by {bad}')
                rec.check(snap(s)['flows'] == before['flows'], 'view-TP', 'flows', f'step {k}: changing T/P changed flows')
            elif t == 'save':
                saved = (s.get_data(), snap(s))
            elif t == 'restore':
                if saved is None: continue
                s.set_data(saved[0])
                after = snap(s)
                want = saved[1]
                ok = after['flows'] == want['flows'] and after['T'] == want['T'] and after['P'] == want['P'] and set(after['phases']) == set(want['phases'])
                rec.check(ok, 'restore', f'{"multi" if len(want["phases"]) > 1 else "single"}-saved', f'step {k}: set_data(get_data()) gave {after} but saved state was {want}')
                after_conversion('restore', k, st)
                eff += 1
            elif t == 'restore-other':
                if saved is None: continue
                d = st['other']
                if d['multi']:
                    o = tmo.MultiStream(None, phases=tuple(d['phases']), T=d['T'], P=d['P'], thermo=th)
                    for i, v in zip(IDS, d['flows']):
                        if v: o.imol[d['phases'][0], i] = v
                else: o = mk_fresh(d)
                o.set_data(saved[0])
                after = snap(o)
                want = saved[1]
                ok = after['flows'] == want['flows'] and after['T'] == want['T'] and after['P'] == want['P'] and set(after['phases']) == set(want['phases'])
                rec.check(ok, 'restore', f'onto-other-{"multi" if d["multi"] else "single"}-stream/{"multi" if len(want["phases"]) > 1 else "single"}-saved', f'step {k}: other.set_data(saved) gave {after} but saved state was {want}')
                o.empty(); o.T = 222.
                rec.check(snap(s) == before, 'restore', 'onto-other/independent', f'step {k}: restoring onto another stream and emptying it changed this stream')
                rec.hit('v2:restore-other')
            elif t == 'from_data':
                if st['src'] == 'saved' and saved is not None: data, want = saved
                else: data, want = s.get_data(), before
                cls = tmo.Stream if st['cls'] == 'Stream' else tmo.MultiStream
                o = cls.from_data(data, thermo=th)
                after = snap(o)
                ok = after['flows'] == want['flows'] and after['T'] == want['T'] and after['P'] == want['P'] and set(after['phases']) == set(want['phases'])
                rec.check(ok, 'restore', f'{st["cls"]}.from_data/{"multi" if len(want["phases"]) > 1 else "single"}-saved', f'step {k}: {st["cls"]}.from_data(saved) gave {after} but saved state was {want}')
                o.empty(); o.T = 222.
                rec.check(snap(s) == before, 'restore', 'from_data/independent', f'step {k}: emptying the stream made by from_data changed this stream')
                rec.hit('v2:from_data')
            elif t == 'temporary':
                kw = {}
                if st['T'] is not None: kw['T'] = st['T']
                if st['P'] is not None: kw['P'] = st['P']
                if st['flow'] == 'row' or (st['flow'] == 'rows' and not multi): kw['flow'] = list(st['row'])
                elif st['flow'] == 'rows' and not zero: kw['flow'] = [[x * (q + 1) for x in st['row']] for q in range(len(s.phases))]
                inner = st['inner']
                if zero and inner == 'collapse': inner = 'none'
                rec.hit('v2:temporary'); rec.hit('v2:temporary/' + inner)
                try:
                    with s.temporary(**kw):
                        if inner == 'conv':
                            tg = set(s.phases) | set(st['extra'])
                            s.phases = tuple(p for p in PH if p in tg)
                            if isinstance(s, tmo.MultiStream): s.imol[st['extra'][0], IDS[st['i']]] = st['v']
                            else: s.imol[IDS[st['i']]] = st['v']
                        elif inner == 'collapse':
                            s.empty(); s.phase = st['extra'][0]
                        elif inner == 'empty': s.empty()
                        elif inner == 'raise': raise _Probe()
                except _Probe:
                    pass
                after = snap(s)
                ok = after['flows'] == before['flows'] and after['T'] == before['T'] and after['P'] == before['P'] and set(after['phases']) == set(before['phases'])
                rec.check(ok, 'temporary', f'restored/{mode(multi)}/inner-{inner}', f'step {k}: after with s.temporary({sorted(kw)}) [{inner}] the stream is {after} but was {before}')
                if inner == 'collapse': held.clear(); crossed.clear()
                after_conversion('temporary', k, st)
                eff += 1
            elif t == 'temp-phase':
                if multi: continue
                cur = s.phase
                p = (cur if st['r'] < 0.3 else swap(cur)) if ne else PH[st['k'] % 5]
                rec.hit('v2:temp-phase')
                try:
                    with s.temporary_phase(p):
                        inside = snap(s)
                except Exception as e:
                    rec.exception('temporary_phase', e, what=f'step {k}: with s.temporary_phase({p!r}) on Stream{before["phases"]} raised {type(e).__name__}: {str(e)[:150]}')
                    if snap(s) != before: return
                    continue
                after = snap(s)
                exp = {(p, c): v for (q, c), v in before['flows'].items()}
                rec.check(inside['flows'] == exp and inside['phases'] == (p,) and inside['T'] == before['T'] and inside['P'] == before['P'], 'temporary_phase', 'inside', f'step {k}: inside temporary_phase({p!r}) the stream is {inside}, expected flows {exp}')
                rec.check(after == before, 'temporary_phase', 'restored', f'step {k}: after temporary_phase({p!r}) the stream is {after} but was {before}')
            elif t == 'empty-row':
                if not multi or zero: continue
                p = s.phases[st['k'] % len(s.phases)]
                s.imol[p] = 0.
                exp = {q: x for q, x in before['flows'].items() if q[0] != p}
                rec.check(snap(s)['flows'] == exp, 'parent-write', 'row-zero/parent-ledger', f'step {k}: s.imol[{p!r}] = 0 left {snap(s)["flows"]} expected {exp}')
            elif t == 'empty-all':
                s.empty()
                after = snap(s)
                rec.check(after['flows'] == {} and after['phases'] == before['phases'] and after['T'] == before['T'] and after['P'] == before['P'], 'parent-write', f'empty/{mode(multi)}', f'step {k}: s.empty() gave {after} from {before}')
                if multi:
                    for p in sorted(held): rec.check(view_row(held[p], cas) == {}, 'held-write', 'parent-empty/view-row', f'step {k}: after s.empty() the held view {p!r} still reads {view_row(held[p], cas)}')
            elif t == 'getitem-single':
                if multi: continue
                cur = s.phase
                lab = cur if st['r'] < 0.5 else swap(cur)
                x = s[lab]
                ID = IDS[st['k'] % n]
                old = s.imol[ID]; w = 7.5 if old != 7.5 else 8.5
                x.imol[ID] = w
                rec.check(s.imol[ID] == w and x.T == s.T and x.P == s.P, 'iteration', 'single/getitem-own-label', f'step {k}: Stream[{lab!r}] on a stream in phase {cur!r} is not a live view of it')
                s.imol[ID] = old
                rec.check(snap(s) == before, 'iteration', 'single/getitem-neutral', f'step {k}: probing Stream[{lab!r}] changed the stream')
                foreign = [q for q in PH if q.lower() != cur.lower()]
                other = foreign[st['k'] % len(foreign)]
                try:
                    y = s[other]
                except tmo.exceptions.UndefinedPhase:      # the documented refusal; any other exception type is reported by the outer handler
                    rec.refuse('Stream[label of another phase group] raises'); y = None; raised = True
                else: raised = False
                rec.check(raised, 'iteration', 'single/getitem-foreign-label-accepted', f'step {k}: Stream[{other!r}] on a single-phase stream in phase {cur!r} returned {type(y).__name__} (phase {getattr(y, "phase", None)!r}) instead of raising UndefinedPhase')
                rec.check(snap(s) == before, 'iteration', 'single/getitem-foreign-neutral', f'step {k}: asking a single-phase stream in phase {cur!r} for Stream[{other!r}] changed the stream')
                rec.hit('v2:getitem-single'); rec.hit('v2:getitem-single/foreign-judged')
        except Exception as e:
            cl = 'zero-phases' if zero and t not in ('from_data', 'restore-other') else clause     # a MultiStream left with no phase at all by phases=() on an empty stream
            rec.exception(cl, e, what=f'step {k} {st} on {before["cls"]}{before["phases"]} (non-empty {sorted(ne)}) raised {type(e).__name__}: {str(e)[:150]}')
            try:
                after = snap(s)
                rec.check(sum(after['flows'].values()) == sum(before['flows'].values()), 'after-exception', t, f'step {k}: after the exception the stream holds other material')
            except Exception as e2:
                rec.violation(f'C12/after-exception/{t}/corrupt', f'step {k}: after {type(e).__name__} the stream is unusable: {type(e2).__name__}: {str(e2)[:120]}')
            return
        e = stream_invariant(s)
        if e: rec.check(False, 'invariant', t, f'step {k}: sparse invariant {e}'); return
    if multi_seen and eff >= 3: rec.mark_nontrivial(case_hash(case))


def mode(multi):
    return 'multi' if multi else 'single'


def replay(case, rec):
    run_case(case, rec)


def run(rec, rng, tier, shard, nshards):
    n = 3000 if tier == 'quick' else 30000
    for i in range(n):
        case = gen_case(rng)
        try:
            run_case(case, rec)
        except Exception as e:
            rec.exception('harness', e, what=f'harness error: {type(e).__name__}: {e}')
        if i % 301 == 0: rec.sample({'start': case['start'], 'steps': case['steps'][:6], 'n_steps': len(case['steps'])})
    # second case stream (extended vocabulary); drawn after the first so that the first stays byte-identical
    n2 = 1500 if tier == 'quick' else 15000
    for i in range(n2):
        case = gen_case2(rng)
        try:
            run_case(case, rec)
        except Exception as e:
            rec.exception('harness', e, what=f'harness error (v2): {type(e).__name__}: {e}')
        if i % 501 == 0: rec.sample({'v': 2, 'start': case['start'], 'steps': case['steps'][:6], 'n_steps': len(case['steps'])})
