"""C17 — reaction arithmetic agrees with applying the reactions and spares its operands.

Monitor: both sides of each algebraic identity are applied (real code) to a common feed and compared; every operand's
(stoichiometry, reactant, X, basis, phases) is snapshotted before and compared bit-for-bit after each operator; results
are checked for object and container identity.
"""
import numpy as np
import thermosteam as tmo
from thermosteam.exceptions import InfeasibleRegion
from vt.core import case_hash
from vt import rxn as R
from vt.common import SV, SA

PID = 'C17'
RULE = ('random pairs/triples of balanced reactions sharing a reactant (same generator as C05), X in (0,0.45], k in (0,1.5], mol/wt and mixed bases, phase-less and phase-tagged; '
        'clauses: (a+b) vs ParallelReaction([a,b]); ((a+b)-b) vs a; k*a, a*k, a/k vs X scaled; +=,-=,*=,/= vs binary forms; copy/neg/backwards/add/sub/copy(basis) return new '
        'objects with unshared containers and leave operands bit-identical; item.X <-> set.X. Coverage additions: boundary conversions (X_a + X_b = 1, X_a = X_b, X = 1 scaled by k <= 1, a null a in '
        '(a+b)-b), a -= b against a - b for X_a > X_b, a + None / a - None, backwards(reactant, X=), basis setter refused on sets and items (counted), ReactionSystem.X <-> parts, sparse feeds and bare '
        'SparseVector / ndarray / SparseArray feeds for the comparison. Third round: every case also runs a HISTORY on one ParallelReaction / SeriesReaction of three members (optionally inside a ReactionSystem): '
        'handles are taken and kept (rs[i], rs[-i], iteration items, slices incl. steps / reversed, items, iteration items and slices of slices, items reached through the system) while the conversions are '
        'written through every door (set.X = array / list / tuple / scalar, set.X[i], set.X[:], set.X *=,/=,+=,-=, set.X = set.X * k, set.X = set.X; the same on a held slice; system.X = [...], system.X[1][i]; '
        'X, *=, /=, +=, -= on a held item; writes on copies of the set / a slice / an item, which must stay private); after every write the set, fresh items, all kept handles and the system must report the '
        'conversions written (model: stand-alone reactions updated by X assignment and the binary forms), and at the end the set, one kept handle and the system act like the model. non-trivial = both reactions have X>0 and >=3 species; distinct = hash of the case')
MIN_NONTRIVIAL = {'quick': 300, 'thorough': 10000}
ASSUMPTIONS = ['feeds are made large enough that neither side is infeasible (X_a + X_b <= 0.9)']


def required(tier):
    return ['add-vs-parallel', 'sub-inverse', 'scale', 'inplace', 'new-object', 'operands-unchanged', 'set-item-X', 'backwards', 'set-copy', 'reduce', 'sum-of-three', 'basis-setter', 'set+set', 'set-item-inplace', 'negated-operand',
            'X:sum-to-one', 'X:equal', 'X:full-scaled', 'sub-inverse:null-a', 'isub-direct', 'backwards:X', 'system-X', 'feed:sparse', 'feed:sv', 'feed:nd', 'feed:sa', 'basis-setter:set-refused',
            'history', 'history:complete', 'history:whole-assign-with-held-handles', 'history:system-assign-with-held-handles', 'history:slice-assign', 'history:held-item', 'history:held-iter-item', 'history:held-slice',
            'history:held-slice-item', 'history:held-slice-iter-item', 'history:held-slice-of-slice', 'history:held-system-item', 'history:item-inplace', 'history:copy-write', 'history:acts']


def gen_case(rng):
    tagged = rng.random() < 0.25
    phmap = {i: rng.choice('lg') for i in R.IDS} if tagged else None
    # pick a reactant and reactions in which it is consumed
    for _ in range(200):
        a = R.gen_reaction(rng, phases_p=0)
        r = a['reactant']
        others = []
        for _ in range(60):
            b = R.gen_reaction(rng, phases_p=0)
            if r in b['st']:
                if b['st'][r] > 0: b['st'] = {i: -v for i, v in b['st'].items()}
                b['reactant'] = r
                others.append(b)
                if len(others) == 2: break
        if len(others) == 2: break
    rx = [a] + others
    for d in rx:
        d['X'] = rng.choice([0.0, round(rng.uniform(0.01, 0.3), 4), 0.25, 0.1]) if rng.random() < 0.9 else 0.0
        d['basis'] = rng.choice(['mol', 'mol', 'wt'])
        if tagged: d['ph'] = {i: phmap[i] for i in d['st']}
    if rng.random() < 0.6:
        for d in rx: d['basis'] = rx[0]['basis']
    k = rng.choice([0.5, 1.0, 1.5, 2.0, round(rng.uniform(0.05, 1.5), 4)])
    feed = {i: round(10 ** rng.uniform(1.5, 3), 3) for i in R.IDS}     # every species plentiful
    case = {'rx': rx, 'k': k, 'tagged': tagged, 'phmap': phmap, 'feed': feed}
    # boundary conversions: the pair sums to one / is equal / a is complete or null (the reactant is then fed sparingly so that the co-reactants still suffice)
    if rng.random() < 0.18:
        x = round(rng.uniform(0.05, 0.95), 3)
        xa, xb = rng.choice([(0.5, 0.5), (round(1 - x, 3), x), (x, x), (1.0, 0.0), (0.0, x), (1.0, round(x / 4, 3))])
        rx[0]['X'], rx[1]['X'] = xa, xb
        case['bx'] = True; case['k'] = rng.choice([0.5, 1.0, round(rng.uniform(0.05, 1.0), 4)])
        feed[r] = round(10 ** rng.uniform(-1, 0.3), 4)
    # arbitrary feeds: species nobody consumes may be absent; the two sides may also be compared on a bare flow array (in the units of the common basis)
    consumed = {i for d in rx for i, v in d['st'].items() if v < 0}
    if rng.random() < 0.3:
        for i in list(feed):
            if i not in consumed and rng.random() < 0.5: feed[i] = 0.0
        case['sparse'] = True
    if len({d['basis'] for d in rx}) == 1 and rng.random() < 0.25: case['feed_kind'] = rng.choice(['sa', 'nd2']) if tagged else rng.choice(['sv', 'nd'])
    case['hist'] = gen_history(rng)
    return case


# ---- histories on one reaction set: handles (items, iteration items, slices, items / slices of slices, items reached through a ReactionSystem) are taken and KEPT while
# the conversions are written through every door (whole-array / scalar / element / augmented assignment on the set, on a slice, on the enclosing system; X and in-place
# arithmetic on a held item; writes on copies, which must stay private). The generator simulates the conversions so that every member stays within (0, 0.3].
SLICES = [[0, 2, None], [1, 3, None], [None, 1, None], [1, None, None], [None, None, None], [None, None, 2], [None, None, -1], [0, 3, None], [-2, None, None], [None, -1, None], [2, None, None]]
SUBSLICES = [[None, None, None], [None, 1, None], [1, None, None], [None, None, -1], [-1, None, None]]
NSET = 3


def gen_history(rng):
    n = NSET
    def xv(): return round(rng.uniform(0.01, 0.28), 4)
    X0 = [xv() for _ in range(n)]
    xm = list(X0)
    system = rng.random() < 0.3
    ops, items, slices = [], [], []      # items: model index of each held item; slices: model indices of each held slice

    def take(kind=None):
        kinds = ['item', 'item', 'neg-item', 'iter', 'slice', 'slice', 'slice-item', 'slice-slice', 'slice-iter'] + (['system-item'] if system else [])
        kind = kind or rng.choice(kinds)
        if kind in ('slice-item', 'slice-slice', 'slice-iter') and not slices: kind = 'slice'
        if kind == 'item': i = rng.randrange(n); ops.append(['take-item', i]); items.append(i)
        elif kind == 'neg-item': i = rng.randrange(1, n + 1); ops.append(['take-item', -i]); items.append(n - i)
        elif kind == 'system-item': i = rng.randrange(n); ops.append(['take-system-item', i]); items.append(i)
        elif kind == 'iter': ops.append(['take-iter']); items.extend(range(n))
        elif kind == 'slice': spec = rng.choice(SLICES); ops.append(['take-slice', spec]); slices.append(list(range(n))[slice(*spec)])
        elif kind == 'slice-item':
            s_ = rng.randrange(len(slices)); j = rng.randrange(len(slices[s_])); ops.append(['take-slice-item', s_, j]); items.append(slices[s_][j])
        elif kind == 'slice-iter':
            s_ = rng.randrange(len(slices)); ops.append(['take-slice-iter', s_]); items.extend(slices[s_])
        else:
            s_ = rng.randrange(len(slices)); spec = rng.choice(SUBSLICES); idxs = slices[s_][slice(*spec)]
            if not idxs: spec = [None, None, None]; idxs = list(slices[s_])
            ops.append(['take-slice-slice', s_, spec]); slices.append(idxs)

    def assign(idxs):
        form = rng.choice(['array', 'list', 'tuple', 'scalar'])
        if form == 'scalar':
            v = xv(); vals = v
            for i in idxs: xm[i] = v
        else:
            vals = [xv() for _ in idxs]
            for i, v in zip(idxs, vals): xm[i] = v
        return form, vals

    def iop(idxs):
        op = rng.choice(['imul', 'itruediv', 'iadd', 'isub'])
        hi = max(xm[i] for i in idxs); lo = min(xm[i] for i in idxs)
        if op == 'imul':
            k = rng.choice([0.5, 0.8, 1.25, 2.0])
            if hi * k > 0.3: k = 0.5
        elif op == 'itruediv':
            k = rng.choice([0.5, 0.8, 1.25, 2.0])
            if hi / k > 0.3: k = 2.0
        elif op == 'iadd':
            k = round(rng.uniform(0.005, 0.03), 4)
            if hi + k > 0.3: op = 'isub'
        if op == 'isub': k = round(lo * rng.choice([0.25, 0.5]), 6)
        for i in idxs: xm[i] = {'imul': xm[i] * k, 'itruediv': xm[i] / k, 'iadd': xm[i] + k, 'isub': xm[i] - k}[op]
        return op, k

    def write():
        w = rng.choice(['set-assign'] * 3 + ['slice-assign'] * 2 + (['system-assign'] * 2 + ['system-elem'] if system else []) + ['set-elem', 'set-fullslice', 'set-iop', 'set-iop', 'set-rebind', 'set-self',
                        'slice-elem', 'slice-iop', 'item-X', 'item-X', 'item-iop', 'item-iop', 'item-iadd', 'item-isub', 'copy-write'])
        if w.startswith('slice') and not slices: take('slice')
        if w.startswith('item') and not items: take('item')
        if w == 'set-assign': ops.append(['set-assign', *assign(range(n))])
        elif w == 'system-assign': ops.append(['system-assign', xv(), *assign(range(n))])
        elif w == 'system-elem': i = rng.randrange(n); v = xv(); xm[i] = v; ops.append(['system-elem', i, v])
        elif w == 'set-elem': i = rng.randrange(n); v = xv(); xm[i] = v; ops.append(['set-elem', i, v])
        elif w == 'set-fullslice': vals = [xv() for _ in range(n)]; xm[:] = vals; ops.append(['set-fullslice', vals])
        elif w == 'set-iop': ops.append(['set-iop', *iop(range(n))])
        elif w == 'set-rebind':
            k = rng.choice([0.5, 0.8, 1.25])
            if max(xm) * k > 0.3: k = 0.5
            xm[:] = [x * k for x in xm]; ops.append(['set-rebind', k])
        elif w == 'set-self': ops.append(['set-self'])
        elif w == 'slice-assign': s_ = rng.randrange(len(slices)); ops.append(['slice-assign', s_, *assign(slices[s_])])
        elif w == 'slice-elem':
            s_ = rng.randrange(len(slices)); j = rng.randrange(len(slices[s_])); v = xv(); xm[slices[s_][j]] = v; ops.append(['slice-elem', s_, j, v])
        elif w == 'slice-iop': s_ = rng.randrange(len(slices)); ops.append(['slice-iop', s_, *iop(slices[s_])])
        elif w == 'item-X': h_ = rng.randrange(len(items)); v = xv(); xm[items[h_]] = v; ops.append(['item-X', h_, v])
        elif w == 'item-iop':
            h_ = rng.randrange(len(items)); i = items[h_]; op = rng.choice(['imul', 'itruediv']); k = rng.choice([0.5, 0.8, 1.25, 2.0])
            if op == 'imul' and xm[i] * k > 0.3: k = 0.5
            if op == 'itruediv' and xm[i] / k > 0.3: k = 2.0
            xm[i] = xm[i] * k if op == 'imul' else xm[i] / k; ops.append(['item-iop', h_, op, k])
        elif w in ('item-iadd', 'item-isub'):
            h_ = rng.randrange(len(items)); i = items[h_]; o = rng.randrange(n)
            if w == 'item-iadd':
                ov = round(rng.uniform(0.01, 0.05), 4)
                if xm[i] + ov > 0.3: w = 'item-isub'
            if w == 'item-isub': ov = round(xm[i] * rng.choice([0.25, 0.5]), 6)
            if ov > 0:
                xm[i] = xm[i] + ov if w == 'item-iadd' else xm[i] - ov; ops.append([w, h_, o, ov])
            else:
                v = xv(); xm[i] = v; ops.append(['item-X', h_, v])
        else:
            what = rng.choice(['set', 'slice', 'item'])
            if what == 'slice' and not slices: what = 'set'
            if what == 'item' and not items: what = 'set'
            ref = 0 if what == 'set' else rng.randrange(len(slices) if what == 'slice' else len(items))
            ops.append(['copy-write', what, ref, rng.choice(['array', 'scalar', 'elem']), xv()])

    for _ in range(rng.randrange(1, 4)): take()
    for _ in range(rng.randrange(4, 9)):
        if rng.random() < 0.25: take()
        write()
    return {'cls': rng.choice(['ParallelReaction', 'ParallelReaction', 'SeriesReaction']), 'system': system, 'X0': X0, 'ops': ops, 'pick': rng.randrange(1000)}


def snap(rx):
    st = rx._stoichiometry
    if isinstance(st, list): arr = [s.to_array().copy() for s in st]
    else: arr = st.to_array().copy()
    X = np.array(rx.X, dtype=float).copy()
    ri = rx._reactant_index
    return (arr, X, repr(ri) if not isinstance(ri, np.ndarray) else ri.tolist(), rx._basis, rx._phases)


def same_snap(a, b):
    def eq(x, y):
        if isinstance(x, list): return len(x) == len(y) and all(np.array_equal(i, j) for i, j in zip(x, y))
        return np.array_equal(x, y)
    return eq(a[0], b[0]) and np.array_equal(a[1], b[1]) and a[2] == b[2] and a[3] == b[3] and a[4] == b[4]


def containers(rx):
    """ids of the mutable containers holding the stoichiometry."""
    st = rx._stoichiometry
    out = {id(st)}
    if isinstance(st, SV): out.add(id(st.dct))
    elif isinstance(st, SA):
        for r in st.rows: out.add(id(r)); out.add(id(r.dct))
    elif isinstance(st, list):
        for s in st: out |= containers_of_sparse(s)
    return out


def containers_of_sparse(st):
    out = {id(st)}
    if isinstance(st, SV): out.add(id(st.dct))
    elif isinstance(st, SA):
        for r in st.rows: out.add(id(r)); out.add(id(r.dct))
    return out


def apply(rx, case, th, stream=False):
    """apply a reaction object to the common feed; returns flows dict keyed (phase, ID) or ID."""
    fk = case.get('feed_kind')
    if fk and not stream:
        # a bare array of flows (every reaction of the case is on one basis; the numbers are taken in that basis on both sides)
        ids = th.chemicals.IDs
        if case['tagged']:
            arr = np.zeros((2, len(ids)))
            for i, v in case['feed'].items(): arr[0 if case['phmap'][i] == 'g' else 1, ids.index(i)] = v
            obj = SA(arr) if fk == 'sa' else arr
            rx(obj)
            out = obj.to_array() if fk == 'sa' else obj
            return {('g' if r == 0 else 'l', ids[j]): out[r, j] for r in range(2) for j in range(len(ids)) if out[r, j]}
        arr = np.zeros(len(ids))
        for i, v in case['feed'].items(): arr[ids.index(i)] = v
        obj = SV(arr) if fk == 'sv' else arr
        rx(obj)
        out = obj.to_array() if fk == 'sv' else obj
        return {ids[j]: out[j] for j in range(len(ids)) if out[j]}
    if case['tagged']:
        s = tmo.MultiStream(None, phases=('g', 'l'), thermo=th)
        for i, v in case['feed'].items(): s.imol[case['phmap'][i], i] = v
        rx(s)
        out = {}
        for ph, row in zip(s.phases, s.imol.data.rows):
            for j, v in row.dct.items(): out[(ph, s.chemicals.IDs[j])] = v
        return out
    s = tmo.Stream(None, thermo=th)
    for i, v in case['feed'].items(): s.imol[i] = v
    rx(s)
    return {s.chemicals.IDs[j]: v for j, v in s.imol.data.dct.items()}


def differ(x, y, scale):
    return [(str(k), x.get(k, 0.0), y.get(k, 0.0)) for k in set(x) | set(y)
            if abs(x.get(k, 0.0) - y.get(k, 0.0)) > 1e-10 * max(abs(x.get(k, 0.0)), abs(y.get(k, 0.0))) + 1e-12 * scale]


def run_case(case, rec):
    rec.begin_case(case)
    th = R.thermo()
    scale = max(case['feed'].values())
    def mk(i): return R.build_reaction(case['rx'][i], th)
    a, b, c = mk(0), mk(1), mk(2)
    k = case['k']
    same_basis = a._basis == b._basis
    tg = ('tagged' if case['tagged'] else 'phase-less') + ('/same-basis' if same_basis else '/mixed-basis')

    def guarded(clause, fn):
        try:
            return fn()
        except InfeasibleRegion:
            rec.refuse('infeasible (feed not sufficient at round-off)'); return None
        except Exception as e:
            rec.exception(clause, e, what=f'{clause} ({tg}) raised {type(e).__name__}: {str(e)[:200]}'); return None

    def unchanged(op, operands, snaps):
        for name, o, s in zip('ab', operands, snaps):
            rec.check(same_snap(snap(o), s), 'operands-unchanged', f'{op}/{name}/{tg}', f'{op} changed operand {name}: before {s[1:4]} after {snap(o)[1:4]}; stoichiometry equal: {np.array_equal(snap(o)[0], s[0]) if not isinstance(s[0], list) else "set"}')

    def fresh(op, res, operands):
        ok = all(res is not o for o in operands)
        rec.check(ok, 'new-object', f'{op}/identity/{tg}', f'{op} returned one of its operands instead of a new object')
        if ok:
            shared = any(containers(res) & containers(o) for o in operands)
            rec.check(not shared, 'new-object', f'{op}/shared-container/{tg}', f'{op} result shares its stoichiometry container with an operand')

    # ---- a + b vs parallel ------------------------------------------------------
    sa_, sb_ = snap(a), snap(b)
    s = guarded('add', lambda: a + b)
    if s is not None:
        unchanged('add', (a, b), (sa_, sb_)); fresh('add', s, (a, b))
        def par():
            bb = b if same_basis else b.copy(basis=a._basis)
            return apply(tmo.ParallelReaction([a.copy(), bb.copy()]), case, th)
        lhs = guarded('add-vs-parallel', lambda: apply(s, case, th)); rhs = guarded('add-vs-parallel', par)
        if lhs is not None and rhs is not None:
            d = differ(lhs, rhs, scale)
            rec.check(not d, 'add-vs-parallel', tg, f'(a+b)(feed) != ParallelReaction([a,b])(feed): {d[:4]}', detail={'Xa': a.X, 'Xb': b.X})
        # ---- (a + b) - b vs a
        ss = snap(s); sb2 = snap(b)
        m = guarded('sub', lambda: s - b)
        if m is not None:
            unchanged('sub', (s, b), (ss, sb2)); fresh('sub', m, (s, b))
            if a.X > 0 and b.X > 0:
                lhs = guarded('sub-inverse', lambda: apply(m, case, th)); rhs = guarded('sub-inverse', lambda: apply(a, case, th))
                if lhs is not None and rhs is not None:
                    d = differ(lhs, rhs, scale)
                    rec.check(not d, 'sub-inverse', tg, f'((a+b)-b)(feed) != a(feed): {d[:4]}')
            elif a.X == 0 and b.X > 0:
                # boundary: a converts nothing, so (a+b)-b must convert nothing either
                rec.hit('sub-inverse:null-a')
                lhs = guarded('sub-inverse', lambda: apply(m, case, th)); rhs = guarded('sub-inverse', lambda: apply(a, case, th))
                if lhs is not None and rhs is not None:
                    d = differ(lhs, rhs, scale)
                    rec.check(not d, 'sub-inverse', f'null-a/{tg}', f'with a.X = 0, ((a+b)-b)(feed) != a(feed) = feed: {d[:4]} (X of the result {m.X!r})')
        # ---- in-place forms
        ip = a.copy(); sb3 = snap(b)
        r = guarded('inplace', lambda: ip.__iadd__(b))
        if r is not None:
            rec.check(r is ip, 'inplace', f'iadd/identity/{tg}', '+= returned another object')
            rec.check(same_snap(snap(b), sb3), 'operands-unchanged', f'iadd/b/{tg}', '+= changed its right operand')
            lhs = guarded('inplace', lambda: apply(ip, case, th)); rhs = guarded('inplace', lambda: apply(s, case, th))
            if lhs is not None and rhs is not None:
                d = differ(lhs, rhs, scale)
                rec.check(not d, 'inplace', f'iadd/{tg}', f'(a += b) acts differently from a + b: {d[:4]}')
        ip = s.copy(); sb4 = snap(b)
        r = guarded('inplace', lambda: ip.__isub__(b))
        if r is not None:
            rec.check(r is ip, 'inplace', f'isub/identity/{tg}', '-= returned another object')
            rec.check(same_snap(snap(b), sb4), 'operands-unchanged', f'isub/b/{tg}', '-= changed its right operand')
        if r is not None and m is not None and a.X > 0 and b.X > 0:
            lhs = guarded('inplace', lambda: apply(ip, case, th)); rhs = guarded('inplace', lambda: apply(m, case, th))
            if lhs is not None and rhs is not None:
                d = differ(lhs, rhs, scale)
                rec.check(not d, 'inplace', f'isub/{tg}', f'(s -= b) acts differently from s - b: {d[:4]}', detail={'X_inplace': ip.X, 'X_binary': m.X})
    # ---- a - b with a null b returns a new object
    null = a.copy(); null.X = 0.0
    sa2 = snap(a)
    m0 = guarded('sub', lambda: a - null)
    if m0 is not None:
        fresh('sub-null', m0, (a, null)); unchanged('sub-null', (a,), (sa2,))
    p0 = guarded('add', lambda: a + null)
    if p0 is not None: fresh('add-null', p0, (a, null))
    # ---- scaling
    for op, fn, Xexp in (('mul', lambda: a * k, a.X * k), ('rmul', lambda: k * a, a.X * k), ('truediv', lambda: a / k, a.X / k)):
        sa3 = snap(a)
        r = guarded('scale', fn)
        if r is None: continue
        fresh(op, r, (a,)); unchanged(op, (a,), (sa3,))
        rec.check(abs(r.X - Xexp) <= 1e-15 * max(abs(Xexp), 1e-300) * 4 and np.array_equal(snap(r)[0], sa3[0]), 'scale', f'{op}/{tg}', f'{op} by {k}: X={r.X} expected {Xexp}, stoichiometry kept: {np.array_equal(snap(r)[0], sa3[0])}')
        if Xexp <= 0.95:
            ref = a.copy(); ref.X = Xexp
            lhs = guarded('scale', lambda: apply(r, case, th)); rhs = guarded('scale', lambda: apply(ref, case, th))
            if lhs is not None and rhs is not None:
                d = differ(lhs, rhs, scale)
                rec.check(not d, 'scale', f'{op}/acts/{tg}', f'{op} by {k} acts differently from a with X scaled: {d[:4]}')
        elif Xexp <= 1.0 and case.get('bx'):
            # boundary: up to complete conversion (the reactant is fed sparingly in these cases)
            ref = a.copy(); ref.X = Xexp
            lhs = guarded('scale', lambda: apply(r, case, th)); rhs = guarded('scale', lambda: apply(ref, case, th))
            if lhs is not None and rhs is not None:
                rec.hit('X:full-scaled')
                d = differ(lhs, rhs, scale)
                rec.check(not d, 'scale', f'{op}/acts-near-complete/{tg}', f'{op} by {k} acts differently from a with X scaled to {Xexp}: {d[:4]}')
    for op, fn, Xexp in (('imul', lambda x: x.__imul__(k), a.X * k), ('itruediv', lambda x: x.__itruediv__(k), a.X / k)):
        ip = a.copy()
        r = guarded('inplace', lambda: fn(ip))
        if r is not None:
            rec.check(r is ip and abs(ip.X - Xexp) <= 4e-16 * max(abs(Xexp), 1e-300), 'inplace', f'{op}/{tg}', f'{op}: X={ip.X} expected {Xexp}')
    # ---- copy / neg / copy(basis) / backwards
    for op, fn in (('copy', lambda: a.copy()), ('neg', lambda: -a), ('copy-basis', lambda: a.copy(basis='wt' if a._basis == 'mol' else 'mol')),
                   ('copy-same-basis', lambda: a.copy(basis=a._basis))):
        sa4 = snap(a)
        r = guarded('new-object', fn)
        if r is None: continue
        fresh(op, r, (a,)); unchanged(op, (a,), (sa4,))
        if op == 'neg': rec.check(r.X == -a.X, 'scale', f'neg/{tg}', f'-a has X={r.X}, a.X={a.X}')
    prods = [i for i, v in case['rx'][0]['st'].items() if v > 0]
    for explicit in (False, True):
        if not explicit and len(prods) != 1: continue
        newr = prods[0]
        sa5 = snap(a)
        arg = ((case['phmap'][newr], newr) if False else newr) if explicit else None
        r = guarded('backwards', (lambda: a.backwards(newr)) if explicit else (lambda: a.backwards()))
        if r is None: continue
        fresh('backwards', r, (a,)); unchanged('backwards' + ('' if explicit else '-default'), (a,), (sa5,))
        st0 = sa5[0]; st1 = snap(r)[0]
        j = th.chemicals.IDs.index(newr)
        col0 = st0[..., j].sum() if st0.ndim == 2 else st0[j]
        exp = -st0 / col0
        rec.check(np.allclose(st1, exp, rtol=1e-12, atol=0), 'backwards', ('explicit' if explicit else 'default') + '/' + tg,
                  f'backwards({newr if explicit else ""}) is not the reversed reaction rescaled on {newr}: got {st1[np.nonzero(st1)].tolist()} expected {exp[np.nonzero(exp)].tolist()}')
    # ---- reaction sets: item X <-> set X; set copy / re-basing leaves the members alone
    for cls in (tmo.ParallelReaction, tmo.SeriesReaction):
        members = [a.copy(), (b if same_basis else b.copy(basis=a._basis)).copy(), (c if c._basis == a._basis else c.copy(basis=a._basis)).copy()]
        msn = [snap(x) for x in members]
        rs = guarded('set-item-X', lambda: cls(members))
        if rs is None: continue
        it = rs[1]
        it.X = 0.123
        rec.check(rs.X[1] == 0.123, 'set-item-X', f'item-to-set/{cls.__name__}', 'item.X = v not visible in set.X')
        rs.X[2] = 0.321
        rec.check(rs[2].X == 0.321, 'set-item-X', f'set-to-item/{cls.__name__}', 'set.X[i] = v not visible in item.X')
        rs.X[1] = msn[1][1]; rs.X[2] = msn[2][1]
        # an item of a set is a reaction: copying it gives an independent Reaction acting like the item
        itc = guarded('set-copy', lambda: rs[0].copy())
        if itc is not None:
            rec.check(not (containers(itc) & containers(rs)) and itc.X == rs.X[0], 'set-copy', f'item-copy/{cls.__name__}', 'copy() of a reaction-set item shares containers with the set or has another X')
            itc.X = 0.0777
            rec.check(rs.X[0] != 0.0777 or msn[0][1] == 0.0777, 'set-copy', f'item-copy/X-shared/{cls.__name__}', 'changing X of an item copy changed the set')
        ssn = snap(rs)
        cp = guarded('set-copy', lambda: rs.copy())
        if cp is not None:
            rec.check(cp is not rs and not (containers(cp) & containers(rs)), 'set-copy', f'copy/shared/{cls.__name__}', 'copy() of a reaction set shares stoichiometry containers with the original')
            cp.X[0] = 0.77
            rec.check(same_snap(snap(rs), ssn), 'set-copy', f'copy/X-shared/{cls.__name__}', 'changing X of a set copy changed the original set')
        cb = guarded('set-copy', lambda: rs.copy(basis='wt' if rs._basis == 'mol' else 'mol'))
        if cb is not None:
            rec.check(same_snap(snap(rs), ssn), 'set-copy', f'copy-basis/original-changed/{cls.__name__}',
                      f're-basing a copy of a reaction set changed the original set (basis still {rs._basis}, stoichiometry rows modified)')
        if cls is tmo.ParallelReaction:
            # combining the members that share a reactant (all three do): a new set, acting like the original, which stays as it was
            ssr = snap(rs)
            before = guarded('reduce', lambda: apply(rs, case, th))
            rd = guarded('reduce', lambda: rs.reduce())
            if rd is not None:
                rec.hit('reduce')
                rec.check(same_snap(snap(rs), ssr), 'operands-unchanged', f'reduce/set/{tg}', f'ParallelReaction.reduce() changed the set it was called on: X before {ssr[1].tolist()} after {snap(rs)[1].tolist()}')
                rec.check(rd is not rs and not (containers(rd) & containers(rs)), 'new-object', f'reduce/shared-container/{tg}', 'reduce() result shares stoichiometry containers with the original set')
                after = guarded('reduce', lambda: apply(rd, case, th))
                if before is not None and after is not None:
                    d = differ(before, after, scale)
                    rec.check(not d, 'add-vs-parallel', f'reduce/{tg}', f'the reduced set acts differently from the original parallel set: {d[:4]}')
                again = guarded('reduce', lambda: apply(rs, case, th))
                if before is not None and again is not None:
                    d = differ(before, again, scale)
                    rec.check(not d, 'operands-unchanged', f'reduce/set-acts/{tg}', f'after reduce() the original set acts differently from before: {d[:4]}')
        rec.check(all(same_snap(snap(x), s0) for x, s0 in zip(members, msn)), 'set-copy', f'members-changed/{cls.__name__}',
                  'building / copying / re-basing a reaction set changed the member reactions it was built from')
    # ---- further members of the operation family (coverage audit): sums, triples, set + set, basis setter, in-place arithmetic on set items, X write paths
    bb = b if same_basis else b.copy(basis=a._basis)
    cc = c if c._basis == a._basis else c.copy(basis=a._basis)
    sn = (snap(a), snap(bb), snap(cc))
    tri = guarded('add', lambda: sum([a, bb, cc]))
    if tri is not None:
        rec.hit('sum-of-three')
        unchanged('sum', (a, bb), sn[:2]); rec.check(same_snap(snap(cc), sn[2]), 'operands-unchanged', f'sum/c/{tg}', 'sum([a, b, c]) changed c'); fresh('sum', tri, (a, bb, cc))
        lhs = guarded('add-vs-parallel', lambda: apply(tri, case, th)); rhs = guarded('add-vs-parallel', lambda: apply(tmo.ParallelReaction([a.copy(), bb.copy(), cc.copy()]), case, th))
        if lhs is not None and rhs is not None:
            d = differ(lhs, rhs, scale)
            rec.check(not d, 'add-vs-parallel', f'three/{tg}', f'sum([a,b,c])(feed) != ParallelReaction([a,b,c])(feed): {d[:4]}')
        if cc.X > 0 and a.X + bb.X > 0:
            m3 = guarded('sub', lambda: tri - cc); ab = guarded('add', lambda: a + bb)
            if m3 is not None and ab is not None:
                lhs = guarded('sub-inverse', lambda: apply(m3, case, th)); rhs = guarded('sub-inverse', lambda: apply(ab, case, th))
                if lhs is not None and rhs is not None:
                    d = differ(lhs, rhs, scale)
                    rec.check(not d, 'sub-inverse', f'three/{tg}', f'((a+b+c)-c)(feed) != (a+b)(feed): {d[:4]}')
    for nm, fn in (('add-zero', lambda: a + 0), ('radd-zero', lambda: 0 + a), ('sub-zero', lambda: a - 0)):
        sa6 = snap(a); r0 = guarded('new-object', fn)
        if r0 is not None: fresh(nm, r0, (a,)); unchanged(nm, (a,), (sa6,)); rec.check(same_snap(snap(r0), sa6), 'new-object', f'{nm}/value/{tg}', f'{nm} is not a copy of a')
    # negated operands: a - (-b) acts like a + b, a + (-b) like a - b (binary and in-place forms)
    if a.X > 0 and bb.X > 0:
        nb = guarded('negated-operand', lambda: -bb)
        if nb is not None:
            rec.hit('negated-operand')
            for nm, fn, ref_fn, need in (('a-(-b)', lambda: a - nb, lambda: a + bb, True), ('a+(-b)', lambda: a + nb, lambda: a - bb, a.X > bb.X),
                                         ('a-=(-b)', lambda: a.copy().__isub__(nb), lambda: a + bb, True), ('a+=(-b)', lambda: a.copy().__iadd__(nb), lambda: a - bb, a.X > bb.X)):
                if not need: continue
                r1 = guarded('negated-operand', fn); r2 = guarded('negated-operand', ref_fn)
                if r1 is None or r2 is None: continue
                rec.check(abs(r1.X - r2.X) <= 1e-12 * max(abs(r2.X), 1e-300), 'negated-operand', f'{nm}/X/{tg}', f'{nm} has X={r1.X!r} but the equivalent form has X={r2.X!r} (a.X={a.X}, b.X={bb.X})')
                lhs = guarded('negated-operand', lambda: apply(r1, case, th)); rhs = guarded('negated-operand', lambda: apply(r2, case, th))
                if lhs is not None and rhs is not None:
                    d = differ(lhs, rhs, scale)
                    rec.check(not d, 'negated-operand', f'{nm}/acts/{tg}', f'{nm} acts differently from the equivalent form: {d[:4]}')
    # basis setter on a copy: the original stays, the re-based reaction acts the same
    other = 'wt' if a._basis == 'mol' else 'mol'
    rb = a.copy(); sa7 = snap(a)
    def setb(): rb.basis = other; return rb
    if guarded('rebase', setb) is not None:
        rec.hit('basis-setter')
        unchanged('basis-setter', (a,), (sa7,))
        rec.check(not (containers(rb) & containers(a)), 'new-object', f'basis-setter/shared-container/{tg}', 're-based copy shares stoichiometry containers with the original')
        lhs = guarded('rebase', lambda: apply(rb, case, th, stream=True)); rhs = guarded('rebase', lambda: apply(a, case, th, stream=True))       # two bases: only a stream means the same on both sides
        if lhs is not None and rhs is not None:
            d = differ(lhs, rhs, scale)
            rec.check(not d, 'rebase', tg, f'a copy re-based to {other} through the basis setter acts differently from the original: {d[:4]}')
    # set + set (item-wise)
    p_ = guarded('add', lambda: tmo.ParallelReaction([a.copy(), bb.copy()])); q_ = guarded('add', lambda: tmo.ParallelReaction([a.copy() * 0.5, cc.copy()]))
    if p_ is not None and q_ is not None:
        sp_, sq_ = snap(p_), snap(q_)
        pq = guarded('add', lambda: p_ + q_)
        if pq is not None:
            rec.hit('set+set')
            rec.check(same_snap(snap(p_), sp_) and same_snap(snap(q_), sq_), 'operands-unchanged', f'set+set/{tg}', 'ParallelReaction + ParallelReaction changed an operand')
            rec.check(pq is not p_ and pq is not q_ and not (containers(pq) & (containers(p_) | containers(q_))), 'new-object', f'set+set/{tg}', 'set + set shares containers with an operand')
            lhs = guarded('add-vs-parallel', lambda: apply(pq, case, th))
            rhs = guarded('add-vs-parallel', lambda: apply(tmo.ParallelReaction([a.copy(), bb.copy(), a.copy() * 0.5, cc.copy()]), case, th))
            if lhs is not None and rhs is not None:
                d = differ(lhs, rhs, scale)
                rec.check(not d, 'add-vs-parallel', f'set+set/{tg}', f'(p+q)(feed) != the four members in parallel: {d[:4]}')
    # in-place arithmetic on an item of a set: set and item keep describing the same reaction
    for op in ('iadd', 'isub', 'imul', 'itruediv'):
        rs2 = guarded('set-item-inplace', lambda: tmo.ParallelReaction([a.copy(), bb.copy()]))
        if rs2 is None: break
        it = rs2[0]
        if op == 'iadd': ref0 = guarded('add', lambda: a + cc); doit = lambda: it.__iadd__(cc)
        elif op == 'isub':
            if not (a.X > cc.X > 0): continue
            ref0 = guarded('sub', lambda: a - cc); doit = lambda: it.__isub__(cc)
        elif op == 'imul': ref0 = a * k; doit = lambda: it.__imul__(k)
        else: ref0 = a / k; doit = lambda: it.__itruediv__(k)
        scc = snap(cc)
        if ref0 is None or guarded('set-item-inplace', doit) is None: continue
        rec.hit('set-item-inplace')
        rec.check(same_snap(snap(cc), scc), 'operands-unchanged', f'item-{op}/right/{tg}', f'{op} on a set item changed its right operand')
        lhs = guarded('set-item-inplace', lambda: apply(rs2, case, th)); rhs = guarded('set-item-inplace', lambda: apply(tmo.ParallelReaction([ref0.copy(), bb.copy()]), case, th))
        if lhs is not None and rhs is not None:
            d = differ(lhs, rhs, scale)
            rec.check(not d, 'set-item-inplace', f'{op}/set/{tg}', f'after item {op} the set acts differently from ParallelReaction([a {op} c, b]): {d[:4]} (set X {np.asarray(rs2.X).tolist()})')
        lhs = guarded('set-item-inplace', lambda: apply(rs2[0].copy(), case, th)); rhs = guarded('set-item-inplace', lambda: apply(ref0, case, th))
        if lhs is not None and rhs is not None:
            d = differ(lhs, rhs, scale)
            rec.check(not d, 'set-item-inplace', f'{op}/item/{tg}', f'after item {op} the item acts differently from a {op} c: {d[:4]}')
    # X write paths: iteration items, slices, whole-array setter
    rs3 = guarded('set-item-X', lambda: tmo.ParallelReaction([a.copy(), bb.copy(), cc.copy()]))
    if rs3 is not None:
        for n_, it in enumerate(rs3): it.X = 0.011 * (n_ + 1)
        rec.check(np.allclose(rs3.X, [0.011, 0.022, 0.033], rtol=1e-15), 'set-item-X', 'iter-item-to-set', f'X written through iteration items not visible in the set: {np.asarray(rs3.X).tolist()}')
        sl = guarded('set-item-X', lambda: rs3[0:2])
        if sl is not None:
            sl.X[1] = 0.444
            rec.check(rs3.X[1] == 0.444 and rs3[1].X == 0.444, 'set-item-X', 'slice-to-set', f'X written through a slice of the set not visible in the set: {np.asarray(rs3.X).tolist()}')
            rs3.X[0] = 0.555
            rec.check(sl.X[0] == 0.555, 'set-item-X', 'set-to-slice', 'X written on the set not visible in an earlier slice')
        def setX(): rs3.X = np.array([0.1, 0.2, 0.3]); return True
        if guarded('set-item-X', setX): rec.check(rs3[1].X == 0.2 and [i.X for i in rs3] == [0.1, 0.2, 0.3], 'set-item-X', 'setter-to-items', 'set.X = array not visible in the items')
    # ---- second coverage round: boundary conversions, direct -=, None operands, backwards(X=), refused basis setters, ReactionSystem.X, feed kinds
    if case.get('bx'):
        if abs(a.X + b.X - 1) < 1e-12: rec.hit('X:sum-to-one')
        if a.X == b.X: rec.hit('X:equal')
    if case.get('sparse'): rec.hit('feed:sparse')
    if case.get('feed_kind'): rec.hit('feed:' + {'nd2': 'nd'}.get(case['feed_kind'], case['feed_kind']))
    if a.X > bb.X > 0:
        # a -= b against a - b (the binary form is the reference; both must also convert X_a - X_b)
        sbb = snap(bb)
        m1 = guarded('sub', lambda: a - bb)
        ip = a.copy(); r1 = guarded('inplace', lambda: ip.__isub__(bb))
        if m1 is not None and r1 is not None:
            rec.hit('isub-direct')
            rec.check(r1 is ip, 'inplace', f'isub-direct/identity/{tg}', '-= returned another object')
            rec.check(same_snap(snap(bb), sbb), 'operands-unchanged', f'isub-direct/b/{tg}', 'a -= b / a - b changed b')
            rec.check(abs(ip.X - m1.X) <= 4e-16 * max(abs(m1.X), 1e-300) and abs(m1.X - (a.X - bb.X)) <= 4e-16, 'inplace', f'isub-direct/X/{tg}', f'(a -= b).X = {ip.X!r}, (a - b).X = {m1.X!r}, X_a - X_b = {a.X - bb.X!r}')
            lhs = guarded('inplace', lambda: apply(ip, case, th)); rhs = guarded('inplace', lambda: apply(m1, case, th))
            if lhs is not None and rhs is not None:
                d = differ(lhs, rhs, scale)
                rec.check(not d, 'inplace', f'isub-direct/{tg}', f'(a -= b) acts differently from a - b: {d[:4]}')
    for nm, fn in (('add-none', lambda: a + None), ('sub-none', lambda: a - None)):
        sa8 = snap(a); r0 = guarded('new-object', fn)
        if r0 is not None: fresh(nm, r0, (a,)); unchanged(nm, (a,), (sa8,)); rec.check(same_snap(snap(r0), sa8), 'new-object', f'{nm}/value/{tg}', f'{nm} is not a copy of a')
    for nm, fn in (('iadd-none', lambda x: x.__iadd__(None)), ('isub-zero', lambda x: x.__isub__(0))):
        ip = a.copy(); sip = snap(ip); r0 = guarded('inplace', lambda: fn(ip))
        if r0 is not None: rec.check(r0 is ip and same_snap(snap(ip), sip), 'inplace', f'{nm}/{tg}', f'{nm} did not return the unchanged left operand')
    if prods:
        # reversing with a new conversion: a new reaction with that conversion, the operand keeps its own
        newr = prods[-1]; sa9 = snap(a)
        rX = guarded('backwards', lambda: a.backwards(newr, X=0.37)); r_ = guarded('backwards', lambda: a.backwards(newr))
        if rX is not None and r_ is not None:
            rec.hit('backwards:X')
            fresh('backwards-X', rX, (a,)); unchanged('backwards-X', (a,), (sa9,))
            rec.check(rX.X == 0.37 and np.array_equal(snap(rX)[0], snap(r_)[0]) and snap(rX)[2] == snap(r_)[2], 'backwards', f'X/{tg}',
                      f'backwards({newr}, X=0.37): X={rX.X!r}; same stoichiometry and reactant as backwards({newr}): {np.array_equal(snap(rX)[0], snap(r_)[0])}')
    # the basis of a set / of an item cannot be set (documented TypeError): counted; if it is accepted the set and its item must still agree
    rs4 = guarded('rebase', lambda: tmo.ParallelReaction([a.copy(), bb.copy()]))
    if rs4 is not None:
        for nm, tgt in (('set', rs4), ('item', rs4[0])):
            try:
                tgt.basis = other
            except TypeError:
                rec.refuse(f'basis setter of a reaction {nm} refused (TypeError, documented)'); rec.hit('basis-setter:set-refused')
            except Exception as e:
                rec.exception('rebase', e, what=f'basis setter of a reaction {nm} raised {type(e).__name__}: {e}')
            else:
                rec.check(rs4._basis == rs4[0]._basis == other, 'rebase', f'{nm}-setter-accepted/{tg}', f'basis setter of a reaction {nm} returned normally but set / item report {rs4._basis} / {rs4[0]._basis}')
    # ReactionSystem.X <-> its parts
    rsys = guarded('set-item-X', lambda: tmo.ReactionSystem(a.copy(), tmo.ParallelReaction([bb.copy(), cc.copy()]), tmo.SeriesReaction([bb.copy(), cc.copy()])))
    if rsys is not None:
        def setsys(): rsys.X = [0.05, [0.06, 0.07], np.array([0.08, 0.09])]; return True
        if guarded('set-item-X', setsys):
            rec.hit('system-X')
            got = [rsys[0].X, list(rsys[1].X), list(rsys[2].X), rsys[1][0].X, rsys[2][1].X]
            rec.check(got == [0.05, [0.06, 0.07], [0.08, 0.09], 0.06, 0.09], 'set-item-X', 'system-to-parts', f'ReactionSystem.X = [...] not visible in the parts / their items: {got}')
            rsys[1][1].X = 0.011; rsys[0].X = 0.012; rsys[2].X[0] = 0.013
            got = [rsys.X[0], list(rsys.X[1]), list(rsys.X[2])]
            rec.check(got == [0.012, [0.06, 0.011], [0.013, 0.09]], 'set-item-X', 'parts-to-system', f'X written on the parts / items not visible in ReactionSystem.X: {got}')
    # ---- third round: histories with kept handles (items / slices / system) around whole-array, scalar, element and augmented conversion writes
    if case.get('hist'): run_history(case, rec, th, (a, bb, cc), tg, scale, guarded)
    if all(d['X'] > 0 and len(d['st']) >= 3 for d in case['rx'][:2]): rec.mark_nontrivial(case_hash(case))


def run_history(case, rec, th, members, tg, scale, guarded):
    """one reaction set, handles taken and kept, conversions written through every door; after every write the set, fresh items, every held handle (and the enclosing
    system) must report the conversions written (the model is a list of stand-alone reactions updated by X assignment and the BINARY operator forms only). The first
    disagreement ends the history (what follows would only repeat it)."""
    h = case['hist']; cn = h['cls']; cls = getattr(tmo, cn); n = NSET
    mem = [m.copy() for m in members]
    for m, x in zip(mem, h['X0']): m.X = x
    M = [m.copy() for m in mem]
    rs = guarded('set-item-X', lambda: cls(mem))
    if rs is None: return
    rsys = None; single = [members[0].copy()]
    if h['system']:
        rsys = guarded('set-item-X', lambda: tmo.ReactionSystem(members[0].copy(), rs))
        if rsys is None: return
    rec.hit('history')
    items, slices = [], []        # [kind, object, model index] / [kind, object, model indices]
    held = [0]

    def close(x, y): return abs(x - y) <= 4e-16 * max(abs(y), 1e-300)

    def agree(obj, idxs):
        got = np.asarray(obj.X, dtype=float).ravel().tolist()
        return len(got) == len(idxs) and all(close(g, M[i].X) for g, i in zip(got, idxs)), got

    def checkpoint(writer):
        exp = [m.X for m in M]
        ok, got = agree(rs, range(n))
        if not rec.check(ok, 'set-item-X', f'history/{writer}->set', f'[{cn}] after {writer} the set reports X={got} but the conversions written are {exp}'): return False
        fx = [rs[i].X for i in range(n)]
        if not rec.check(all(close(x, e) for x, e in zip(fx, exp)), 'set-item-X', f'history/{writer}->fresh-item', f'[{cn}] after {writer} freshly indexed items report X={fx}; the set reports {got}'): return False
        for kind, obj, i in items:
            x = obj.X
            if not rec.check(close(x, exp[i]), 'set-item-X', f'history/{writer}->{kind}',
                             f'[{cn}] after {writer} a {kind} (reaction {i} of the set, obtained earlier and kept) reports X={x!r}; the set reports {got}'): return False
        for kind, obj, idxs in slices:
            ok, sg = agree(obj, idxs)
            if not rec.check(ok, 'set-item-X', f'history/{writer}->{kind}',
                             f'[{cn}] after {writer} a {kind} (reactions {idxs} of the set, obtained earlier and kept) reports X={sg}; the set reports {got}'): return False
        if rsys is not None:
            sx = rsys.X
            ok = close(float(sx[0]), single[0].X) and len(sx) == 2 and np.asarray(sx[1], dtype=float).ravel().tolist() == got
            if not rec.check(ok, 'set-item-X', f'history/{writer}->system-X', f'[{cn}] after {writer} the enclosing ReactionSystem reports X={[np.asarray(i).tolist() for i in sx]}; the set reports {got}, the single reaction {single[0].X}'): return False
        return True

    def arg(form, vals):
        return np.array(vals) if form == 'array' else list(vals) if form == 'list' else tuple(vals) if form == 'tuple' else vals

    def fk(form): return 'scalar' if form == 'scalar' else 'sequence'          # array / list / tuple share a key (the form is in the case)

    def model_assign(idxs, form, vals):
        for j, i in enumerate(idxs): M[i].X = vals if form == 'scalar' else vals[j]

    def model_iop(idxs, op, k):
        for i in idxs: M[i].X = {'imul': M[i].X * k, 'itruediv': M[i].X / k, 'iadd': M[i].X + k, 'isub': M[i].X - k}[op]

    def do_iop(obj, op, k):
        # augmented assignment on the property: getter, in-place array operation, setter with the same array
        if op == 'imul': obj.X *= k
        elif op == 'itruediv': obj.X /= k
        elif op == 'iadd': obj.X += k
        else: obj.X -= k

    def do(op):
        name = op[0]
        if name == 'take-item': items.append(['held-item', rs[op[1]], op[1] % n]); rec.hit('history:held-item'); return ''
        if name == 'take-system-item': items.append(['held-system-item', rsys[1][op[1]], op[1]]); rec.hit('history:held-system-item'); return ''
        if name == 'take-iter':
            for i, it in enumerate(rs): items.append(['held-iter-item', it, i])
            rec.hit('history:held-iter-item'); return ''
        if name == 'take-slice': items_ = list(range(n))[slice(*op[1])]; slices.append(['held-slice', rs[slice(*op[1])], items_]); rec.hit('history:held-slice'); return ''
        if name == 'take-slice-item': _, sl, idxs = slices[op[1]]; items.append(['held-slice-item', sl[op[2]], idxs[op[2]]]); rec.hit('history:held-slice-item'); return ''
        if name == 'take-slice-iter':
            _, sl, idxs = slices[op[1]]
            for j, it in enumerate(sl): items.append(['held-slice-iter-item', it, idxs[j]])
            rec.hit('history:held-slice-iter-item'); return ''
        if name == 'take-slice-slice': _, sl, idxs = slices[op[1]]; slices.append(['held-slice-of-slice', sl[slice(*op[2])], idxs[slice(*op[2])]]); rec.hit('history:held-slice-of-slice'); return ''
        if name == 'set-assign':
            rs.X = arg(op[1], op[2]); model_assign(range(n), op[1], op[2])
            if items or slices: rec.hit('history:whole-assign-with-held-handles')
            return f'set-assign-{fk(op[1])}'
        if name == 'system-assign':
            rsys.X = [op[1], arg(op[2], op[3])]; single[0].X = op[1]; model_assign(range(n), op[2], op[3])
            if items or slices: rec.hit('history:system-assign-with-held-handles')
            return f'system-assign-{fk(op[2])}'
        if name == 'system-elem': rsys.X[1][op[1]] = op[2]; M[op[1]].X = op[2]; return 'system-elem'
        if name == 'set-elem': rs.X[op[1]] = op[2]; M[op[1]].X = op[2]; return 'set-elem'
        if name == 'set-fullslice': rs.X[:] = np.array(op[1]); model_assign(range(n), 'array', op[1]); return 'set-fullslice'
        if name == 'set-iop': do_iop(rs, op[1], op[2]); model_iop(range(n), op[1], op[2]); return f'set-{op[1]}'
        if name == 'set-rebind': rs.X = rs.X * op[1]; model_iop(range(n), 'imul', op[1]); return 'set-rebind'
        if name == 'set-self': rs.X = rs.X; return 'set-self'
        if name == 'slice-assign':
            kind, sl, idxs = slices[op[1]]; sl.X = arg(op[2], op[3]); model_assign(idxs, op[2], op[3]); rec.hit('history:slice-assign'); return f'{kind[5:]}-assign-{fk(op[2])}'
        if name == 'slice-elem': kind, sl, idxs = slices[op[1]]; sl.X[op[2]] = op[3]; M[idxs[op[2]]].X = op[3]; return f'{kind[5:]}-elem'
        if name == 'slice-iop': kind, sl, idxs = slices[op[1]]; do_iop(sl, op[2], op[3]); model_iop(idxs, op[2], op[3]); return f'{kind[5:]}-{op[2]}'
        if name == 'item-X': kind, it, i = items[op[1]]; it.X = op[2]; M[i].X = op[2]; return f'{kind[5:]}-X'
        if name == 'item-iop':
            kind, it, i = items[op[1]]
            r = it.__imul__(op[3]) if op[2] == 'imul' else it.__itruediv__(op[3])
            M[i] = M[i] * op[3] if op[2] == 'imul' else M[i] / op[3]
            rec.check(r is it, 'inplace', f'history/{kind[5:]}-{op[2]}/identity/{cn}', f'{op[2]} on a {kind} returned another object')
            rec.hit('history:item-inplace'); return f'{kind[5:]}-{op[2]}'
        if name in ('item-iadd', 'item-isub'):
            kind, it, i = items[op[1]]; other = members[op[2]].copy(); other.X = op[3]; so = snap(other)
            r = it.__iadd__(other) if name == 'item-iadd' else it.__isub__(other)
            M[i] = M[i] + other if name == 'item-iadd' else M[i] - other
            rec.check(r is it, 'inplace', f'history/{kind[5:]}-{name[5:]}/identity/{cn}', f'{name[5:]} on a {kind} returned another object')
            rec.check(same_snap(snap(other), so), 'operands-unchanged', f'history/{kind[5:]}-{name[5:]}/right/{cn}', f'{name[5:]} on a {kind} changed its right operand')
            rec.hit('history:item-inplace'); return f'{kind[5:]}-{name[5:]}'
        if name == 'copy-write':
            what, ref, form, v = op[1:]
            tgt = rs if what == 'set' else slices[ref][1] if what == 'slice' else items[ref][1]
            cp = tgt.copy()
            if what == 'item': cp.X = v; cp *= 0.5
            elif form == 'array': cp.X = np.full(len(cp.X), v)
            elif form == 'scalar': cp.X = v
            else: cp.X[0] = v
            rec.hit('history:copy-write'); return f'copy-of-{what}-write'
        raise RuntimeError(f'unknown history operation {name}')

    for op in h['ops']:
        w = guarded('set-item-X', lambda: do(op))
        if w is None: return
        if w and not checkpoint(w): rec.hit('history:ended-at-disagreement'); return
    rec.hit('history:complete')
    # the handles kept through the whole history act like the reactions the conversions written describe
    def acts(what, obj, ref_fn):
        lhs = guarded('set-item-X', lambda: apply(obj, case, th)); rhs = guarded('set-item-X', lambda: apply(ref_fn(), case, th))
        if lhs is not None and rhs is not None:
            rec.hit('history:acts')
            d = differ(lhs, rhs, scale)
            rec.check(not d, 'set-item-X', f'history/acts/{what}/{cn}/{tg}', f'after the history a {what} acts differently from the reaction(s) with the conversions written ({[m.X for m in M]}): {d[:4]}')
    acts('set', rs, lambda: cls([m.copy() for m in M]))
    handles = items + slices
    if handles:
        kind, obj, ix = handles[h['pick'] % len(handles)]
        if isinstance(ix, list): acts(kind, obj, lambda: cls([M[i].copy() for i in ix]))
        else: acts(kind, obj, lambda: M[ix].copy())
    if rsys is not None: acts('system', rsys, lambda: tmo.ReactionSystem(single[0].copy(), cls([m.copy() for m in M])))


def replay(case, rec):
    run_case(case, rec)


def run(rec, rng, tier, shard, nshards):
    R.check_atoms()
    n = 1500 if tier == 'quick' else 20000
    for i in range(n):
        case = gen_case(rng)
        try:
            run_case(case, rec)
        except Exception as e:
            rec.exception('harness', e, what=f'harness error: {type(e).__name__}: {e}')
        if i % 201 == 0: rec.sample(case)
