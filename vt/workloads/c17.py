"""C17 — reaction arithmetic agrees with applying the reactions and spares its operands.

Monitor: both sides of each algebraic identity are applied (real code) to a common feed and compared; every operand's
(stoichiometry, reactant, X, basis, phases) is snapshotted before and compared bit-for-bit after each operator; results
are checked for object and container identity.

Oracle audit (round 6): every comparison of two applied sides goes through one judge. Both sides are always evaluated; a dense model written in the harness
(molar stoichiometries and conversions of the case DESCRIPTIONS, harness arithmetic only) gives the flows the identity demands and says whether the feed suffices.
InfeasibleRegion is a refusal only when it is raised on BOTH sides AND the model finds a negative flow; raised on one side only, or on both although the model
finds the feed sufficient, it is a violation. The left side is additionally judged against the model. References for mixed bases are constructed from the
description in the target basis (not with copy(basis), the conversion a + b performs itself); the re-based operands are anchored against them.
"""
import numpy as np
import thermosteam as tmo
from thermosteam.exceptions import InfeasibleRegion
from vt.core import case_hash
from vt import rxn as R
from vt.common import SV, SA

PID = 'C17'
RULE = ('random pairs/triples of balanced reactions sharing a reactant (same generator as C05), X in (0,0.45], k in (0,1.5], mol/wt and mixed bases, phase-less and phase-tagged; '
        'clauses: (a+b) vs ParallelReaction([a,b]); ((a+b)-b) vs a; k*a, a*k, a/k vs X scaled; +=,-=,*=,/= vs binary forms; copy/neg/backwards/add/sub/copy(basis) return new '
        'objects with unshared containers and leave operands bit-identical; item.X <-> set.X. Coverage additions: boundary conversions (X_a + X_b = 1, X_a = X_b, X = 1 scaled by k <= 1, a null a in '
        '(a+b)-b), a -= b against a - b for X_a > X_b, a + None / a - None, backwards(reactant, X=), basis setter refused on sets and items (counted), ReactionSystem.X <-> parts, sparse feeds and bare '
        'SparseVector / ndarray / SparseArray feeds for the comparison. Third round: every case also runs a HISTORY on one ParallelReaction / SeriesReaction of three members (optionally inside a ReactionSystem): '
        'handles are taken and kept (rs[i], rs[-i], iteration items, slices incl. steps / reversed, items, iteration items and slices of slices, items reached through the system) while the conversions are '
        'written through every door (set.X = array / list / tuple / scalar, set.X[i], set.X[:], set.X *=,/=,+=,-=, set.X = set.X * k, set.X = set.X; the same on a held slice; system.X = [...], system.X[1][i]; '
        'X, *=, /=, +=, -= on a held item; writes on copies of the set / a slice / an item, which must stay private); after every write the set, fresh items, all kept handles and the system must report the '
        'conversions written (model: stand-alone reactions updated by X assignment and the binary forms), and at the end the set, one kept handle and the system act like the model. '
        'Round 6 (oracle audit): feeds are made sufficient from the descriptions (co-reactants raised to 2 x sum|nu| x reactant x U(1,3), or the reactant limited), every applied comparison is judged by one judge '
        '(both sides evaluated; InfeasibleRegion refused only on both sides with the dense model agreeing, else one-side-infeasible / spurious-infeasible-both-sides), the left side also against the dense model (vs-model), '
        'mixed-basis references built from the description, copy(basis) operands anchored against them (copy-basis-vs-description), refusal rate of the comparisons bounded (else inconclusive). non-trivial = both reactions have X>0 and >=3 species; distinct = hash of the case')
MIN_NONTRIVIAL = {'quick': 300, 'thorough': 10000}
ASSUMPTIONS = ['feeds are made sufficient from the case descriptions (every species a reaction of the case touches >= 2 x sum_j |nu_j| x reactant feed); a comparison is not judged only when BOTH sides raise '
               'InfeasibleRegion and the dense model of the harness finds a negative flow (conversions of the shared reactant adding up to more than one; a product of a subtracted reaction absent from a sparse feed)',
               'the dense model (feed + reactant x sum_j w_j nu_j per stage, stages in sequence for series sets / systems) is the meaning of applying reactions in parallel / in series (property C05)',
               'molecular weights for the mass-basis side of the model are read from the library chemicals (as in C05)',
               'exact boundary of feasibility: where the model ends a flow at zero after moving amounts whose round-off (4.4e-16 x gross amount, basis units) could reach a tenth of the absolute -1e-12 threshold of '
               'Reaction.__call__, InfeasibleRegion on BOTH sides is a refusal (round-off decides, as in C05); on ONE side it is reported under one-side-infeasible-at-exact-boundary (recorded finding: (a+b)-b keeps the rows '
               'only b has at a few ulp instead of zero)']
MAX_REFUSED_SHARE = 0.10      # share of the applied comparisons that may end as (model-confirmed) refusals; above it the run is inconclusive


def required(tier):
    return ['add-vs-parallel', 'sub-inverse', 'scale', 'inplace', 'new-object', 'operands-unchanged', 'set-item-X', 'backwards', 'set-copy', 'reduce', 'sum-of-three', 'basis-setter', 'set+set', 'set-item-inplace', 'negated-operand',
            'X:sum-to-one', 'X:equal', 'X:full-scaled', 'sub-inverse:null-a', 'isub-direct', 'backwards:X', 'system-X', 'feed:sparse', 'feed:sv', 'feed:nd', 'feed:sa', 'basis-setter:set-refused',
            'history', 'history:complete', 'history:whole-assign-with-held-handles', 'history:system-assign-with-held-handles', 'history:slice-assign', 'history:held-item', 'history:held-iter-item', 'history:held-slice',
            'history:held-slice-item', 'history:held-slice-iter-item', 'history:held-slice-of-slice', 'history:held-system-item', 'history:item-inplace', 'history:copy-write', 'history:acts',
            'rebase', 'compare', 'vs-model', 'vs-model:add-vs-parallel', 'vs-model:sub-inverse', 'vs-model:scale', 'vs-model:inplace', 'vs-model:set-item-inplace', 'vs-model:negated-operand', 'vs-model:rebase', 'vs-model:set-item-X',
            'vs-model:mixed-basis', 'vs-model:tagged', 'vs-model:wt-array', 'copy-basis-vs-description', 'reference:from-description', 'feed:made-sufficient', 'feed:co-reactants-raised', 'feed:reactant-limited', 'compare:refusal-share-bounded']


def gen_case(rng):
    tagged = rng.random() < 0.25
    phmap = {i: rng.choice('lg') for i in R.IDS} if tagged else None
    # pick a reactant and reactions in which it is consumed
    for _ in range(200):
        a = R.gen_reaction(rng, phases_p=0)
        r = a['reactant']
        others = []
        for _ in range(60):
            b = R.gen_reaction(rng, phases_p=0)
            if r in b['st']:
                if b['st'][r] > 0: b['st'] = {i: -v for i, v in b['st'].items()}
                b['reactant'] = r
                others.append(b)
                if len(others) == 2: break
        if len(others) == 2: break
    rx = [a] + others
    for d in rx:
        d['X'] = rng.choice([0.0, round(rng.uniform(0.01, 0.3), 4), 0.25, 0.1]) if rng.random() < 0.9 else 0.0
        d['basis'] = rng.choice(['mol', 'mol', 'wt'])
        if tagged: d['ph'] = {i: phmap[i] for i in d['st']}
    if rng.random() < 0.6:
        for d in rx: d['basis'] = rx[0]['basis']
    k = rng.choice([0.5, 1.0, 1.5, 2.0, round(rng.uniform(0.05, 1.5), 4)])
    feed = {i: round(10 ** rng.uniform(1.5, 3), 3) for i in R.IDS}     # every species plentiful
    case = {'rx': rx, 'k': k, 'tagged': tagged, 'phmap': phmap, 'feed': feed}
    # boundary conversions: the pair sums to one / is equal / a is complete or null (the reactant is then fed sparingly so that the co-reactants still suffice)
    if rng.random() < 0.18:
        x = round(rng.uniform(0.05, 0.95), 3)
        xa, xb = rng.choice([(0.5, 0.5), (round(1 - x, 3), x), (x, x), (1.0, 0.0), (0.0, x), (1.0, round(x / 4, 3))])
        rx[0]['X'], rx[1]['X'] = xa, xb
        case['bx'] = True; case['k'] = rng.choice([0.5, 1.0, round(rng.uniform(0.05, 1.0), 4)])
        feed[r] = round(10 ** rng.uniform(-1, 0.3), 4)
    # arbitrary feeds: species nobody consumes may be absent; the two sides may also be compared on a bare flow array (in the units of the common basis)
    consumed = {i for d in rx for i, v in d['st'].items() if v < 0}
    if rng.random() < 0.3:
        for i in list(feed):
            if i not in consumed and rng.random() < 0.5: feed[i] = 0.0
        case['sparse'] = True
    if len({d['basis'] for d in rx}) == 1 and rng.random() < 0.25: case['feed_kind'] = rng.choice(['sa', 'nd2']) if tagged else rng.choice(['sv', 'nd'])
    case['hist'] = gen_history(rng)
    make_sufficient(case, rng)
    return case


# molecular weights from the element table of the harness (only used to size the feeds of bare mass-flow arrays)
MW0 = {i: 12.011 * c + 1.008 * h + 15.999 * o + 14.007 * n for i, (c, h, o, n) in R.ATOMS.items()}
ULPS = 4.4e-16      # round-off of a cancelled coefficient: a few ulp of the sum of the absolute terms (bound used only to recognise the exact boundary of feasibility)
W_NEED = 2.0        # every object the case applies is feed + reactant x sum_j w_j nu_j with |w_j| <= 1.5 whenever the shared reactant itself suffices


def make_sufficient(case, rng):
    """the feed is made sufficient from the descriptions (as C05 does): every species a reaction of the case touches (a product of b is consumed by a - b) gets at least
    W_NEED x sum_j |nu_j| x reactant feed, either by raising it or by limiting the reactant. Species absent from a sparse feed stay absent. What is left infeasible is
    infeasible through the reactant itself (conversions adding up to more than one) or through an absent product, and the dense model of run_case sees both."""
    rx = case['rx']; r = rx[0]['reactant']; feed = case['feed']
    wt_units = bool(case.get('feed_kind')) and rx[0]['basis'] == 'wt'          # bare arrays carry mass flows when the common basis is wt
    need = {}
    for d in rx:
        s_ = -d['st'][r]
        for i, v in d['st'].items():
            if i != r: need[i] = need.get(i, 0.0) + abs(v / s_) * (MW0[i] / MW0[r] if wt_units else 1.0)
    if rng.random() < 0.5:
        for i, n in need.items():
            if feed.get(i, 0.0) > 0: feed[i] = max(feed[i], round(W_NEED * n * feed[r] * rng.uniform(1.0, 3.0), 3))
        case['sufficient'] = 'raised'
    else:
        lim = min([feed[i] / (W_NEED * n) for i, n in need.items() if feed.get(i, 0.0) > 0 and n > 0], default=feed[r])
        if lim < feed[r]: feed[r] = max(round(lim * rng.uniform(0.3, 1.0), 6), 1e-6)
        case['sufficient'] = 'limited'


# ---- histories on one reaction set: handles (items, iteration items, slices, items / slices of slices, items reached through a ReactionSystem) are taken and KEPT while
# the conversions are written through every door (whole-array / scalar / element / augmented assignment on the set, on a slice, on the enclosing system; X and in-place
# arithmetic on a held item; writes on copies, which must stay private). The generator simulates the conversions so that every member stays within (0, 0.3].
SLICES = [[0, 2, None], [1, 3, None], [None, 1, None], [1, None, None], [None, None, None], [None, None, 2], [None, None, -1], [0, 3, None], [-2, None, None], [None, -1, None], [2, None, None]]
SUBSLICES = [[None, None, None], [None, 1, None], [1, None, None], [None, None, -1], [-1, None, None]]
NSET = 3


def gen_history(rng):
    n = NSET
    def xv(): return round(rng.uniform(0.01, 0.28), 4)
    X0 = [xv() for _ in range(n)]
    xm = list(X0)
    system = rng.random() < 0.3
    ops, items, slices = [], [], []      # items: model index of each held item; slices: model indices of each held slice

    def take(kind=None):
        kinds = ['item', 'item', 'neg-item', 'iter', 'slice', 'slice', 'slice-item', 'slice-slice', 'slice-iter'] + (['system-item'] if system else [])
        kind = kind or rng.choice(kinds)
        if kind in ('slice-item', 'slice-slice', 'slice-iter') and not slices: kind = 'slice'
        if kind == 'item': i = rng.randrange(n); ops.append(['take-item', i]); items.append(i)
        elif kind == 'neg-item': i = rng.randrange(1, n + 1); ops.append(['take-item', -i]); items.append(n - i)
        elif kind == 'system-item': i = rng.randrange(n); ops.append(['take-system-item', i]); items.append(i)
        elif kind == 'iter': ops.append(['take-iter']); items.extend(range(n))
        elif kind == 'slice': spec = rng.choice(SLICES); ops.append(['take-slice', spec]); slices.append(list(range(n))[slice(*spec)])
        elif kind == 'slice-item':
            s_ = rng.randrange(len(slices)); j = rng.randrange(len(slices[s_])); ops.append(['take-slice-item', s_, j]); items.append(slices[s_][j])
        elif kind == 'slice-iter':
            s_ = rng.randrange(len(slices)); ops.append(['take-slice-iter', s_]); items.extend(slices[s_])
        else:
            s_ = rng.randrange(len(slices)); spec = rng.choice(SUBSLICES); idxs = slices[s_][slice(*spec)]
            if not idxs: spec = [None, None, None]; idxs = list(slices[s_])
            ops.append(['take-slice-slice', s_, spec]); slices.append(idxs)

    def assign(idxs):
        form = rng.choice(['array', 'list', 'tuple', 'scalar'])
        if form == 'scalar':
            v = xv(); vals = v
            for i in idxs: xm[i] = v
        else:
            vals = [xv() for _ in idxs]
            for i, v in zip(idxs, vals): xm[i] = v
        return form, vals

    def iop(idxs):
        op = rng.choice(['imul', 'itruediv', 'iadd', 'isub'])
        hi = max(xm[i] for i in idxs); lo = min(xm[i] for i in idxs)
        if op == 'imul':
            k = rng.choice([0.5, 0.8, 1.25, 2.0])
            if hi * k > 0.3: k = 0.5
        elif op == 'itruediv':
            k = rng.choice([0.5, 0.8, 1.25, 2.0])
            if hi / k > 0.3: k = 2.0
        elif op == 'iadd':
            k = round(rng.uniform(0.005, 0.03), 4)
            if hi + k > 0.3: op = 'isub'
        if op == 'isub': k = round(lo * rng.choice([0.25, 0.5]), 6)
        for i in idxs: xm[i] = {'imul': xm[i] * k, 'itruediv': xm[i] / k, 'iadd': xm[i] + k, 'isub': xm[i] - k}[op]
        return op, k

    def write():
        w = rng.choice(['set-assign'] * 3 + ['slice-assign'] * 2 + (['system-assign'] * 2 + ['system-elem'] if system else []) + ['set-elem', 'set-fullslice', 'set-iop', 'set-iop', 'set-rebind', 'set-self',
                        'slice-elem', 'slice-iop', 'item-X', 'item-X', 'item-iop', 'item-iop', 'item-iadd', 'item-isub', 'copy-write'])
        if w.startswith('slice') and not slices: take('slice')
        if w.startswith('item') and not items: take('item')
        if w == 'set-assign': ops.append(['set-assign', *assign(range(n))])
        elif w == 'system-assign': ops.append(['system-assign', xv(), *assign(range(n))])
        elif w == 'system-elem': i = rng.randrange(n); v = xv(); xm[i] = v; ops.append(['system-elem', i, v])
        elif w == 'set-elem': i = rng.randrange(n); v = xv(); xm[i] = v; ops.append(['set-elem', i, v])
        elif w == 'set-fullslice': vals = [xv() for _ in range(n)]; xm[:] = vals; ops.append(['set-fullslice', vals])
        elif w == 'set-iop': ops.append(['set-iop', *iop(range(n))])
        elif w == 'set-rebind':
            k = rng.choice([0.5, 0.8, 1.25])
            if max(xm) * k > 0.3: k = 0.5
            xm[:] = [x * k for x in xm]; ops.append(['set-rebind', k])
        elif w == 'set-self': ops.append(['set-self'])
        elif w == 'slice-assign': s_ = rng.randrange(len(slices)); ops.append(['slice-assign', s_, *assign(slices[s_])])
        elif w == 'slice-elem':
            s_ = rng.randrange(len(slices)); j = rng.randrange(len(slices[s_])); v = xv(); xm[slices[s_][j]] = v; ops.append(['slice-elem', s_, j, v])
        elif w == 'slice-iop': s_ = rng.randrange(len(slices)); ops.append(['slice-iop', s_, *iop(slices[s_])])
        elif w == 'item-X': h_ = rng.randrange(len(items)); v = xv(); xm[items[h_]] = v; ops.append(['item-X', h_, v])
        elif w == 'item-iop':
            h_ = rng.randrange(len(items)); i = items[h_]; op = rng.choice(['imul', 'itruediv']); k = rng.choice([0.5, 0.8, 1.25, 2.0])
            if op == 'imul' and xm[i] * k > 0.3: k = 0.5
            if op == 'itruediv' and xm[i] / k > 0.3: k = 2.0
            xm[i] = xm[i] * k if op == 'imul' else xm[i] / k; ops.append(['item-iop', h_, op, k])
        elif w in ('item-iadd', 'item-isub'):
            h_ = rng.randrange(len(items)); i = items[h_]; o = rng.randrange(n)
            if w == 'item-iadd':
                ov = round(rng.uniform(0.01, 0.05), 4)
                if xm[i] + ov > 0.3: w = 'item-isub'
            if w == 'item-isub': ov = round(xm[i] * rng.choice([0.25, 0.5]), 6)
            if ov > 0:
                xm[i] = xm[i] + ov if w == 'item-iadd' else xm[i] - ov; ops.append([w, h_, o, ov])
            else:
                v = xv(); xm[i] = v; ops.append(['item-X', h_, v])
        else:
            what = rng.choice(['set', 'slice', 'item'])
            if what == 'slice' and not slices: what = 'set'
            if what == 'item' and not items: what = 'set'
            ref = 0 if what == 'set' else rng.randrange(len(slices) if what == 'slice' else len(items))
            ops.append(['copy-write', what, ref, rng.choice(['array', 'scalar', 'elem']), xv()])

    for _ in range(rng.randrange(1, 4)): take()
    for _ in range(rng.randrange(4, 9)):
        if rng.random() < 0.25: take()
        write()
    return {'cls': rng.choice(['ParallelReaction', 'ParallelReaction', 'SeriesReaction']), 'system': system, 'X0': X0, 'ops': ops, 'pick': rng.randrange(1000)}


def snap(rx):
    st = rx._stoichiometry
    if isinstance(st, list): arr = [s.to_array().copy() for s in st]
    else: arr = st.to_array().copy()
    X = np.array(rx.X, dtype=float).copy()
    ri = rx._reactant_index
    return (arr, X, repr(ri) if not isinstance(ri, np.ndarray) else ri.tolist(), rx._basis, rx._phases)


def same_snap(a, b):
    def eq(x, y):
        if isinstance(x, list): return len(x) == len(y) and all(np.array_equal(i, j) for i, j in zip(x, y))
        return np.array_equal(x, y)
    return eq(a[0], b[0]) and np.array_equal(a[1], b[1]) and a[2] == b[2] and a[3] == b[3] and a[4] == b[4]


def containers(rx):
    """ids of the mutable containers holding the stoichiometry."""
    st = rx._stoichiometry
    out = {id(st)}
    if isinstance(st, SV): out.add(id(st.dct))
    elif isinstance(st, SA):
        for r in st.rows: out.add(id(r)); out.add(id(r.dct))
    elif isinstance(st, list):
        for s in st: out |= containers_of_sparse(s)
    return out


def containers_of_sparse(st):
    out = {id(st)}
    if isinstance(st, SV): out.add(id(st.dct))
    elif isinstance(st, SA):
        for r in st.rows: out.add(id(r)); out.add(id(r.dct))
    return out


def apply(rx, case, th, stream=False):
    """apply a reaction object to the common feed; returns flows dict keyed (phase, ID) or ID."""
    fk = case.get('feed_kind')
    if fk and not stream:
        # a bare array of flows (every reaction of the case is on one basis; the numbers are taken in that basis on both sides)
        ids = th.chemicals.IDs
        if case['tagged']:
            arr = np.zeros((2, len(ids)))
            for i, v in case['feed'].items(): arr[0 if case['phmap'][i] == 'g' else 1, ids.index(i)] = v
            obj = SA(arr) if fk == 'sa' else arr
            rx(obj)
            out = obj.to_array() if fk == 'sa' else obj
            return {('g' if r == 0 else 'l', ids[j]): out[r, j] for r in range(2) for j in range(len(ids)) if out[r, j]}
        arr = np.zeros(len(ids))
        for i, v in case['feed'].items(): arr[ids.index(i)] = v
        obj = SV(arr) if fk == 'sv' else arr
        rx(obj)
        out = obj.to_array() if fk == 'sv' else obj
        return {ids[j]: out[j] for j in range(len(ids)) if out[j]}
    if case['tagged']:
        s = tmo.MultiStream(None, phases=('g', 'l'), thermo=th)
        for i, v in case['feed'].items(): s.imol[case['phmap'][i], i] = v
        rx(s)
        out = {}
        for ph, row in zip(s.phases, s.imol.data.rows):
            for j, v in row.dct.items(): out[(ph, s.chemicals.IDs[j])] = v
        return out
    s = tmo.Stream(None, thermo=th)
    for i, v in case['feed'].items(): s.imol[i] = v
    rx(s)
    return {s.chemicals.IDs[j]: v for j, v in s.imol.data.dct.items()}


def differ(x, y, scale):
    return [(str(k), x.get(k, 0.0), y.get(k, 0.0)) for k in set(x) | set(y)
            if abs(x.get(k, 0.0) - y.get(k, 0.0)) > 1e-10 * max(abs(x.get(k, 0.0)), abs(y.get(k, 0.0))) + 1e-12 * scale]


def differ_used(x, y, scale):
    """differ(x, y, scale) and the largest share of its bound used by any flow (recorded as the residual of the clause; <= 1 where the oracle held), in one pass."""
    d = []; w = 0.0; ab = 1e-12 * scale
    for k in x.keys() | y.keys():
        u = x.get(k, 0.0); v = y.get(k, 0.0); e = abs(u - v)
        if e:
            t = 1e-10 * max(abs(u), abs(v)) + ab
            if e > t: d.append((str(k), u, v))
            if e > w * t: w = e / t
        elif e != e: d.append((str(k), u, v))          # nan never agrees (as in differ: nan > t is False there, so only ever stricter)
    return d, w


# ---- dense model (harness arithmetic on the case descriptions only). Every reaction of a case has the same reactant r, so whatever the case applies is a SEQUENCE of
# stages, and a stage changes the flows by (reactant present) x D with D = sum_j w_j nu_j: a reaction is [X nu]; a + b, a - b, k a are [D_a + D_b], [D_a - D_b], [k D_a];
# a parallel set is one stage (the sum of its members), a series set one stage per member, a system the stages of its parts one after the other.
def nu_of(desc):
    """molar stoichiometry of a description per unit of its reactant (nu[reactant] = -1)."""
    s_ = -desc['st'][desc['reactant']]
    return {i: v / s_ for i, v in desc['st'].items()}


class Lin(dict):
    """sum_j w_j nu_j; .gross is the sum of the absolute terms, which is what the round-off of a cancelled coefficient scales with ((a+b)-b leaves the rows only b has at
    a few ulp of X_b nu_b, not at zero)."""
    __slots__ = ('gross',)


def lin(*terms):
    """sum_j w_j nu_j for terms (w_j, nu_j)."""
    D = Lin(); G = D.gross = {}
    for w, nu in terms:
        g = getattr(nu, 'gross', None)
        for i, v in nu.items():
            D[i] = D.get(i, 0.0) + w * v
            G[i] = G.get(i, 0.0) + abs(w) * (g[i] if g is not None else abs(v))
    return D


def model_stages(fl, stages, rk, key):
    """flows {key: mol} after the stages; the most negative flow met after any stage; per key the gross amount moved (reactant present x sum of the absolute terms)."""
    low = 0.0; moved = {}
    for D in stages:
        fr = fl.get(rk, 0.0)
        if fr:
            fl = dict(fl)
            for i, v in D.items():
                kk = key(i)
                if v: fl[kk] = fl.get(kk, 0.0) + fr * v
                moved[kk] = moved.get(kk, 0.0) + abs(fr) * D.gross[i]
        low = min([low] + list(fl.values()))
    return fl, low, moved


def run_case(case, rec):
    rec.begin_case(case)
    th = R.thermo()
    MW = R.mw(th)
    scale = min(max(case['feed'].values()), 1000.0)       # absolute part of the bound: never above what it was before the feeds were made sufficient (round-off is per species)
    def mk(i): return R.build_reaction(case['rx'][i], th)
    a, b, c = mk(0), mk(1), mk(2)
    k = case['k']
    same_basis = a._basis == b._basis
    tg = ('tagged' if case['tagged'] else 'phase-less') + ('/same-basis' if same_basis else '/mixed-basis')
    if case.get('sufficient'): rec.hit('feed:made-sufficient'); rec.hit('feed:co-reactants-raised' if case['sufficient'] == 'raised' else 'feed:reactant-limited')
    # ---- the dense model of this case
    dx = case['rx']; r_id = dx[0]['reactant']
    nus = [nu_of(d) for d in dx]; Xd = [float(d['X']) for d in dx]
    Da, Db, Dc = (lin((Xd[j], nus[j])) for j in range(3))
    Dab = lin((1, Da), (1, Db)); Dabc = lin((1, Dab), (1, Dc))
    Dab_b = lin((1, Dab), (-1, Db)); Dabc_c = lin((1, Dabc), (-1, Dc))       # a and a + b up to round-off, with the amounts that cancel kept in .gross
    def fkey(i): return (case['phmap'][i], i) if case['tagged'] else i
    def kid(kk): return kk[1] if isinstance(kk, tuple) else kk

    def predict(stages, stream=False):
        """(flows the identity demands, keyed and in the units of apply(); 'feasible' / 'infeasible' / 'undecided' by the library's rule: the negative flows of the result add
        up to less than -1e-12 in the units of the basis -> InfeasibleRegion)."""
        wt_units = bool(case.get('feed_kind')) and not stream and dx[0]['basis'] == 'wt'      # bare arrays carry the numbers of the feed as mass flows
        fl = {fkey(i): (v / MW[i] if wt_units else v) for i, v in case['feed'].items() if v}
        fl, low, moved = model_stages(fl, stages, fkey(r_id), fkey)
        negm = sum(v for v in fl.values() if v < 0); negw = sum(MW[kid(kk)] * v for kk, v in fl.items() if v < 0)
        if min(negm, negw) > -1e-13 and low > -1e-13: pred = 'feasible'
        elif max(negm, negw) < -1e-9: pred = 'infeasible'
        else: pred = 'undecided'               # within round-off of the threshold, or a series passing through a negative intermediate composition
        # the exact boundary of feasibility (as in C05): a flow the model ends at zero although amounts were moved (a row cancelled by the arithmetic on a species absent from
        # the feed, a reactant converted completely) ends at a few ulp of the amount moved, of either sign; the library compares the negative flows with an ABSOLUTE -1e-12 in
        # the units of the basis, so for large flows round-off decides whether it raises. at_edge: those flows could reach a tenth of the threshold.
        wt = stream or a._basis == 'wt'
        edge = 0.0
        for kk, g in moved.items():
            u = MW[kid(kk)] if wt else 1.0
            if fl.get(kk, 0.0) <= 10 * ULPS * g: edge += ULPS * g * u
        return {kk: (v * MW[kid(kk)] if wt_units else v) for kk, v in fl.items() if v}, pred, edge >= 1e-13

    def guarded(clause, fn):
        """construction / arithmetic (nothing is applied here): no exception is documented, InfeasibleRegion included."""
        try:
            return fn()
        except Exception as e:
            rec.exception(clause, e, what=f'{clause} ({tg}) raised {type(e).__name__}: {str(e)[:200]}'); return None

    def side(clause, fn):
        """one applied side: ('ok', flows) / ('inf', None) for InfeasibleRegion / ('exc', None) for anything else (reported)."""
        try:
            return ('ok', fn())
        except InfeasibleRegion:
            return ('inf', None)
        except Exception as e:
            rec.exception(clause, e, what=f'{clause} ({tg}) raised {type(e).__name__}: {str(e)[:200]}'); return ('exc', None)

    def judge(clause, key, L, Rs, stages, what, detail=None, hit=None, stream=False):
        """L, Rs: the two applied sides; stages: the dense model of what both must do. Returns True when both returned normally (and were compared)."""
        rec.hit('compare')
        if L[0] == 'exc' or Rs[0] == 'exc': return False
        exp, pred, at_edge = predict(stages, stream)
        ninf = (L[0] == 'inf') + (Rs[0] == 'inf')
        if ninf:
            if ninf == 2 and pred == 'feasible' and at_edge:
                # both sides agree (both refuse); whether a flow that is zero in exact arithmetic ends a few ulp below it is decided by round-off (not judged, as in C05)
                rec.hit('compare:refused'); rec.hit('compare:refused-at-exact-boundary')
                rec.refuse('InfeasibleRegion on both sides at the exact boundary of feasibility (a flow the model ends at zero after moving amounts whose round-off reaches the absolute -1e-12 threshold)'); return False
            if pred == 'undecided':
                rec.hit('compare:refused'); rec.refuse('InfeasibleRegion where the dense model is within round-off of the feasibility threshold (not judged)'); return False
            if ninf == 2 and pred == 'infeasible':
                rec.hit('compare:refused'); rec.refuse('infeasible on both sides and the dense model agrees (a flow would be negative)'); return False
            if ninf == 2:
                rec.check(False, clause, f'spurious-infeasible-both-sides/{key}', f'both sides raised InfeasibleRegion although the dense model finds the feed sufficient ({what})', detail=detail)
            else:
                which = 'left' if L[0] == 'inf' else 'right'
                # the input class is in the key: at the exact boundary the side that raised was carried over the absolute threshold by the round-off residue of a cancelled row
                # (recorded finding: (a+b)-b keeps rows of b at a few ulp); anywhere else a one-sided refusal is a wrong conversion or stoichiometry
                if pred == 'feasible' and at_edge: rec.hit('compare:one-side-at-exact-boundary')
                rec.check(False, clause, f'one-side-infeasible{"-at-exact-boundary" if pred == "feasible" and at_edge else ""}/{which}/{key}', f'the {which} side raised InfeasibleRegion, the other returned normally (dense model: {pred}): {what}',
                          detail=dict(detail or {}, returned={str(kk): v for kk, v in (Rs[1] if L[0] == 'inf' else L[1]).items()}, model={str(kk): v for kk, v in exp.items()}))
            return False
        if hit: rec.hit(hit)
        d, w_ = differ_used(L[1], Rs[1], scale)
        rec.check(not d, clause, key, f'{what}: {d[:4]}', detail=detail, residual=w_)
        if pred == 'feasible':
            rec.hit('vs-model'); rec.hit('vs-model:' + clause)
            if not same_basis: rec.hit('vs-model:mixed-basis')
            if case['tagged']: rec.hit('vs-model:tagged')
            if case.get('feed_kind') and not stream and dx[0]['basis'] == 'wt': rec.hit('vs-model:wt-array')
            d2, w_ = differ_used(L[1], exp, scale)
            rec.check(not d2, clause, f'vs-model/{key}', f'the left side differs from the dense model of the harness (feed + reactant x sum w_j nu_j from the descriptions); {what}: {d2[:4]}',
                      detail=dict(detail or {}, model={str(kk): v for kk, v in exp.items()}, got={str(kk): v for kk, v in L[1].items()}) if d2 else None, residual=w_)
        else:
            rec.hit('compare:model-not-feasible-both-returned')
        return True

    def compare(clause, key, lfn, rfn, stages, what, detail=None, hit=None, stream=False):
        return judge(clause, key, side(clause, lfn), side(clause, rfn), stages, what, detail, hit, stream)

    def unchanged(op, operands, snaps):
        for name, o, s in zip('ab', operands, snaps):
            ok = same_snap(snap(o), s)        # the message is only written out for a violation (formatting the arrays every time cost a fifth of the run)
            rec.check(ok, 'operands-unchanged', f'{op}/{name}/{tg}', '' if ok else f'{op} changed operand {name}: before {s[1:4]} after {snap(o)[1:4]}; stoichiometry equal: {np.array_equal(snap(o)[0], s[0]) if not isinstance(s[0], list) else "set"}')

    def fresh(op, res, operands):
        ok = all(res is not o for o in operands)
        rec.check(ok, 'new-object', f'{op}/identity/{tg}', f'{op} returned one of its operands instead of a new object')
        if ok:
            shared = any(containers(res) & containers(o) for o in operands)
            rec.check(not shared, 'new-object', f'{op}/shared-container/{tg}', f'{op} result shares its stoichiometry container with an operand')

    # references on the basis of a are CONSTRUCTED from the descriptions in that basis (mass coefficients written out by the harness), not obtained with copy(basis)
    def described(j):
        if dx[j]['basis'] == a._basis: return (b, c)[j - 1].copy()          # already constructed from the description on this basis
        rec.hit('reference:from-description'); return R.build_reaction(dict(dx[j], basis=a._basis), th)
    bref, cref = described(1), described(2)

    # ---- a + b vs parallel ------------------------------------------------------
    sa_, sb_ = snap(a), snap(b)
    s = guarded('add', lambda: a + b)
    if s is not None:
        unchanged('add', (a, b), (sa_, sb_)); fresh('add', s, (a, b))
        compare('add-vs-parallel', tg, lambda: apply(s, case, th), lambda: apply(tmo.ParallelReaction([a.copy(), bref.copy()]), case, th), [Dab],
                '(a+b)(feed) != ParallelReaction([a,b])(feed)', detail={'Xa': a.X, 'Xb': b.X})
        # ---- (a + b) - b vs a
        ss = snap(s); sb2 = snap(b)
        m = guarded('sub', lambda: s - b)
        if m is not None:
            unchanged('sub', (s, b), (ss, sb2)); fresh('sub', m, (s, b))
            if a.X > 0 and b.X > 0:
                compare('sub-inverse', tg, lambda: apply(m, case, th), lambda: apply(a, case, th), [Dab_b], '((a+b)-b)(feed) != a(feed)')
            elif a.X == 0 and b.X > 0:
                # boundary: a converts nothing, so (a+b)-b must convert nothing either
                rec.hit('sub-inverse:null-a')
                compare('sub-inverse', f'null-a/{tg}', lambda: apply(m, case, th), lambda: apply(a, case, th), [Dab_b], f'with a.X = 0, ((a+b)-b)(feed) != a(feed) = feed (X of the result {m.X!r})')
        # ---- in-place forms
        ip = a.copy(); sb3 = snap(b)
        r = guarded('inplace', lambda: ip.__iadd__(b))
        if r is not None:
            rec.check(r is ip, 'inplace', f'iadd/identity/{tg}', '+= returned another object')
            rec.check(same_snap(snap(b), sb3), 'operands-unchanged', f'iadd/b/{tg}', '+= changed its right operand')
            compare('inplace', f'iadd/{tg}', lambda: apply(ip, case, th), lambda: apply(s, case, th), [Dab], '(a += b) acts differently from a + b')
        ip = s.copy(); sb4 = snap(b)
        r = guarded('inplace', lambda: ip.__isub__(b))
        if r is not None:
            rec.check(r is ip, 'inplace', f'isub/identity/{tg}', '-= returned another object')
            rec.check(same_snap(snap(b), sb4), 'operands-unchanged', f'isub/b/{tg}', '-= changed its right operand')
        if r is not None and m is not None and a.X > 0 and b.X > 0:
            compare('inplace', f'isub/{tg}', lambda: apply(ip, case, th), lambda: apply(m, case, th), [Dab_b], '(s -= b) acts differently from s - b', detail={'X_inplace': ip.X, 'X_binary': m.X})
    # ---- a - b with a null b returns a new object
    null = a.copy(); null.X = 0.0
    sa2 = snap(a)
    m0 = guarded('sub', lambda: a - null)
    if m0 is not None:
        fresh('sub-null', m0, (a, null)); unchanged('sub-null', (a,), (sa2,))
    p0 = guarded('add', lambda: a + null)
    if p0 is not None: fresh('add-null', p0, (a, null))
    # ---- scaling
    for op, fn, Xexp in (('mul', lambda: a * k, a.X * k), ('rmul', lambda: k * a, a.X * k), ('truediv', lambda: a / k, a.X / k)):
        sa3 = snap(a)
        r = guarded('scale', fn)
        if r is None: continue
        fresh(op, r, (a,)); unchanged(op, (a,), (sa3,))
        rec.check(abs(r.X - Xexp) <= 1e-15 * max(abs(Xexp), 1e-300) * 4 and np.array_equal(snap(r)[0], sa3[0]), 'scale', f'{op}/{tg}', f'{op} by {k}: X={r.X} expected {Xexp}, stoichiometry kept: {np.array_equal(snap(r)[0], sa3[0])}')
        if Xexp <= 0.95:
            ref = a.copy(); ref.X = Xexp
            compare('scale', f'{op}/acts/{tg}', lambda: apply(r, case, th), lambda: apply(ref, case, th), [lin((Xexp, nus[0]))], f'{op} by {k} acts differently from a with X scaled')
        elif Xexp <= 1.0 and case.get('bx'):
            # boundary: up to complete conversion (the reactant is fed sparingly in these cases)
            ref = a.copy(); ref.X = Xexp
            compare('scale', f'{op}/acts-near-complete/{tg}', lambda: apply(r, case, th), lambda: apply(ref, case, th), [lin((Xexp, nus[0]))], f'{op} by {k} acts differently from a with X scaled to {Xexp}', hit='X:full-scaled')
    for op, fn, Xexp in (('imul', lambda x: x.__imul__(k), a.X * k), ('itruediv', lambda x: x.__itruediv__(k), a.X / k)):
        ip = a.copy()
        r = guarded('inplace', lambda: fn(ip))
        if r is not None:
            rec.check(r is ip and abs(ip.X - Xexp) <= 4e-16 * max(abs(Xexp), 1e-300), 'inplace', f'{op}/{tg}', f'{op}: X={ip.X} expected {Xexp}')
    # ---- copy / neg / copy(basis) / backwards
    for op, fn in (('copy', lambda: a.copy()), ('neg', lambda: -a), ('copy-basis', lambda: a.copy(basis='wt' if a._basis == 'mol' else 'mol')),
                   ('copy-same-basis', lambda: a.copy(basis=a._basis))):
        sa4 = snap(a)
        r = guarded('new-object', fn)
        if r is None: continue
        fresh(op, r, (a,)); unchanged(op, (a,), (sa4,))
        if op == 'neg': rec.check(r.X == -a.X, 'scale', f'neg/{tg}', f'-a has X={r.X}, a.X={a.X}')
    prods = [i for i, v in case['rx'][0]['st'].items() if v > 0]
    for explicit in (False, True):
        if not explicit and len(prods) != 1: continue
        newr = prods[0]
        sa5 = snap(a)
        arg = ((case['phmap'][newr], newr) if False else newr) if explicit else None
        r = guarded('backwards', (lambda: a.backwards(newr)) if explicit else (lambda: a.backwards()))
        if r is None: continue
        fresh('backwards', r, (a,)); unchanged('backwards' + ('' if explicit else '-default'), (a,), (sa5,))
        st0 = sa5[0]; st1 = snap(r)[0]
        j = th.chemicals.IDs.index(newr)
        col0 = st0[..., j].sum() if st0.ndim == 2 else st0[j]
        exp = -st0 / col0
        rec.check(np.allclose(st1, exp, rtol=1e-12, atol=0), 'backwards', ('explicit' if explicit else 'default') + '/' + tg,
                  f'backwards({newr if explicit else ""}) is not the reversed reaction rescaled on {newr}: got {st1[np.nonzero(st1)].tolist()} expected {exp[np.nonzero(exp)].tolist()}')
    # ---- reaction sets: item X <-> set X; set copy / re-basing leaves the members alone
    # the operands of everything below: b and c on the basis of a. Where that takes copy(basis) (the conversion a + b performs itself) the re-based copy is anchored
    # against the reaction constructed from the description in the target basis: same coefficients (a few ulp), conversion, reactant, basis
    bb = b if same_basis else guarded('rebase', lambda: b.copy(basis=a._basis))
    cc = c if c._basis == a._basis else guarded('rebase', lambda: c.copy(basis=a._basis))
    if bb is None or cc is None: return
    for nm_, cp_, ref_, src_ in (('b', bb, bref, b), ('c', cc, cref, c)):
        if cp_ is src_: continue
        rec.hit('copy-basis-vs-description')
        s1, s2 = snap(cp_), snap(ref_)
        ok_ = s1[0].shape == s2[0].shape and np.allclose(s1[0], s2[0], rtol=1e-12, atol=0) and s1[1] == s2[1] and s1[2:] == s2[2:]
        rec.check(ok_, 'rebase', f'copy-basis-vs-description/{src_._basis}-to-{a._basis}/{"tagged" if case["tagged"] else "phase-less"}',
                  f'{nm_}.copy(basis={a._basis!r}) is not the reaction the description gives when constructed on that basis: coefficients {s1[0][np.nonzero(s1[0])].tolist()} vs {s2[0][np.nonzero(s2[0])].tolist()}, '
                  f'X {s1[1]} vs {s2[1]}, reactant / basis / phases {s1[2:]} vs {s2[2:]}',
                  residual=float(np.max(np.abs(s1[0] - s2[0]) / np.maximum(np.abs(s2[0]), 1e-300))) if s1[0].shape == s2[0].shape else None)
    for cls in (tmo.ParallelReaction, tmo.SeriesReaction):
        members = [a.copy(), bb.copy(), cc.copy()]
        msn = [snap(x) for x in members]
        rs = guarded('set-item-X', lambda: cls(members))
        if rs is None: continue
        it = rs[1]
        it.X = 0.123
        rec.check(rs.X[1] == 0.123, 'set-item-X', f'item-to-set/{cls.__name__}', 'item.X = v not visible in set.X')
        rs.X[2] = 0.321
        rec.check(rs[2].X == 0.321, 'set-item-X', f'set-to-item/{cls.__name__}', 'set.X[i] = v not visible in item.X')
        rs.X[1] = msn[1][1]; rs.X[2] = msn[2][1]
        # an item of a set is a reaction: copying it gives an independent Reaction acting like the item
        itc = guarded('set-copy', lambda: rs[0].copy())
        if itc is not None:
            rec.check(not (containers(itc) & containers(rs)) and itc.X == rs.X[0], 'set-copy', f'item-copy/{cls.__name__}', 'copy() of a reaction-set item shares containers with the set or has another X')
            itc.X = 0.0777
            rec.check(rs.X[0] != 0.0777 or msn[0][1] == 0.0777, 'set-copy', f'item-copy/X-shared/{cls.__name__}', 'changing X of an item copy changed the set')
        ssn = snap(rs)
        cp = guarded('set-copy', lambda: rs.copy())
        if cp is not None:
            rec.check(cp is not rs and not (containers(cp) & containers(rs)), 'set-copy', f'copy/shared/{cls.__name__}', 'copy() of a reaction set shares stoichiometry containers with the original')
            cp.X[0] = 0.77
            rec.check(same_snap(snap(rs), ssn), 'set-copy', f'copy/X-shared/{cls.__name__}', 'changing X of a set copy changed the original set')
        cb = guarded('set-copy', lambda: rs.copy(basis='wt' if rs._basis == 'mol' else 'mol'))
        if cb is not None:
            rec.check(same_snap(snap(rs), ssn), 'set-copy', f'copy-basis/original-changed/{cls.__name__}',
                      f're-basing a copy of a reaction set changed the original set (basis still {rs._basis}, stoichiometry rows modified)')
        if cls is tmo.ParallelReaction:
            # combining the members that share a reactant (all three do): a new set, acting like the original, which stays as it was
            ssr = snap(rs)
            D3 = [Dabc]
            before = side('reduce', lambda: apply(rs, case, th))
            rd = guarded('reduce', lambda: rs.reduce())
            if rd is not None:
                rec.hit('reduce')
                rec.check(same_snap(snap(rs), ssr), 'operands-unchanged', f'reduce/set/{tg}', f'ParallelReaction.reduce() changed the set it was called on: X before {ssr[1].tolist()} after {snap(rs)[1].tolist()}')
                rec.check(rd is not rs and not (containers(rd) & containers(rs)), 'new-object', f'reduce/shared-container/{tg}', 'reduce() result shares stoichiometry containers with the original set')
                after = side('reduce', lambda: apply(rd, case, th))
                judge('add-vs-parallel', f'reduce/{tg}', after, before, D3, 'the reduced set acts differently from the original parallel set')
                again = side('reduce', lambda: apply(rs, case, th))
                judge('operands-unchanged', f'reduce/set-acts/{tg}', again, before, D3, 'after reduce() the original set acts differently from before')
        rec.check(all(same_snap(snap(x), s0) for x, s0 in zip(members, msn)), 'set-copy', f'members-changed/{cls.__name__}',
                  'building / copying / re-basing a reaction set changed the member reactions it was built from')
    # ---- further members of the operation family (coverage audit): sums, triples, set + set, basis setter, in-place arithmetic on set items, X write paths
    sn = (snap(a), snap(bb), snap(cc))
    tri = guarded('add', lambda: sum([a, bb, cc]))
    if tri is not None:
        rec.hit('sum-of-three')
        unchanged('sum', (a, bb), sn[:2]); rec.check(same_snap(snap(cc), sn[2]), 'operands-unchanged', f'sum/c/{tg}', 'sum([a, b, c]) changed c'); fresh('sum', tri, (a, bb, cc))
        compare('add-vs-parallel', f'three/{tg}', lambda: apply(tri, case, th), lambda: apply(tmo.ParallelReaction([a.copy(), bref.copy(), cref.copy()]), case, th), [Dabc],
                'sum([a,b,c])(feed) != ParallelReaction([a,b,c])(feed)')
        if cc.X > 0 and a.X + bb.X > 0:
            m3 = guarded('sub', lambda: tri - cc); ab = guarded('add', lambda: a + bb)
            if m3 is not None and ab is not None:
                compare('sub-inverse', f'three/{tg}', lambda: apply(m3, case, th), lambda: apply(ab, case, th), [Dabc_c], '((a+b+c)-c)(feed) != (a+b)(feed)')
    for nm, fn in (('add-zero', lambda: a + 0), ('radd-zero', lambda: 0 + a), ('sub-zero', lambda: a - 0)):
        sa6 = snap(a); r0 = guarded('new-object', fn)
        if r0 is not None: fresh(nm, r0, (a,)); unchanged(nm, (a,), (sa6,)); rec.check(same_snap(snap(r0), sa6), 'new-object', f'{nm}/value/{tg}', f'{nm} is not a copy of a')
    # negated operands: a - (-b) acts like a + b, a + (-b) like a - b (binary and in-place forms)
    if a.X > 0 and bb.X > 0:
        nb = guarded('negated-operand', lambda: -bb)
        if nb is not None:
            rec.hit('negated-operand')
            for nm, fn, ref_fn, need, sg_ in (('a-(-b)', lambda: a - nb, lambda: a + bb, True, 1), ('a+(-b)', lambda: a + nb, lambda: a - bb, a.X > bb.X, -1),
                                              ('a-=(-b)', lambda: a.copy().__isub__(nb), lambda: a + bb, True, 1), ('a+=(-b)', lambda: a.copy().__iadd__(nb), lambda: a - bb, a.X > bb.X, -1)):
                if not need: continue
                r1 = guarded('negated-operand', fn); r2 = guarded('negated-operand', ref_fn)
                if r1 is None or r2 is None: continue
                rec.check(abs(r1.X - r2.X) <= 1e-12 * max(abs(r2.X), 1e-300), 'negated-operand', f'{nm}/X/{tg}', f'{nm} has X={r1.X!r} but the equivalent form has X={r2.X!r} (a.X={a.X}, b.X={bb.X})')
                compare('negated-operand', f'{nm}/acts/{tg}', lambda: apply(r1, case, th), lambda: apply(r2, case, th), [lin((1, Da), (sg_, Db))], f'{nm} acts differently from the equivalent form')
    # basis setter on a copy: the original stays, the re-based reaction acts the same
    other = 'wt' if a._basis == 'mol' else 'mol'
    rb = a.copy(); sa7 = snap(a)
    def setb(): rb.basis = other; return rb
    if guarded('rebase', setb) is not None:
        rec.hit('basis-setter')
        unchanged('basis-setter', (a,), (sa7,))
        rec.check(not (containers(rb) & containers(a)), 'new-object', f'basis-setter/shared-container/{tg}', 're-based copy shares stoichiometry containers with the original')
        # two bases: only a stream means the same on both sides
        compare('rebase', tg, lambda: apply(rb, case, th, stream=True), lambda: apply(a, case, th, stream=True), [Da], f'a copy re-based to {other} through the basis setter acts differently from the original', stream=True)
    # set + set (item-wise)
    p_ = guarded('add', lambda: tmo.ParallelReaction([a.copy(), bb.copy()])); q_ = guarded('add', lambda: tmo.ParallelReaction([a.copy() * 0.5, cc.copy()]))
    if p_ is not None and q_ is not None:
        sp_, sq_ = snap(p_), snap(q_)
        pq = guarded('add', lambda: p_ + q_)
        if pq is not None:
            rec.hit('set+set')
            rec.check(same_snap(snap(p_), sp_) and same_snap(snap(q_), sq_), 'operands-unchanged', f'set+set/{tg}', 'ParallelReaction + ParallelReaction changed an operand')
            rec.check(pq is not p_ and pq is not q_ and not (containers(pq) & (containers(p_) | containers(q_))), 'new-object', f'set+set/{tg}', 'set + set shares containers with an operand')
            ha = a.copy(); ha.X = 0.5 * a.X          # the reference member with half the conversion is made by assignment, not by the scaling under test
            compare('add-vs-parallel', f'set+set/{tg}', lambda: apply(pq, case, th), lambda: apply(tmo.ParallelReaction([a.copy(), bref.copy(), ha, cref.copy()]), case, th),
                    [lin((1.5, Da), (1, Db), (1, Dc))], '(p+q)(feed) != the four members in parallel')
    # in-place arithmetic on an item of a set: set and item keep describing the same reaction
    for op in ('iadd', 'isub', 'imul', 'itruediv'):
        rs2 = guarded('set-item-inplace', lambda: tmo.ParallelReaction([a.copy(), bb.copy()]))
        if rs2 is None: break
        it = rs2[0]
        if op == 'iadd': ref0 = guarded('add', lambda: a + cc); doit = lambda: it.__iadd__(cc); Di = lin((1, Da), (1, Dc))
        elif op == 'isub':
            if not (a.X > cc.X > 0): continue
            ref0 = guarded('sub', lambda: a - cc); doit = lambda: it.__isub__(cc); Di = lin((1, Da), (-1, Dc))
        elif op == 'imul': ref0 = a * k; doit = lambda: it.__imul__(k); Di = lin((k, Da))
        else: ref0 = a / k; doit = lambda: it.__itruediv__(k); Di = lin((1 / k, Da))
        scc = snap(cc)
        if ref0 is None or guarded('set-item-inplace', doit) is None: continue
        rec.hit('set-item-inplace')
        rec.check(same_snap(snap(cc), scc), 'operands-unchanged', f'item-{op}/right/{tg}', f'{op} on a set item changed its right operand')
        compare('set-item-inplace', f'{op}/set/{tg}', lambda: apply(rs2, case, th), lambda: apply(tmo.ParallelReaction([ref0.copy(), bref.copy()]), case, th), [lin((1, Di), (1, Db))],
                f'after item {op} the set acts differently from ParallelReaction([a {op} c, b]) (set X {np.asarray(rs2.X).tolist()})')
        compare('set-item-inplace', f'{op}/item/{tg}', lambda: apply(rs2[0].copy(), case, th), lambda: apply(ref0, case, th), [Di], f'after item {op} the item acts differently from a {op} c')
    # X write paths: iteration items, slices, whole-array setter
    rs3 = guarded('set-item-X', lambda: tmo.ParallelReaction([a.copy(), bb.copy(), cc.copy()]))
    if rs3 is not None:
        for n_, it in enumerate(rs3): it.X = 0.011 * (n_ + 1)
        rec.check(np.allclose(rs3.X, [0.011, 0.022, 0.033], rtol=1e-15), 'set-item-X', 'iter-item-to-set', f'X written through iteration items not visible in the set: {np.asarray(rs3.X).tolist()}')
        sl = guarded('set-item-X', lambda: rs3[0:2])
        if sl is not None:
            sl.X[1] = 0.444
            rec.check(rs3.X[1] == 0.444 and rs3[1].X == 0.444, 'set-item-X', 'slice-to-set', f'X written through a slice of the set not visible in the set: {np.asarray(rs3.X).tolist()}')
            rs3.X[0] = 0.555
            rec.check(sl.X[0] == 0.555, 'set-item-X', 'set-to-slice', 'X written on the set not visible in an earlier slice')
        def setX(): rs3.X = np.array([0.1, 0.2, 0.3]); return True
        if guarded('set-item-X', setX): rec.check(rs3[1].X == 0.2 and [i.X for i in rs3] == [0.1, 0.2, 0.3], 'set-item-X', 'setter-to-items', 'set.X = array not visible in the items')
    # ---- second coverage round: boundary conversions, direct -=, None operands, backwards(X=), refused basis setters, ReactionSystem.X, feed kinds
    if case.get('bx'):
        if abs(a.X + b.X - 1) < 1e-12: rec.hit('X:sum-to-one')
        if a.X == b.X: rec.hit('X:equal')
    if case.get('sparse'): rec.hit('feed:sparse')
    if case.get('feed_kind'): rec.hit('feed:' + {'nd2': 'nd'}.get(case['feed_kind'], case['feed_kind']))
    if a.X > bb.X > 0:
        # a -= b against a - b (the binary form is the reference; both must also convert X_a - X_b)
        sbb = snap(bb)
        m1 = guarded('sub', lambda: a - bb)
        ip = a.copy(); r1 = guarded('inplace', lambda: ip.__isub__(bb))
        if m1 is not None and r1 is not None:
            rec.hit('isub-direct')
            rec.check(r1 is ip, 'inplace', f'isub-direct/identity/{tg}', '-= returned another object')
            rec.check(same_snap(snap(bb), sbb), 'operands-unchanged', f'isub-direct/b/{tg}', 'a -= b / a - b changed b')
            rec.check(abs(ip.X - m1.X) <= 4e-16 * max(abs(m1.X), 1e-300) and abs(m1.X - (a.X - bb.X)) <= 4e-16, 'inplace', f'isub-direct/X/{tg}', f'(a -= b).X = {ip.X!r}, (a - b).X = {m1.X!r}, X_a - X_b = {a.X - bb.X!r}')
            compare('inplace', f'isub-direct/{tg}', lambda: apply(ip, case, th), lambda: apply(m1, case, th), [lin((1, Da), (-1, Db))], '(a -= b) acts differently from a - b')
    for nm, fn in (('add-none', lambda: a + None), ('sub-none', lambda: a - None)):
        sa8 = snap(a); r0 = guarded('new-object', fn)
        if r0 is not None: fresh(nm, r0, (a,)); unchanged(nm, (a,), (sa8,)); rec.check(same_snap(snap(r0), sa8), 'new-object', f'{nm}/value/{tg}', f'{nm} is not a copy of a')
    for nm, fn in (('iadd-none', lambda x: x.__iadd__(None)), ('isub-zero', lambda x: x.__isub__(0))):
        ip = a.copy(); sip = snap(ip); r0 = guarded('inplace', lambda: fn(ip))
        if r0 is not None: rec.check(r0 is ip and same_snap(snap(ip), sip), 'inplace', f'{nm}/{tg}', f'{nm} did not return the unchanged left operand')
    if prods:
        # reversing with a new conversion: a new reaction with that conversion, the operand keeps its own
        newr = prods[-1]; sa9 = snap(a)
        rX = guarded('backwards', lambda: a.backwards(newr, X=0.37)); r_ = guarded('backwards', lambda: a.backwards(newr))
        if rX is not None and r_ is not None:
            rec.hit('backwards:X')
            fresh('backwards-X', rX, (a,)); unchanged('backwards-X', (a,), (sa9,))
            rec.check(rX.X == 0.37 and np.array_equal(snap(rX)[0], snap(r_)[0]) and snap(rX)[2] == snap(r_)[2], 'backwards', f'X/{tg}',
                      f'backwards({newr}, X=0.37): X={rX.X!r}; same stoichiometry and reactant as backwards({newr}): {np.array_equal(snap(rX)[0], snap(r_)[0])}')
    # the basis of a set / of an item cannot be set (documented TypeError): counted; if it is accepted the set and its item must still agree
    rs4 = guarded('rebase', lambda: tmo.ParallelReaction([a.copy(), bb.copy()]))
    if rs4 is not None:
        for nm, tgt in (('set', rs4), ('item', rs4[0])):
            try:
                tgt.basis = other
            except TypeError:
                rec.refuse(f'basis setter of a reaction {nm} refused (TypeError, documented)'); rec.hit('basis-setter:set-refused')
            except Exception as e:
                rec.exception('rebase', e, what=f'basis setter of a reaction {nm} raised {type(e).__name__}: {e}')
            else:
                rec.check(rs4._basis == rs4[0]._basis == other, 'rebase', f'{nm}-setter-accepted/{tg}', f'basis setter of a reaction {nm} returned normally but set / item report {rs4._basis} / {rs4[0]._basis}')
    # ReactionSystem.X <-> its parts
    rsys = guarded('set-item-X', lambda: tmo.ReactionSystem(a.copy(), tmo.ParallelReaction([bb.copy(), cc.copy()]), tmo.SeriesReaction([bb.copy(), cc.copy()])))
    if rsys is not None:
        def setsys(): rsys.X = [0.05, [0.06, 0.07], np.array([0.08, 0.09])]; return True
        if guarded('set-item-X', setsys):
            rec.hit('system-X')
            got = [rsys[0].X, list(rsys[1].X), list(rsys[2].X), rsys[1][0].X, rsys[2][1].X]
            rec.check(got == [0.05, [0.06, 0.07], [0.08, 0.09], 0.06, 0.09], 'set-item-X', 'system-to-parts', f'ReactionSystem.X = [...] not visible in the parts / their items: {got}')
            rsys[1][1].X = 0.011; rsys[0].X = 0.012; rsys[2].X[0] = 0.013
            got = [rsys.X[0], list(rsys.X[1]), list(rsys.X[2])]
            rec.check(got == [0.012, [0.06, 0.011], [0.013, 0.09]], 'set-item-X', 'parts-to-system', f'X written on the parts / items not visible in ReactionSystem.X: {got}')
    # ---- third round: histories with kept handles (items / slices / system) around whole-array, scalar, element and augmented conversion writes
    if case.get('hist'): run_history(case, rec, th, (a, bb, cc), tg, scale, guarded, side, judge, nus)
    if all(d['X'] > 0 and len(d['st']) >= 3 for d in case['rx'][:2]): rec.mark_nontrivial(case_hash(case))


def run_history(case, rec, th, members, tg, scale, guarded, side, judge, nus):
    """one reaction set, handles taken and kept, conversions written through every door; after every write the set, fresh items, every held handle (and the enclosing
    system) must report the conversions written (the model is a list of stand-alone reactions updated by X assignment and the BINARY operator forms only). The first
    disagreement ends the history (what follows would only repeat it)."""
    h = case['hist']; cn = h['cls']; cls = getattr(tmo, cn); n = NSET
    mem = [m.copy() for m in members]
    for m, x in zip(mem, h['X0']): m.X = x
    M = [m.copy() for m in mem]
    Mm = [[dict(nus[i]), float(h['X0'][i])] for i in range(n)]        # the dense model of the members: [nu, X], harness arithmetic only
    rs = guarded('set-item-X', lambda: cls(mem))
    if rs is None: return
    rsys = None; single = [members[0].copy()]
    if h['system']:
        rsys = guarded('set-item-X', lambda: tmo.ReactionSystem(members[0].copy(), rs))
        if rsys is None: return
    rec.hit('history')
    items, slices = [], []        # [kind, object, model index] / [kind, object, model indices]
    held = [0]

    def close(x, y): return abs(x - y) <= 4e-16 * max(abs(y), 1e-300)

    def agree(obj, idxs):
        got = np.asarray(obj.X, dtype=float).ravel().tolist()
        return len(got) == len(idxs) and all(close(g, M[i].X) for g, i in zip(got, idxs)), got

    def checkpoint(writer):
        exp = [m.X for m in M]
        ok, got = agree(rs, range(n))
        if not rec.check(ok, 'set-item-X', f'history/{writer}->set', f'[{cn}] after {writer} the set reports X={got} but the conversions written are {exp}'): return False
        fx = [rs[i].X for i in range(n)]
        if not rec.check(all(close(x, e) for x, e in zip(fx, exp)), 'set-item-X', f'history/{writer}->fresh-item', f'[{cn}] after {writer} freshly indexed items report X={fx}; the set reports {got}'): return False
        for kind, obj, i in items:
            x = obj.X
            if not rec.check(close(x, exp[i]), 'set-item-X', f'history/{writer}->{kind}',
                             f'[{cn}] after {writer} a {kind} (reaction {i} of the set, obtained earlier and kept) reports X={x!r}; the set reports {got}'): return False
        for kind, obj, idxs in slices:
            ok, sg = agree(obj, idxs)
            if not rec.check(ok, 'set-item-X', f'history/{writer}->{kind}',
                             f'[{cn}] after {writer} a {kind} (reactions {idxs} of the set, obtained earlier and kept) reports X={sg}; the set reports {got}'): return False
        if rsys is not None:
            sx = rsys.X
            ok = close(float(sx[0]), single[0].X) and len(sx) == 2 and np.asarray(sx[1], dtype=float).ravel().tolist() == got
            if not rec.check(ok, 'set-item-X', f'history/{writer}->system-X', f'[{cn}] after {writer} the enclosing ReactionSystem reports X={[np.asarray(i).tolist() for i in sx]}; the set reports {got}, the single reaction {single[0].X}'): return False
        return True

    def arg(form, vals):
        return np.array(vals) if form == 'array' else list(vals) if form == 'list' else tuple(vals) if form == 'tuple' else vals

    def fk(form): return 'scalar' if form == 'scalar' else 'sequence'          # array / list / tuple share a key (the form is in the case)

    def model_assign(idxs, form, vals):
        for j, i in enumerate(idxs): M[i].X = vals if form == 'scalar' else vals[j]; Mm[i][1] = float(vals if form == 'scalar' else vals[j])

    def model_iop(idxs, op, k):
        for i in idxs:
            M[i].X = {'imul': M[i].X * k, 'itruediv': M[i].X / k, 'iadd': M[i].X + k, 'isub': M[i].X - k}[op]
            Mm[i][1] = {'imul': Mm[i][1] * k, 'itruediv': Mm[i][1] / k, 'iadd': Mm[i][1] + k, 'isub': Mm[i][1] - k}[op]

    def model_combine(i, o, ov, sign):
        # item (+=, -=) another reaction of conversion ov and stoichiometry nu_o: the combined reaction converts X +- ov through (X nu +- ov nu_o) / (X +- ov)
        nu_i, x = Mm[i]; xn = x + sign * ov
        D = lin((x, nu_i), (sign * ov, nus[o]))
        Mm[i] = [lin((1 / xn, D)), xn]

    def do_iop(obj, op, k):
        # augmented assignment on the property: getter, in-place array operation, setter with the same array
        if op == 'imul': obj.X *= k
        elif op == 'itruediv': obj.X /= k
        elif op == 'iadd': obj.X += k
        else: obj.X -= k

    def do(op):
        name = op[0]
        if name == 'take-item': items.append(['held-item', rs[op[1]], op[1] % n]); rec.hit('history:held-item'); return ''
        if name == 'take-system-item': items.append(['held-system-item', rsys[1][op[1]], op[1]]); rec.hit('history:held-system-item'); return ''
        if name == 'take-iter':
            for i, it in enumerate(rs): items.append(['held-iter-item', it, i])
            rec.hit('history:held-iter-item'); return ''
        if name == 'take-slice': items_ = list(range(n))[slice(*op[1])]; slices.append(['held-slice', rs[slice(*op[1])], items_]); rec.hit('history:held-slice'); return ''
        if name == 'take-slice-item': _, sl, idxs = slices[op[1]]; items.append(['held-slice-item', sl[op[2]], idxs[op[2]]]); rec.hit('history:held-slice-item'); return ''
        if name == 'take-slice-iter':
            _, sl, idxs = slices[op[1]]
            for j, it in enumerate(sl): items.append(['held-slice-iter-item', it, idxs[j]])
            rec.hit('history:held-slice-iter-item'); return ''
        if name == 'take-slice-slice': _, sl, idxs = slices[op[1]]; slices.append(['held-slice-of-slice', sl[slice(*op[2])], idxs[slice(*op[2])]]); rec.hit('history:held-slice-of-slice'); return ''
        if name == 'set-assign':
            rs.X = arg(op[1], op[2]); model_assign(range(n), op[1], op[2])
            if items or slices: rec.hit('history:whole-assign-with-held-handles')
            return f'set-assign-{fk(op[1])}'
        if name == 'system-assign':
            rsys.X = [op[1], arg(op[2], op[3])]; single[0].X = op[1]; model_assign(range(n), op[2], op[3])
            if items or slices: rec.hit('history:system-assign-with-held-handles')
            return f'system-assign-{fk(op[2])}'
        if name == 'system-elem': rsys.X[1][op[1]] = op[2]; M[op[1]].X = op[2]; Mm[op[1]][1] = float(op[2]); return 'system-elem'
        if name == 'set-elem': rs.X[op[1]] = op[2]; M[op[1]].X = op[2]; Mm[op[1]][1] = float(op[2]); return 'set-elem'
        if name == 'set-fullslice': rs.X[:] = np.array(op[1]); model_assign(range(n), 'array', op[1]); return 'set-fullslice'
        if name == 'set-iop': do_iop(rs, op[1], op[2]); model_iop(range(n), op[1], op[2]); return f'set-{op[1]}'
        if name == 'set-rebind': rs.X = rs.X * op[1]; model_iop(range(n), 'imul', op[1]); return 'set-rebind'
        if name == 'set-self': rs.X = rs.X; return 'set-self'
        if name == 'slice-assign':
            kind, sl, idxs = slices[op[1]]; sl.X = arg(op[2], op[3]); model_assign(idxs, op[2], op[3]); rec.hit('history:slice-assign'); return f'{kind[5:]}-assign-{fk(op[2])}'
        if name == 'slice-elem': kind, sl, idxs = slices[op[1]]; sl.X[op[2]] = op[3]; M[idxs[op[2]]].X = op[3]; Mm[idxs[op[2]]][1] = float(op[3]); return f'{kind[5:]}-elem'
        if name == 'slice-iop': kind, sl, idxs = slices[op[1]]; do_iop(sl, op[2], op[3]); model_iop(idxs, op[2], op[3]); return f'{kind[5:]}-{op[2]}'
        if name == 'item-X': kind, it, i = items[op[1]]; it.X = op[2]; M[i].X = op[2]; Mm[i][1] = float(op[2]); return f'{kind[5:]}-X'
        if name == 'item-iop':
            kind, it, i = items[op[1]]
            r = it.__imul__(op[3]) if op[2] == 'imul' else it.__itruediv__(op[3])
            M[i] = M[i] * op[3] if op[2] == 'imul' else M[i] / op[3]
            Mm[i][1] = Mm[i][1] * op[3] if op[2] == 'imul' else Mm[i][1] / op[3]
            rec.check(r is it, 'inplace', f'history/{kind[5:]}-{op[2]}/identity/{cn}', f'{op[2]} on a {kind} returned another object')
            rec.hit('history:item-inplace'); return f'{kind[5:]}-{op[2]}'
        if name in ('item-iadd', 'item-isub'):
            kind, it, i = items[op[1]]; other = members[op[2]].copy(); other.X = op[3]; so = snap(other)
            r = it.__iadd__(other) if name == 'item-iadd' else it.__isub__(other)
            M[i] = M[i] + other if name == 'item-iadd' else M[i] - other
            model_combine(i, op[2], float(op[3]), 1 if name == 'item-iadd' else -1)
            rec.check(r is it, 'inplace', f'history/{kind[5:]}-{name[5:]}/identity/{cn}', f'{name[5:]} on a {kind} returned another object')
            rec.check(same_snap(snap(other), so), 'operands-unchanged', f'history/{kind[5:]}-{name[5:]}/right/{cn}', f'{name[5:]} on a {kind} changed its right operand')
            rec.hit('history:item-inplace'); return f'{kind[5:]}-{name[5:]}'
        if name == 'copy-write':
            what, ref, form, v = op[1:]
            tgt = rs if what == 'set' else slices[ref][1] if what == 'slice' else items[ref][1]
            cp = tgt.copy()
            if what == 'item': cp.X = v; cp *= 0.5
            elif form == 'array': cp.X = np.full(len(cp.X), v)
            elif form == 'scalar': cp.X = v
            else: cp.X[0] = v
            rec.hit('history:copy-write'); return f'copy-of-{what}-write'
        raise RuntimeError(f'unknown history operation {name}')

    for op in h['ops']:
        w = guarded('set-item-X', lambda: do(op))
        if w is None: return
        if w and not checkpoint(w): rec.hit('history:ended-at-disagreement'); return
    rec.hit('history:complete')
    # the handles kept through the whole history act like the reactions the conversions written describe
    def stages(ix):
        Ds = [lin((Mm[i][1], Mm[i][0])) for i in ix]
        return Ds if cls is tmo.SeriesReaction else [lin(*[(1, D) for D in Ds])]      # a series set acts member after member, a parallel set as the sum of its members

    def acts(what, obj, ref_fn, st_):
        judge('set-item-X', f'history/acts/{what}/{cn}/{tg}', side('set-item-X', lambda: apply(obj, case, th)), side('set-item-X', lambda: apply(ref_fn(), case, th)), st_,
              f'after the history a {what} acts differently from the reaction(s) with the conversions written ({[m.X for m in M]})', hit='history:acts')
    acts('set', rs, lambda: cls([m.copy() for m in M]), stages(range(n)))
    handles = items + slices
    if handles:
        kind, obj, ix = handles[h['pick'] % len(handles)]
        if isinstance(ix, list): acts(kind, obj, lambda: cls([M[i].copy() for i in ix]), stages(ix))
        else: acts(kind, obj, lambda: M[ix].copy(), [lin((Mm[ix][1], Mm[ix][0]))])
    if rsys is not None: acts('system', rsys, lambda: tmo.ReactionSystem(single[0].copy(), cls([m.copy() for m in M])), [lin((float(single[0].X), nus[0]))] + stages(range(n)))


def replay(case, rec):
    run_case(case, rec)


def run(rec, rng, tier, shard, nshards):
    R.check_atoms()
    n = 1500 if tier == 'quick' else 20000
    for i in range(n):
        case = gen_case(rng)
        try:
            run_case(case, rec)
        except Exception as e:
            rec.exception('harness', e, what=f'harness error: {type(e).__name__}: {e}')
        if i % 201 == 0: rec.sample(case)
    # the comparisons that ended as refusals (both sides infeasible with the dense model agreeing, or the model undecided) must stay a small share: a regression cannot
    # move the comparisons into 'not judged' (one-sided or model-contradicted InfeasibleRegion is a violation), and neither can a generator that starves the feeds
    ncmp, nref = rec.reach.get('compare', 0), rec.reach.get('compare:refused', 0)
    if ncmp and nref <= MAX_REFUSED_SHARE * ncmp: rec.hit('compare:refusal-share-bounded')
    elif ncmp: rec.exception('harness', RuntimeError(f'{nref} of {ncmp} applied comparisons ended as refusals (bound {MAX_REFUSED_SHARE}): the feeds of the generator are not sufficient'))
