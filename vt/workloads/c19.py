"""C19 — simulation order derived from a flowsheet is complete and follows material flow.

Monitor: Network.from_units is run on real unit graphs (random DAGs, optional back-edges, permutations of the unit list);
the flattened path, the reported recycles and the nesting are compared with the true unit/stream graph (plain DFS).
"""
import itertools, random, warnings
import thermosteam as tmo
from thermosteam.network import Network, AbstractUnit, AbstractInlets, AbstractMissingStream
from vt.core import case_hash, exc_key, exc_text

PID = 'C19'
RULE = ('random connected DAGs of 2-10 units with 1-3 inlets/outlets each, several feeds (real Streams with distinct mass flows) and products; every permutation of the unit list '
        'for <=4 units, otherwise 3 random permutations (+ identity and reverse); the same graphs with 1-3 back-edges (no self-loops) such that every unit still reaches a product. '
        'Added: ~30% of the graphs get tied / zero feed flows (all-equal, some-equal, some-zero, all-zero) and ~12% get set_feed_priority values; every permutation for all 5-unit graphs '
        'and every 10th 6-unit graph (720 orders); the unit collection also given as tuple / dict-keys, and the call forms ends=None / ends=() / ends=<the outlets leaving the set> / ends=<half of them> / recycles=False (acyclic only) / '
        'interaction=False / Network.from_feedstock(<any feed>, <other feeds>, units=...); variable-size port lists (~15%); extra graph kinds, each under its own clause: '
        'a connected sub-set of a larger flowsheet (acyclic-subset / cyclic-subset: cycles count only when they lie inside the given set), back-edges that are self-loops (cyclic-selfloop), '
        'inlet ports left unconnected (acyclic-/cyclic-missing-inlet; bare AbstractMissingStream and a missing-stream class that carries F_mass); every reported recycle must be a stream docked at a given unit. '
        'A one-shot iterator as unit collection is observed but not judged. '
        'Cyclic cases additionally: every unit listed once; each reported recycle connects two units of the network it is reported for; the reported recycles cut every true cycle '
        '(true graph minus recycles is acyclic); per network level the items follow the flow: nothing runs backward in a network without recycle; in a loop no backward stream other than its recycle(s) hands a value of the previous pass on to another such stream (or to itself) without passing a recycle of that loop, i.e. no stream that is not reported carries iteration state of its own (not judged when a unit is listed twice). '
        'The structure of the true cycles (single-loop / disjoint-loops / nested-loops / interlocking-loops, from the case dict) is part of the keys of the loop-joining findings and the reach counter '
        'struct:<class> is what their rates are taken over (the remaining orders of an exhaustive sweep count under sweep:struct:<class> and carry ":all-orders-of-one-graph" in those keys: one graph met up to 715 times); the recorded join_recycle_network raise keeps its key only with the recorded message on interlocking loops. '
        'non-trivial = >=3 units and (>=2 feeds or a branch or a cycle); distinct = hash of (graph, permutation)')
MIN_NONTRIVIAL = {'quick': 500, 'thorough': 20000}
ASSUMPTIONS = ['units are bare AbstractUnit subclasses using tmo.Stream (feed ranking reads F_mass)',
               'cyclic flowsheets: "a path that contains exactly the given units" is read as each unit once (as stated for the acyclic case); a recycle is a stream between two units of its own loop network, and every true cycle carries a reported recycle',
               'order inside a recycle loop (key order-inside-networks/...): a loop is iterated until its reported recycle(s) stand still, so where its path starts is free, and the statement allows any backward stream between two units of a common loop; demanded beyond that is only that such a stream is a function of the recycle values and the feeds: no value of the previous pass may travel from one backward non-recycle stream to the source of another (or of itself) without passing a recycle of the loop - such a stream would be a tear stream of its own that the loop never tests ("a loop whose iteration cannot converge the stale value"). A backward stream whose source gets previous-pass values only through a recycle of the loop is allowed (it lags the recycle by one pass and stands still when the recycle does): demanding that the reported recycles alone are a sufficient (first-order) tear set is more than the statement says and was withdrawn after the thorough run of seed 0 (5 orders of one 10-unit graph, loop [U1, <U0 U3 U7 U9>, U4, U5, U8, U2, U6], recycle U2->U7, backward stream U0->U1). The literal third sentence of the statement (any backward stream inside a common loop) is judged separately and unchanged',
               'a flowsheet built once is reused for the remaining orders of an exhaustive permutation sweep (from_units must leave the connections untouched; checked after each sweep)']


def required(tier):
    return ['acyclic', 'cyclic', 'cyclic:nested-or-multi',
            'feeds:all-equal', 'feeds:some-equal', 'feeds:some-zero', 'feeds:all-zero', 'feeds:priority',
            'perm:exhaustive-5', 'perm:exhaustive-6', 'form:tuple', 'form:dict-keys',
            'call:ends-products', 'call:ends-some-leaving', 'call:recycles-false', 'call:feedstock',
            'subset', 'subset:cyclic', 'self-loop', 'missing-inlet', 'missing-inlet:bare', 'variable-ports',
            'recycle-is-flowsheet-stream',
            'struct:single-loop', 'struct:disjoint-loops', 'struct:nested-loops', 'struct:interlocking-loops', 'struct:interlocking-loops:3-back-edges', 'sweep:struct:interlocking-loops',
            'cyclic:each-unit-once', 'recycle-inside-own-loop', 'cyclic:cycle-without-recycle', 'cyclic:order-inside-networks', 'cyclic:order-inside-networks:top-level-is-loop']


class _MissingWithFlow(AbstractMissingStream):
    """placeholder that carries the attribute the feed ranking reads (as AbstractStream does: 'F_mass = 0 # Required for ... sorting in network')."""
    __slots__ = ()
    F_mass = 0


class _InletsMS(AbstractInlets):
    __slots__ = ()
    MissingStream = _MissingWithFlow


_classes = {}


def ucls(nin, nout, ins_var=False, outs_var=False, ms=False):
    key = (nin, nout, ins_var, outs_var, ms)
    c = _classes.get(key)
    if c is None:
        d = dict(_N_ins=nin, _N_outs=nout, Stream=tmo.Stream)
        if ins_var: d['_ins_size_is_fixed'] = False
        if outs_var: d['_outs_size_is_fixed'] = False
        if ms: d['Inlets'] = _InletsMS
        c = type(f'N{nin}{nout}', (AbstractUnit,), d)
        _classes[key] = c
    return c


def gen_graph(rng, cyclic):
    n = rng.randrange(2, 11)
    units = []   # (nin, nout)
    free_outs = []   # (unit, port)
    edges = []   # (src_unit, src_port, dst_unit, dst_port)
    feeds = []   # (dst_unit, dst_port, mass)
    for k in range(n):
        nin, nout = rng.randrange(1, 4), rng.randrange(1, 4)
        units.append((nin, nout))
        connected = False
        for p in range(nin):
            if free_outs and (rng.random() < 0.6 or (not connected and p == nin - 1 and k > 0)):
                so = free_outs.pop(rng.randrange(len(free_outs)))
                edges.append((so[0], so[1], k, p)); connected = True
            else:
                feeds.append((k, p, round(10 ** rng.uniform(0, 3), 3) + len(feeds)))
        if k > 0 and not connected:
            return None
        for p in range(nout): free_outs.append((k, p))
    back = []
    if cyclic:
        for _ in range(rng.randrange(1, 4)):
            # a free outlet of a later unit replaces a feed inlet of an earlier unit
            cands = [(fo, fi) for fo in free_outs for fi in range(len(feeds)) if fo[0] > feeds[fi][0]]
            if not cands: break
            fo, fi = rng.choice(cands)
            f = feeds[fi]
            # keep at least one feed in the flowsheet
            if len(feeds) <= 1: break
            free_outs.remove(fo); feeds.pop(fi)
            back.append((fo[0], fo[1], f[0], f[1]))
        if not back: return None
    g = {'units': units, 'edges': edges, 'back': back, 'feeds': feeds}
    # every unit must reach a product (a free outlet somewhere downstream)
    succ = {k: set() for k in range(n)}
    for e in edges + back: succ[e[0]].add(e[2])
    has_product = {fo[0] for fo in free_outs}
    for k in range(n):
        seen = {k}; st = [k]; ok = False
        while st:
            x = st.pop()
            if x in has_product: ok = True; break
            for y in succ[x]:
                if y not in seen: seen.add(y); st.append(y)
        if not ok: return None
    # ... and must be reachable from a feed (a loop that no feed enters is not a flowsheet the property talks about)
    fed = {f[0] for f in feeds}
    seen = set(fed); st = list(fed)
    while st:
        x = st.pop()
        for y in succ[x]:
            if y not in seen: seen.add(y); st.append(y)
    if len(seen) != n: return None
    # true cyclicity (an edge from a later-created unit to an earlier one closes a cycle only if the earlier one reaches it)
    def reaches(a, b):
        seen = {a}; st = [a]
        while st:
            x = st.pop()
            if x == b: return True
            for y in succ[x]:
                if y not in seen: seen.add(y); st.append(y)
        return False
    g['cyclic'] = any(reaches(e[2], e[0]) for e in back)
    if cyclic and not g['cyclic']: return None
    return g


# ---------------------------------------------------------------------------------------------------------------------
# added graph kinds (each judged under its own clause so that rates of recorded findings are not mixed)

def _reach(succ, roots):
    seen = set(roots); st = list(roots)
    while st:
        x = st.pop()
        for y in succ[x]:
            if y not in seen: seen.add(y); st.append(y)
    return seen


def _has_cycle(nodes, pairs):
    succ = {k: set() for k in nodes}
    for a, b in pairs: succ[a].add(b)
    return any(a in _reach(succ, succ[a]) for a in nodes)


def _acyclic(nodes, pairs):
    """Kahn: True when the directed multigraph (nodes, pairs) has no cycle (a self-loop is a cycle)."""
    indeg = {k: 0 for k in nodes}; succ = {k: [] for k in nodes}
    for a, b in pairs: succ[a].append(b); indeg[b] += 1
    st = [k for k, d in indeg.items() if not d]; done = 0
    while st:
        x = st.pop(); done += 1
        for y in succ[x]:
            indeg[y] -= 1
            if not indeg[y]: st.append(y)
    return done == len(indeg)


def gen_graph_x(rng, cyclic, selfloop=False, p_missing=0.0):
    """as gen_graph, plus: inlet ports left unconnected (p_missing) and back-edges from a unit to itself (selfloop)."""
    n = rng.randrange(2, 11)
    units, free_outs, edges, feeds, missing = [], [], [], [], []
    for k in range(n):
        nin, nout = rng.randrange(1, 4), rng.randrange(1, 4)
        units.append((nin, nout))
        connected = False
        for p in range(nin):
            if free_outs and (rng.random() < 0.6 or (not connected and p == nin - 1 and k > 0)):
                so = free_outs.pop(rng.randrange(len(free_outs)))
                edges.append((so[0], so[1], k, p)); connected = True
            elif p_missing and rng.random() < p_missing:
                missing.append((k, p))
            else:
                feeds.append((k, p, round(10 ** rng.uniform(0, 3), 3) + len(feeds)))
        if k > 0 and not connected:
            return None
        for p in range(nout): free_outs.append((k, p))
    if not feeds: return None
    if p_missing and not missing: return None
    back = []
    nself = 0
    if cyclic:
        for j in range(rng.randrange(1, 4)):
            if selfloop and j == 0:
                cands = [(fo, fi) for fo in free_outs for fi in range(len(feeds)) if fo[0] == feeds[fi][0]]
            elif selfloop:
                cands = [(fo, fi) for fo in free_outs for fi in range(len(feeds)) if fo[0] >= feeds[fi][0]]
            else:
                cands = [(fo, fi) for fo in free_outs for fi in range(len(feeds)) if fo[0] > feeds[fi][0]]
            if not cands: break
            fo, fi = rng.choice(cands)
            f = feeds[fi]
            if len(feeds) <= 1: break
            free_outs.remove(fo); feeds.pop(fi)
            back.append((fo[0], fo[1], f[0], f[1]))
            if fo[0] == f[0]: nself += 1
        if not back: return None
        if selfloop and not nself: return None
    g = {'units': units, 'edges': edges, 'back': back, 'feeds': feeds}
    if missing: g['missing'] = missing
    succ = {k: set() for k in range(n)}
    for e in edges + back: succ[e[0]].add(e[2])
    has_product = {fo[0] for fo in free_outs}
    for k in range(n):
        if not (_reach(succ, [k]) & has_product): return None
    # roots: units with a real feed; a unit whose inlet ports are all unconnected starts a walk of its own (from_units takes the placeholder as a feed)
    with_inlet = {f[0] for f in feeds} | {e[2] for e in edges + back}
    sources = [k for k in range(n) if k not in with_inlet]
    if len(_reach(succ, list({f[0] for f in feeds}) + sources)) != n: return None
    if sources: g['source_units'] = sources
    g['cyclic'] = any(e[0] in _reach(succ, [e[2]]) for e in back)
    if cyclic and not g['cyclic']: return None
    return g


def gen_subset(rng, cyclic):
    """a connected sub-set S (>= 2 units) of a larger flowsheet; 'cyclic' is then the cyclicity of the induced graph.
    A full flowsheet whose cycles all pass through a unit outside S is not generated (the statement does not say which branch applies)."""
    g = gen_graph(rng, cyclic)
    if g is None: return None
    n = len(g['units'])
    if n < 3: return None
    alle = g['edges'] + g['back']
    nb = {k: set() for k in range(n)}
    for e in alle: nb[e[0]].add(e[2]); nb[e[2]].add(e[0])
    size = rng.randrange(2, n)
    S = [rng.randrange(n)]
    while len(S) < size:
        cand = sorted({y for x in S for y in nb[x]} - set(S))
        if not cand: break
        S.append(rng.choice(cand))
    if len(S) < 2: return None
    S.sort(); Sset = set(S)
    induced = [(e[0], e[2]) for e in alle if e[0] in Sset and e[2] in Sset]
    ind_cyclic = _has_cycle(S, induced)
    if g['cyclic'] and not ind_cyclic: return None
    # within S: every unit reaches an outlet that leaves S (or a product) and is reached from an inlet that enters S (or a feed)
    succ = {k: set() for k in S}
    for a, b in induced: succ[a].add(b)
    used_out = {(e[0], e[1]) for e in alle if e[2] in Sset}
    exits = {k for k in S if any((k, p) not in used_out for p in range(g['units'][k][1]))}
    entries = {f[0] for f in g['feeds'] if f[0] in Sset} | {e[2] for e in alle if e[2] in Sset and e[0] not in Sset}
    if any(not (_reach(succ, [k]) & exits) for k in S): return None
    if len(_reach(succ, entries)) != len(S): return None
    g['kind'] = 'subset'; g['subset'] = S; g['full_cyclic'] = g['cyclic']; g['cyclic'] = ind_cyclic
    return g


FEEDMODES = ('all-equal', 'some-equal', 'some-zero', 'all-zero')


def decorate(g, rng):
    """tied / zero feed flows, feed priorities, variable-size port lists (all stored in the case dict)."""
    feeds = [list(f) for f in g['feeds']]
    nf = len(feeds)
    if rng.random() < 0.3:
        mode = rng.choice(FEEDMODES)
        if mode == 'all-equal' and nf >= 2:
            m = feeds[rng.randrange(nf)][2]
            for f in feeds: f[2] = m
        elif mode == 'some-equal' and nf >= 2:
            idx = rng.sample(range(nf), rng.randrange(2, nf + 1))
            m = max(f[2] for f in feeds) if rng.random() < 0.5 else feeds[idx[0]][2]     # the tie is at the top half of the time
            for i in idx: feeds[i][2] = m
        elif mode == 'some-zero' and nf >= 2:
            for i in rng.sample(range(nf), rng.randrange(1, nf)): feeds[i][2] = 0.0
        elif mode == 'all-zero':
            for f in feeds: f[2] = 0.0
        else:
            mode = None
        if mode:
            g['feedmode'] = mode; g['feeds'] = feeds
    if nf >= 2 and rng.random() < 0.12:
        idx = sorted(rng.sample(range(nf), rng.randrange(1, nf + 1)))
        g['priority'] = [[i, rng.choice([-1.0, 0.0, 0.25, 1.0, 2.0, 3.0])] for i in idx]
    if rng.random() < 0.15:
        var = [[rng.random() < 0.5, rng.random() < 0.5] for _ in g['units']]
        if not any(a or b for a, b in var): var[rng.randrange(len(var))][rng.randrange(2)] = True
        # a unit with an unconnected inlet port keeps its fixed-size inlet list (the placeholder is the point; an emptied variable-size list
        # would make it a unit with fewer / zero inlets, which the quantifier does not cover)
        for k, _ in g.get('missing', ()): var[k][0] = False
        if any(a or b for a, b in var): g['var'] = var
    return g


def build_ex(g):
    """-> (units, feed streams). Ports that get neither a feed nor an edge stay placeholders."""
    var = g.get('var'); ms = bool(g.get('msfix'))
    units = []
    for k, (nin, nout) in enumerate(g['units']):
        iv, ov = (bool(var[k][0]), bool(var[k][1])) if var else (False, False)
        u = ucls(nin, nout, iv, ov, ms)(None)
        u._ID = f'U{k}'
        if ov:      # a variable-size outlet list filled by append
            u.outs.clear()
            for p in range(nout): u.outs.append(tmo.Stream(None))
        units.append(u)
    fstreams = []
    pending = {}    # variable-size inlet lists are emptied and filled by append in port order (unconnected ports are then simply absent)
    for k, (du, dp, mass) in enumerate(g['feeds']):
        s = tmo.Stream(None, Water=mass, units='kg/hr'); s._ID = f'feed{k}'
        fstreams.append(s)
        if var and var[du][0]: pending.setdefault(du, {})[dp] = s
        else: units[du].ins[dp] = s
    for (su, spt, du, dp) in list(g['edges']) + list(g['back']):
        if var and var[du][0]: pending.setdefault(du, {})[dp] = units[su].outs[spt]
        else: units[du].ins[dp] = units[su].outs[spt]
    for du in sorted(pending):
        units[du].ins.clear()
        for dp in sorted(pending[du]): units[du].ins.append(pending[du][dp])
    for fi, val in g.get('priority', ()):
        fstreams[fi].set_feed_priority(val)
    return units, fstreams


def release(fstreams):
    """feed priorities live in a class-level dict keyed by stream: drop ours."""
    fp = tmo.AbstractStream.feed_priorities
    for s in fstreams: fp.pop(s, None)


def build(g):
    return build_ex(g)[0]


def flatten(net):
    out = []
    for i in net.path:
        if isinstance(i, Network): out += flatten(i)
        else: out.append(i)
    return out


def loops(net, acc=None):
    """list of (set of units, recycle) for every (sub)network that carries a recycle."""
    if acc is None: acc = []
    if net.recycle:
        acc.append(set(flatten(net)))
    for i in net.path:
        if isinstance(i, Network): loops(i, acc)
    return acc


def loop_networks(net, acc=None):
    """every (sub)network that carries a recycle, as (network, list of its recycle streams)."""
    if acc is None: acc = []
    r = net.recycle
    if r: acc.append((net, [r] if hasattr(r, 'sink') else list(r)))
    for i in net.path:
        if isinstance(i, Network): loop_networks(i, acc)
    return acc


# ---------------------------------------------------------------------------------------------------------------------
# structure of the TRUE cycle system of the given units (from the case dict alone; nothing of the library is read).
# It is the input class the recorded loop-joining findings belong to, so it is part of their keys and of the reach counter their rate is taken over:
#   single-loop        one simple cycle (parallel streams between the same two units count once)
#   disjoint-loops     several simple cycles, no two of them share a unit
#   nested-loops       cycles share units, and whenever two do the units of one are a subset of the units of the other (inner / outer loop)
#   interlocking-loops two cycles share units and neither contains the other

def simple_cycles(nodes, pairs):
    """unit sets (bit masks) of the simple cycles of a small directed graph (<= 10 nodes), self-loops included."""
    order = sorted(nodes); bit = {k: 1 << i for i, k in enumerate(order)}
    succ = {k: set() for k in nodes}
    for a, b in pairs: succ[a].add(b)
    found = set()
    for s in order:      # cycles whose smallest unit is s
        stack = [(s, bit[s])]
        while stack:
            x, mask = stack.pop()
            for y in succ[x]:
                if y == s: found.add(mask)
                elif y > s and not (mask & bit[y]): stack.append((y, mask | bit[y]))
    return found


def structure_class(nodes, pairs):
    cyc = sorted(simple_cycles(nodes, pairs))
    if not cyc: return 'acyclic'
    if len(cyc) == 1: return 'single-loop'
    overlap = False
    for i, a in enumerate(cyc):
        for b in cyc[i + 1:]:
            c = a & b
            if c:
                if c != a and c != b: return 'interlocking-loops'
                overlap = True
    return 'nested-loops' if overlap else 'disjoint-loops'


_struct_cache = [None, None, None]


def structure_of(g, given):
    """structure class of the flowsheet induced on `given` (cached for the orders of one graph)."""
    key = tuple(sorted(given))
    if _struct_cache[0] is g and _struct_cache[1] == key: return _struct_cache[2]
    gs = set(given)
    st = structure_class(key, {(e[0], e[2]) for e in list(g['edges']) + list(g['back']) if e[0] in gs and e[2] in gs})
    _struct_cache[:] = [g, key, st]
    return st


JOIN_MESSAGE = 'networks must have units in common to join'


def order_inside_networks(net, edges, found):
    """Per network level: the items of a path (units; a sub-network counts as one item) follow the material flow.  `edges` = true streams as (source unit, sink unit, id(stream)).
    - a network WITHOUT recycle is run once: every stream between two different items runs forward;
    - a network WITH recycle(s) is iterated until its recycle(s) stop changing.  A stream that runs backward delivers the value of the previous pass.  That is what a recycle is
      for, and the statement allows any other backward stream between two units of a common loop as well.  What the reported recycles cannot converge is a value of the previous
      pass that is handed on from one backward non-recycle stream to the next WITHOUT passing a recycle of this network: the test the loop stops on (its recycles stand still)
      never sees that value.  Test: from the items that receive a backward NON-recycle stream, walk the forward streams that are not recycles of this network; no source of a
      backward non-recycle stream may be reached (the receiving item itself included).
      A previous-pass value that reaches the source of a backward stream only THROUGH a recycle of this network is not judged: that stream is recomputed from the value of the
      recycle in every pass and stands still one pass after the recycle does (witness of the thorough run: loop [U1, <U0 U3 U7 U9>, U4, U5, U8, U2, U6] with recycle U2->U7 and
      the backward stream U0->U1 - both ends in the loop, the only way from U1 back to U0 is the recycle; a linear mixer/splitter model iterated in this order until U2->U7
      stands still satisfies every unit equation).  An earlier version also started the walk at the items that receive a backward RECYCLE and so demanded more than the statement
      (and more than its own stated reading).
    Where the path of a loop starts is free under this reading (any rotation of a correct loop order passes), and so is the library's habit of reporting the single outlet of
    the unit the backward streams enter in place of those streams.  Appends (level kind, text) to `found`; returns the units below `net`."""
    items = net.path; n = len(items); where = {}; flat = []
    for k, it in enumerate(items):
        us = order_inside_networks(it, edges, found) if isinstance(it, Network) else [it]
        for u in us: where.setdefault(u, k)
        flat += us
    r = net.recycle
    own = set() if not r else ({id(r)} if hasattr(r, 'sink') else {id(x) for x in r})
    fwd = [[] for _ in range(n)]; stale = [False] * n; back = []
    for ua, ub, sid in edges:
        pa = where.get(ua); pb = where.get(ub)
        if pa is None or pb is None or pa == pb: continue
        if pa < pb:
            if sid not in own: fwd[pa].append(pb)
        elif sid not in own:
            stale[pb] = True; back.append((pa, ua, ub))
    if not back: return flat
    names = [getattr(i, 'ID', '<network>') for i in items]
    if not own:
        found.append(('linear-level', f'a network without recycle lists {[(ua.ID, ub.ID) for _, ua, ub in back[:4]]} against the flow (items {names})'))
        return flat
    for k in range(n):       # forward streams only go up in position: one sweep
        if stale[k]:
            for m in fwd[k]: stale[m] = True
    bad = [(ua.ID, ub.ID) for pa, ua, ub in back if stale[pa]]
    if bad: found.append(('loop-level', f'in the loop {names} the backward stream(s) {bad[:4]} are not recycles of the loop and carry on a value of the previous pass that reached their source from a backward non-recycle stream without passing a recycle of the loop (iteration state the loop never tests)'))
    return flat


def edges_from_units(units):
    """true streams (source unit, sink unit, id(stream)) between the given live units, read from their outlet lists (for monitors that have no case dict, e.g. the ambient one)."""
    inside = set(units); out = []
    for u in units:
        for s in u.outs:
            k = getattr(s, 'sink', None)
            if k is not None and k in inside: out.append((u, k, id(s)))
    return out


KIND_CLAUSE = {'subset': 'subset', 'self-loop': 'selfloop', 'missing-inlet': 'missing-inlet'}
CALLS = ('ends-none', 'ends-empty', 'ends-products', 'ends-some-leaving', 'recycles-false', 'interaction-false', 'feedstock')


def variant_tag(case):
    """key part naming the branch a violation was seen under: the structural sub-branch (if any) and the call form / container type when not the default."""
    g = case['g']; parts = []
    if g.get('source_units'): parts.append('source-unit')
    if g.get('missing') and not g.get('msfix'): parts.append('bare-placeholder')
    if case.get('call', 'default') != 'default': parts.append(case['call'])
    elif case.get('form', 'list') != 'list': parts.append('units-as-' + case['form'])
    return ('/' + '+'.join(parts)) if parts else ''


def decoration(g):
    """feed / port decorations of the graph, for the witness text (not part of the key)."""
    parts = []
    if g.get('feedmode'): parts.append('feeds ' + g['feedmode'])
    if g.get('priority'): parts.append('feed priorities set')
    if g.get('var'): parts.append('variable-size port lists')
    return (' [' + ', '.join(parts) + ']') if parts else ''


def run_case(case, rec, prebuilt=None):
    rec.begin_case(case)
    g = case['g']; perm = case['perm']
    form = case.get('form', 'list'); call = case.get('call', 'default')
    kind = g.get('kind')
    cyclic = bool(g.get('cyclic', g['back']))
    clause = 'cyclic' if cyclic else 'acyclic'
    if kind: clause += '-' + KIND_CLAUSE[kind]
    vt = variant_tag(case); deco = decoration(g)
    fstreams = (); struct = None
    # the remaining orders of an exhaustive sweep (up to 715 orders of ONE graph): a recorded finding met there is met hundreds of times at once, so those cases carry their own
    # key part and reach counter, and the rate of a recorded finding over the ordinary cases (<= 24 orders per graph) stays a rate over graphs
    swp = bool(case.get('sweep')); SW = ':all-orders-of-one-graph' if swp else ''
    with warnings.catch_warnings():
        warnings.simplefilter('ignore')
        try:
            if prebuilt is None: units, fstreams = build_ex(g)
            else: units, fstreams = prebuilt
            ordered = [units[i] for i in perm]
            nf = len(g['feeds'])
            # reach counters of the added branches (before the call: a branch that always raises is still a reached branch)
            if kind == 'subset':
                rec.hit('subset')
                if cyclic: rec.hit('subset:cyclic')
            elif kind == 'self-loop': rec.hit('self-loop')
            elif kind == 'missing-inlet':
                rec.hit('missing-inlet')
                rec.hit('missing-inlet:with-F_mass' if g.get('msfix') else 'missing-inlet:bare')
                if g.get('source_units'): rec.hit('missing-inlet:source-unit')
            if g.get('feedmode') and (nf >= 2 or g['feedmode'] == 'all-zero'): rec.hit('feeds:' + g['feedmode'])
            if g.get('priority'): rec.hit('feeds:priority')
            if g.get('var'): rec.hit('variable-ports')
            if form != 'list': rec.hit('form:' + form)
            if call != 'default': rec.hit('call:' + call)
            if cyclic:
                # input class of the case, from the case dict alone (before the call: a class that always raises is still a reached class); the rates of the recorded
                # loop-joining findings are taken over these counters
                struct = structure_of(g, perm)
                if struct == 'acyclic': raise AssertionError('case marked cyclic but the induced graph has no cycle')
                rec.hit(('sweep:' if swp else '') + 'struct:' + struct)
                if struct == 'interlocking-loops' and len(g['back']) >= 3: rec.hit('struct:interlocking-loops:3-back-edges')
            if form == 'generator':
                # from_units walks `units` twice (network.py from_units: set(units), then a list comprehension over units): a one-shot iterator
                # is not a "unit list" (quantifier) — observed, counted, not judged
                net = Network.from_units(u for u in ordered)
                lost = set(flatten(net)) != set(ordered)
                rec.refuse('units given as a one-shot iterator: ' + ('units lost from the path' if lost else 'path complete') + ' (not a unit list: not judged)')
                return
            arg = ordered
            if form == 'tuple': arg = tuple(ordered)
            elif form == 'dict-keys': arg = {u: None for u in ordered}.keys()
            try:
                if call == 'default': net = Network.from_units(arg)
                elif call == 'ends-none': net = Network.from_units(arg, ends=None)
                elif call == 'ends-empty': net = Network.from_units(arg, ends=())
                elif call == 'ends-products':
                    # what from_units itself takes when `ends` is not given: the outlets that leave the given set
                    inside = set(ordered)
                    net = Network.from_units(arg, ends=[s for u in ordered for s in u.outs if s.sink not in inside])
                elif call == 'ends-some-leaving':
                    # a non-empty part of the outlets that leave the given set ("end streams of the system which are not products"): from_units then takes
                    # `ends` as given, and the other outlets that leave the set are stopped only by the membership test of the walk
                    inside = set(ordered)
                    net = Network.from_units(arg, ends=[s for u in ordered for s in u.outs if s.sink not in inside][::2])
                elif call == 'recycles-false': net = Network.from_units(arg, recycles=False)
                elif call == 'interaction-false': net = Network.from_units(arg, interaction=False)
                elif call == 'feedstock':
                    fs = case['fs']
                    net = Network.from_feedstock(fstreams[fs], [s for k, s in enumerate(fstreams) if k != fs], units=arg)
                else: raise KeyError(call)
            except Exception as e:
                # exceptions are recorded under the statement's clause (cyclic / acyclic) for every graph kind: the key names the raising mechanism (exception type @ function),
                # so a recorded mechanism met through an added graph kind is the same finding; the kind is named in the witness text
                what = f'Network.from_units raised {type(e).__name__}: {str(e)[:150]} ({len(units)} units, {len(g["back"])} back-edges, {struct if cyclic else "acyclic"}, graph kind {kind or "plain"}{vt and ", " + vt[1:]}){deco}'
                ek = exc_key(e)
                if cyclic and ek == 'ValueError@Network.join_recycle_network':
                    # the recorded finding is: THIS message, on a flowsheet whose true cycles interlock.  Only that input class keeps the recorded key (an exact key, no glob);
                    # the same raise on a single loop, on disjoint or on properly nested loops, or with another message, is a different (wider) defect and gets its own key
                    rec.hit('exception:join_recycle_network')
                    if str(e) == JOIN_MESSAGE and struct == 'interlocking-loops': key = f'{PID}/cyclic/exception/{ek}' + ('/all-orders-of-one-graph' if swp else '')
                    elif str(e) == JOIN_MESSAGE: key = f'{PID}/cyclic/exception/{ek}/{struct}/back-edges={len(g["back"])}'
                    else: key = f'{PID}/cyclic/exception/{ek}/other-message/{struct}'
                    rec.violation(key, what, detail={'traceback': exc_text(e)})
                else:
                    rec.exception('cyclic' if cyclic else 'acyclic', e, what=what)
                return
        finally:
            if prebuilt is None: release(fstreams)
    path = flatten(net)
    ids = [u.ID for u in path]
    n = len(ordered)
    given = set(perm)
    true_edges = [(e[0], e[2]) for e in g['edges'] + g['back'] if e[0] in given and e[2] in given]
    # path contains exactly the given units
    rec.check(set(path) == set(ordered), clause, 'path-set' + vt, f'path units {sorted(ids)} != given units {sorted(u.ID for u in ordered)}{deco}')
    recycles = net.get_all_recycles()
    pos = {}
    for k, u in enumerate(path): pos.setdefault(u, k)
    # the true streams between the given units, from the case dict (port numbers -> the stream objects the harness itself docked there)
    stream_edges = [(units[e[0]], units[e[2]], id(units[e[0]].outs[e[1]])) for e in g['edges'] + g['back'] if e[0] in given and e[2] in given]
    if not cyclic:
        rec.check(len(path) == n and len(set(path)) == n, clause, 'each-unit-once' + vt, f'acyclic flowsheet: path {ids} does not list every unit exactly once{deco}')
        bad = [(f'U{a}', f'U{b}') for a, b in true_edges if units[a] in pos and units[b] in pos and pos[units[a]] >= pos[units[b]]]
        rec.check(not bad, clause, 'order' + vt, f'acyclic flowsheet: units appear before units that feed them: {bad[:4]} in path {ids}{deco}')
        rec.check(not recycles, clause, 'no-recycle' + vt, f'acyclic flowsheet reports recycle streams {recycles}{deco}')
    else:
        rec.check(len(recycles) >= 1, clause, 'recycle-reported' + vt, f'cyclic flowsheet ({len(g["back"])} back-edges) reports no recycle; path {ids}{deco}')
        # a reported recycle is a stream of the flowsheet: docked at (an inlet or outlet of) one of the given units
        docked = set()
        for u in ordered:
            docked.update(id(s) for s in u.ins); docked.update(id(s) for s in u.outs)
        stray = [repr(r) for r in recycles if id(r) not in docked]
        rec.check(not stray, clause, 'recycle-is-flowsheet-stream' + vt, f'reported recycle(s) {stray[:3]} are not inlets/outlets of the given units; path {ids}{deco}')
        rec.hit('recycle-is-flowsheet-stream')
        # "a path that contains exactly the given units": each once, also when the flowsheet has cycles (a unit listed twice is simulated twice per pass).  The key carries
        # the structure of the true cycles: the recorded finding (a unit kept in the outer path after a sub-network took it over) belongs to interlocking loops (rarely nested ones, and disjoint ones of a sub-set)
        dup = len(path) != len(set(path))
        if dup:
            seen_ = set(); twice = []
            for u in path:
                if u in seen_ and u.ID not in twice: twice.append(u.ID)
                seen_.add(u)
            rec.hit(('sweep:' if swp else '') + 'cyclic:unit-listed-twice')       # what the rate of the follow-up finding (stray recycles between sibling networks that share a unit) is taken over
            rec.check(False, clause, f'each-unit-once{SW}/{struct}' + vt, f'cyclic flowsheet ({struct}, {len(g["back"])} back-edges): path {ids} lists {twice} more than once{deco}')
        else: rec.ok(clause)
        rec.hit('cyclic:each-unit-once')
        # a recycle is a stream of its own loop: it leaves a unit of the network it is reported for and enters a unit of that network (both of them given units)
        lnets = loop_networks(net)
        outside = []; feedlike = True
        for ln, rs in lnets:
            inl = set(flatten(ln))
            for r in rs:
                src = getattr(r, 'source', None); snk = getattr(r, 'sink', None)
                if not (src in inl and snk in inl):
                    outside.append(f'{getattr(src, "ID", src)}->{getattr(snk, "ID", snk)} for loop {sorted(u.ID for u in inl)}')
                    if src is not None: feedlike = False
        if not outside: rec.ok(clause)
        else:
            # mechanism in the key: what the stray recycle is (a stream without source, i.e. a feed of the flowsheet / another stream), whether the path also lists a unit twice
            # (sibling networks that share a unit make the library take all streams of that unit, feeds included, as recycles), and the structure of the true cycles
            rsfx = ('/feed-as-recycle' if feedlike else '/stream-of-other-units') + ('+unit-listed-twice' if dup else '') + '/' + struct
            rec.check(False, clause, 'recycle-inside-own-loop' + SW + rsfx + vt, f'reported recycle(s) do not connect two units of the network they are reported for: {outside[:3]}; path {ids}{deco}')
        rec.hit('recycle-inside-own-loop')
        # the reported recycles cut every true cycle: without them the flowsheet (true graph, from the case dict) is acyclic.  A cycle that carries no recycle is iterated
        # nowhere, whatever the order of the path (an order-free reading of "follows material flow" for cyclic flowsheets; the streams are identified by object, so parallel
        # streams between the same two units count separately)
        rids = {id(r) for r in recycles}
        rest = [(ua, ub) for ua, ub, sid in stream_edges if sid not in rids]
        if _acyclic(ordered, rest): rec.ok(clause)
        else:
            rec.check(False, clause, f'cycle-without-recycle/{struct}' + vt, f'a true cycle of the flowsheet carries none of the reported recycles {[f"{r.source.ID}->{r.sink.ID}" for r in recycles if getattr(r, "source", None) and getattr(r, "sink", None)]}; path {ids}{deco}')
        rec.hit('cyclic:cycle-without-recycle')
        # order inside every network level (not judged when a unit is listed twice: positions are then ambiguous, and the case is already reported above)
        if not dup:
            found = []
            order_inside_networks(net, stream_edges, found)
            lv = '+'.join(sorted({k for k, _ in found}))
            if not found: rec.ok(clause)
            else: rec.check(False, clause, f'order-inside-networks/{lv}/{struct}' + vt, f'the path does not follow the material flow inside its networks: {"; ".join(t for _, t in found[:2])}; path {ids}{deco}')
            rec.hit('cyclic:order-inside-networks')
            if lnets and lnets[0][0] is net: rec.hit('cyclic:order-inside-networks:top-level-is-loop')
        else:
            rec.refuse(f'order inside the networks of a cyclic path not judged: a unit is listed twice (reported under each-unit-once/{struct})')
        lps = loops(net)
        bad = []
        for a, b in true_edges:
            ua, ub = units[a], units[b]
            if ua in pos and ub in pos and pos[ua] > pos[ub]:
                if not any(ua in l and ub in l for l in lps): bad.append((ua.ID, ub.ID))
        bsfx = ''
        if bad:
            # mechanism: do the two ends of every such stream lie on one cycle of the true flowsheet (one strongly connected component)?  Then a common recycle loop
            # exists and the library failed to report it (interlocking loops); otherwise the path order itself is wrong.
            adj = {}
            for a_, b_ in true_edges: adj.setdefault(a_, set()).add(b_)
            def reach(src):
                seen, stack = set(), [src]
                while stack:
                    x = stack.pop()
                    for y in adj.get(x, ()):
                        if y not in seen: seen.add(y); stack.append(y)
                return seen
            idx_of = {u.ID: k_ for k_, u in enumerate(units)}
            same = all(idx_of[b_] in reach(idx_of[a_]) and idx_of[a_] in reach(idx_of[b_]) for a_, b_ in bad)
            if same:
                # 'both ends on one true cycle' holds for nearly every misplaced unit of a cyclic flowsheet, so it does not identify the recorded finding.  That one is:
                # interlocking true cycles AND >= 3 back-edges AND a unit listed twice in the path.  Everything else gets a key of its own (which does not start with the recorded one)
                if struct == 'interlocking-loops' and len(g['back']) >= 3 and dup: bsfx = '/ends-on-one-true-cycle/interlocking-loops+3-back-edges+unit-listed-twice'
                else: bsfx = f'/both-ends-on-a-true-cycle/{struct}/back-edges={len(g["back"])}' + ('/unit-listed-twice' if dup else '')
        rec.check(not bad, clause, 'backward-edge-outside-loop' + bsfx + vt, f'streams run against the path order between units that share no recycle loop: {bad[:4]}; path {ids}{deco}')
        if not kind and (len(lps) >= 2 or len(recycles) >= 2): rec.hit('cyclic:nested-or-multi')
    rec.hit(clause)
    branch = any(len([e for e in true_edges if e[0] == k]) >= 2 for k in given)
    if n >= 3 and (len(g['feeds']) >= 2 or branch or cyclic): rec.mark_nontrivial(case_hash(case))


def replay(case, rec):
    tmo.settings.set_thermo(['Water'], cache=True)
    run_case(case, rec)


# witnesses of recorded findings, replayed first in every run (so a listed finding is always re-observed or seen to be gone)
REGRESSION = [
    {"g": {"units": [[1, 2], [1, 2], [3, 1], [2, 2]], "edges": [[0, 1, 1, 0], [1, 1, 2, 1], [1, 0, 2, 2], [0, 0, 3, 1]], "back": [[2, 0, 0, 0], [3, 1, 2, 0]],
           "feeds": [[3, 0, 4.552]], "cyclic": True}, "perm": [0, 1, 2, 3]},
    # the same recorded mechanism on three units (found through the unconnected-inlet graphs, where feeds cluster at the tail of a chain of back-edges):
    # U0(2->1) -> U1(2->2) -> U2(3->2), U1 -> U0, U2 -> U1, small feed into U0, the largest feed into U2
    {"g": {"units": [[2, 1], [2, 2], [3, 2]], "edges": [[0, 0, 1, 0], [1, 0, 2, 0]], "back": [[1, 1, 0, 1], [2, 0, 1, 1]],
           "feeds": [[2, 1, 4.287], [2, 2, 5.496], [0, 0, 1.0]], "cyclic": True}, "perm": [0, 1, 2]},
    # the same raise on the smallest interlocking flowsheet found: U0 <-> U1 and U0 <-> U2, one feed into U2
    {"g": {"units": [[2, 2], [1, 1], [2, 3]], "edges": [[0, 1, 1, 0], [0, 0, 2, 1]], "back": [[1, 0, 0, 0], [2, 0, 0, 1]], "feeds": [[2, 0, 3.252]], "cyclic": True}, "perm": [0, 1, 2]},
    # a unit listed twice (each-unit-once/interlocking-loops): feed -> U2, U0 -> U1 -> U2, U2 -> U1, U1 -> U0; path U2, [U2, U1, U0]
    {"g": {"units": [[1, 1], [2, 3], [2, 2]], "edges": [[0, 0, 1, 0], [1, 0, 2, 0]], "back": [[2, 0, 1, 1], [1, 2, 0, 0]], "feeds": [[2, 1, 33.266]], "cyclic": True}, "perm": [0, 1, 2]},
    # feeds reported as recycles (recycle-inside-own-loop/feed-as-recycle+unit-listed-twice): sibling loop networks that share units
    {"g": {"units": [[3, 1], [3, 3], [2, 3], [1, 1], [3, 3]], "edges": [[0, 0, 1, 1], [1, 1, 2, 1], [1, 0, 3, 0], [2, 1, 4, 2]], "back": [[3, 0, 0, 2], [2, 0, 1, 0], [4, 1, 2, 0]],
           "feeds": [[0, 0, 8.102], [0, 1, 4.136], [1, 2, 16.637], [4, 0, 27.286], [4, 1, 8.982]], "cyclic": True}, "perm": [0, 1, 2, 3, 4]},
]


def _safe(case, rec, prebuilt=None):
    try:
        run_case(case, rec, prebuilt)
    except Exception as e:
        rec.exception('harness', e, what=f'harness error: {type(e).__name__}: {e}')


def _signature(units):
    return [([id(s) for s in u.ins], [id(s) for s in u.outs], [(id(s._source), id(s._sink)) for s in list(u.ins) + list(u.outs)]) for u in units]


def sweep(g, perms, rec):
    """the remaining orders of an exhaustive sweep, on one built flowsheet (from_units only reads the connections; verified after the sweep)."""
    with warnings.catch_warnings():
        warnings.simplefilter('ignore')
        units, fstreams = build_ex(g)
    try:
        before = _signature(units)
        for p in perms: _safe({'g': g, 'perm': list(p), 'sweep': True}, rec, (units, fstreams))
        if _signature(units) != before:
            rec.violation(f'{PID}/harness/flowsheet-changed-by-from_units', 'the connections of a flowsheet differ after Network.from_units calls: the orders of this sweep were not independent cases',
                          case={'g': g, 'perm': list(perms[-1])})
    finally:
        release(fstreams)


def some_perms(rng, members):
    n = len(members)
    if n <= 4: return [list(p) for p in itertools.permutations(members)]
    perms = [list(members), list(reversed(members))]
    for _ in range(3):
        p = list(members); rng.shuffle(p); perms.append(p)
    return perms


def extras(g, members, rec, xr):
    """other container types for the unit collection and other call forms of the same operation (one at a time, random order of the units)."""
    def order():
        p = list(members); xr.shuffle(p); return p
    if xr.random() < 0.3:
        _safe({'g': g, 'perm': order(), 'form': xr.choice(['tuple', 'dict-keys'])}, rec)
    if xr.random() < 0.05:
        _safe({'g': g, 'perm': order(), 'form': 'generator'}, rec)
    if xr.random() < 0.35:
        cyclic = bool(g.get('cyclic', g['back']))
        calls = [c for c in CALLS if not (c == 'recycles-false' and cyclic) and not (c == 'feedstock' and g.get('kind'))]
        call = xr.choice(calls)
        case = {'g': g, 'perm': order(), 'call': call}
        if call == 'feedstock': case['fs'] = xr.randrange(len(g['feeds']))
        _safe(case, rec)


def run(rec, rng, tier, shard, nshards):
    tmo.settings.set_thermo(['Water'], cache=True)
    if shard == 0:
        for case in REGRESSION: run_case(case, rec)
    xr = random.Random(rng.getrandbits(48))     # the added branches draw from their own stream
    ngraphs = 1000 if tier == 'quick' else 15000
    done = 0; six = 0
    while done < ngraphs:
        cyclic = rng.random() < 0.5
        g = gen_graph(rng, cyclic)
        if g is None: continue
        done += 1
        decorate(g, xr)
        n = len(g['units'])
        if n <= 4: perms = list(itertools.permutations(range(n)))
        else:
            perms = [list(range(n)), list(reversed(range(n)))]
            for _ in range(3):
                p = list(range(n)); rng.shuffle(p); perms.append(p)
        for p in perms:
            case = {'g': g, 'perm': list(p)}
            try:
                run_case(case, rec)
            except Exception as e:
                rec.exception('harness', e, what=f'harness error: {type(e).__name__}: {e}')
        # every permutation: all 5-unit graphs, every 10th 6-unit graph
        if n == 6: six += 1
        if n == 5 or (n == 6 and six % 10 == 1):
            seen = {tuple(p) for p in perms}
            rest = [p for p in itertools.permutations(range(n)) if p not in seen]
            sweep(g, rest, rec)
            rec.hit(f'perm:exhaustive-{n}')
        extras(g, list(range(n)), rec, xr)
        if done % 101 == 0: rec.sample({'g': g, 'perm': list(perms[-1])})
    # added graph kinds
    nx = 160 if tier == 'quick' else 2500
    for kind in ('subset', 'self-loop', 'missing-inlet'):
        made = 0
        while made < nx:
            if kind == 'subset':
                g = gen_subset(xr, xr.random() < 0.5)
            elif kind == 'self-loop':
                g = gen_graph_x(xr, True, selfloop=True)
                if g is not None: g['kind'] = 'self-loop'
            else:
                g = gen_graph_x(xr, xr.random() < 0.5, p_missing=0.2)
                if g is not None:
                    g['kind'] = 'missing-inlet'
                    # one graph in four keeps the library's own placeholder class; the others use one that carries F_mass
                    if made % 4: g['msfix'] = True
            if g is None: continue
            made += 1
            decorate(g, xr)
            members = g['subset'] if kind == 'subset' else list(range(len(g['units'])))
            for p in some_perms(xr, members): _safe({'g': g, 'perm': p}, rec)
            extras(g, members, rec, xr)
            if made % 67 == 0: rec.sample({'g': g, 'perm': list(members)})
