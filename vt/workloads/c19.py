"""C19 — simulation order derived from a flowsheet is complete and follows material flow.

Monitor: Network.from_units is run on real unit graphs (random DAGs, optional back-edges, permutations of the unit list);
the flattened path, the reported recycles and the nesting are compared with the true unit/stream graph (plain DFS).
"""
import itertools, warnings
import thermosteam as tmo
from thermosteam.network import Network, AbstractUnit
from vt.core import case_hash

PID = 'C19'
RULE = ('random connected DAGs of 2-10 units with 1-3 inlets/outlets each, several feeds (real Streams with distinct mass flows) and products; every permutation of the unit list '
        'for <=4 units, otherwise 3 random permutations (+ identity and reverse); the same graphs with 1-3 back-edges (no self-loops) such that every unit still reaches a product. '
        'non-trivial = >=3 units and (>=2 feeds or a branch or a cycle); distinct = hash of (graph, permutation)')
MIN_NONTRIVIAL = {'quick': 500, 'thorough': 20000}
ASSUMPTIONS = ['units are bare AbstractUnit subclasses using tmo.Stream (feed ranking reads F_mass)']


def required(tier):
    return ['acyclic', 'cyclic', 'cyclic:nested-or-multi']


_classes = {}


def ucls(nin, nout):
    c = _classes.get((nin, nout))
    if c is None:
        c = type(f'N{nin}{nout}', (AbstractUnit,), dict(_N_ins=nin, _N_outs=nout, Stream=tmo.Stream))
        _classes[(nin, nout)] = c
    return c


def gen_graph(rng, cyclic):
    n = rng.randrange(2, 11)
    units = []   # (nin, nout)
    free_outs = []   # (unit, port)
    edges = []   # (src_unit, src_port, dst_unit, dst_port)
    feeds = []   # (dst_unit, dst_port, mass)
    for k in range(n):
        nin, nout = rng.randrange(1, 4), rng.randrange(1, 4)
        units.append((nin, nout))
        connected = False
        for p in range(nin):
            if free_outs and (rng.random() < 0.6 or (not connected and p == nin - 1 and k > 0)):
                so = free_outs.pop(rng.randrange(len(free_outs)))
                edges.append((so[0], so[1], k, p)); connected = True
            else:
                feeds.append((k, p, round(10 ** rng.uniform(0, 3), 3) + len(feeds)))
        if k > 0 and not connected:
            return None
        for p in range(nout): free_outs.append((k, p))
    back = []
    if cyclic:
        for _ in range(rng.randrange(1, 4)):
            # a free outlet of a later unit replaces a feed inlet of an earlier unit
            cands = [(fo, fi) for fo in free_outs for fi in range(len(feeds)) if fo[0] > feeds[fi][0]]
            if not cands: break
            fo, fi = rng.choice(cands)
            f = feeds[fi]
            # keep at least one feed in the flowsheet
            if len(feeds) <= 1: break
            free_outs.remove(fo); feeds.pop(fi)
            back.append((fo[0], fo[1], f[0], f[1]))
        if not back: return None
    g = {'units': units, 'edges': edges, 'back': back, 'feeds': feeds}
    # every unit must reach a product (a free outlet somewhere downstream)
    succ = {k: set() for k in range(n)}
    for e in edges + back: succ[e[0]].add(e[2])
    has_product = {fo[0] for fo in free_outs}
    for k in range(n):
        seen = {k}; st = [k]; ok = False
        while st:
            x = st.pop()
            if x in has_product: ok = True; break
            for y in succ[x]:
                if y not in seen: seen.add(y); st.append(y)
        if not ok: return None
    # ... and must be reachable from a feed (a loop that no feed enters is not a flowsheet the property talks about)
    fed = {f[0] for f in feeds}
    seen = set(fed); st = list(fed)
    while st:
        x = st.pop()
        for y in succ[x]:
            if y not in seen: seen.add(y); st.append(y)
    if len(seen) != n: return None
    # true cyclicity (an edge from a later-created unit to an earlier one closes a cycle only if the earlier one reaches it)
    def reaches(a, b):
        seen = {a}; st = [a]
        while st:
            x = st.pop()
            if x == b: return True
            for y in succ[x]:
                if y not in seen: seen.add(y); st.append(y)
        return False
    g['cyclic'] = any(reaches(e[2], e[0]) for e in back)
    if cyclic and not g['cyclic']: return None
    return g


def build(g):
    units = []
    for k, (nin, nout) in enumerate(g['units']):
        u = ucls(nin, nout)(None)
        u._ID = f'U{k}'
        units.append(u)
    for k, (du, dp, mass) in enumerate(g['feeds']):
        s = tmo.Stream(None, Water=mass, units='kg/hr'); s._ID = f'feed{k}'
        units[du].ins[dp] = s
    for (su, spt, du, dp) in g['edges'] + g['back']:
        units[du].ins[dp] = units[su].outs[spt]
    return units


def flatten(net):
    out = []
    for i in net.path:
        if isinstance(i, Network): out += flatten(i)
        else: out.append(i)
    return out


def loops(net, acc=None):
    """list of (set of units, recycle) for every (sub)network that carries a recycle."""
    if acc is None: acc = []
    if net.recycle:
        acc.append(set(flatten(net)))
    for i in net.path:
        if isinstance(i, Network): loops(i, acc)
    return acc


def run_case(case, rec):
    rec.begin_case(case)
    g = case['g']; perm = case['perm']
    cyclic = bool(g.get('cyclic', g['back']))
    clause = 'cyclic' if cyclic else 'acyclic'
    with warnings.catch_warnings():
        warnings.simplefilter('ignore')
        units = build(g)
        ordered = [units[i] for i in perm]
        try:
            net = Network.from_units(ordered)
        except Exception as e:
            rec.exception(clause, e, what=f'Network.from_units raised {type(e).__name__}: {str(e)[:150]} ({len(units)} units, {len(g["back"])} back-edges)')
            return
    path = flatten(net)
    ids = [u.ID for u in path]
    n = len(units)
    true_edges = [(e[0], e[2]) for e in g['edges'] + g['back']]
    tag = clause
    # path contains exactly the given units
    rec.check(set(path) == set(units), clause, 'path-set', f'path units {sorted(ids)} != given units {sorted(u.ID for u in units)}')
    recycles = net.get_all_recycles()
    pos = {}
    for k, u in enumerate(path): pos.setdefault(u, k)
    if not cyclic:
        rec.check(len(path) == n and len(set(path)) == n, clause, 'each-unit-once', f'acyclic flowsheet: path {ids} does not list every unit exactly once')
        bad = [(f'U{a}', f'U{b}') for a, b in true_edges if units[a] in pos and units[b] in pos and pos[units[a]] >= pos[units[b]]]
        rec.check(not bad, clause, 'order', f'acyclic flowsheet: units appear before units that feed them: {bad[:4]} in path {ids}')
        rec.check(not recycles, clause, 'no-recycle', f'acyclic flowsheet reports recycle streams {recycles}')
    else:
        rec.check(len(recycles) >= 1, clause, 'recycle-reported', f'cyclic flowsheet ({len(g["back"])} back-edges) reports no recycle; path {ids}')
        lps = loops(net)
        bad = []
        for a, b in true_edges:
            ua, ub = units[a], units[b]
            if ua in pos and ub in pos and pos[ua] > pos[ub]:
                if not any(ua in l and ub in l for l in lps): bad.append((ua.ID, ub.ID))
        rec.check(not bad, clause, 'backward-edge-outside-loop', f'streams run against the path order between units that share no recycle loop: {bad[:4]}; path {ids}')
        if len(lps) >= 2 or len(recycles) >= 2: rec.hit('cyclic:nested-or-multi')
    rec.hit(clause)
    branch = any(len([e for e in true_edges if e[0] == k]) >= 2 for k in range(n))
    if n >= 3 and (len(g['feeds']) >= 2 or branch or cyclic): rec.mark_nontrivial(case_hash(case))


def replay(case, rec):
    tmo.settings.set_thermo(['Water'], cache=True)
    run_case(case, rec)


# witnesses of recorded findings, replayed first in every run (so a listed finding is always re-observed or seen to be gone)
REGRESSION = [
    {"g": {"units": [[1, 2], [1, 2], [3, 1], [2, 2]], "edges": [[0, 1, 1, 0], [1, 1, 2, 1], [1, 0, 2, 2], [0, 0, 3, 1]], "back": [[2, 0, 0, 0], [3, 1, 2, 0]],
           "feeds": [[3, 0, 4.552]], "cyclic": True}, "perm": [0, 1, 2, 3]},
]


def run(rec, rng, tier, shard, nshards):
    tmo.settings.set_thermo(['Water'], cache=True)
    if shard == 0:
        for case in REGRESSION: run_case(case, rec)
    ngraphs = 1000 if tier == 'quick' else 15000
    done = 0
    while done < ngraphs:
        cyclic = rng.random() < 0.5
        g = gen_graph(rng, cyclic)
        if g is None: continue
        done += 1
        n = len(g['units'])
        if n <= 4: perms = list(itertools.permutations(range(n)))
        else:
            perms = [list(range(n)), list(reversed(range(n)))]
            for _ in range(3):
                p = list(range(n)); rng.shuffle(p); perms.append(p)
        for p in perms:
            case = {'g': g, 'perm': list(p)}
            try:
                run_case(case, rec)
            except Exception as e:
                rec.exception('harness', e, what=f'harness error: {type(e).__name__}: {e}')
        if done % 101 == 0: rec.sample({'g': g, 'perm': list(perms[-1])})
