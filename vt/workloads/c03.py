"""C03 — phase equilibrium never creates, destroys or makes negative any material.

Monitor (MaterialLedger): the phase x chemical array of the real stream is recorded before and after each equilibrium
call (vle with every supported specification pair, lle, sle, vlle, and the same reached through mix_from(vle=True),
separations.vle / lle and receive_vent); column sums, signs and the placement of phase-locked chemicals are checked.
"""
import warnings
import numpy as np
import thermosteam as tmo
from thermosteam import separations as sep
from vt.core import case_hash
from vt.common import stream_invariant

PID = 'C03'
RULE = ('random compositions over subsets (1-6) of 11 volatile chemicals + gas-locked N2/CO2 + solid/liquid-locked glucose/glycerol, flows 10^U(-3,3), every initial distribution over l/g, specs: '
        'TP, TV, PV, PH, PS, TH, TS, Tx, Ty, Px, Py with T 250-500 K, P 1e4-5e6 Pa, V in {0,1,U(0,1)}, H/S between the V=0.02 and V=0.98 values +-30%; LLE on 2-5 chemicals with a partially miscible pair '
        '(all three methods), SLE with glucose/tetradecanol, vlle; repeated calls on the same stream. only normal returns are judged; documented refusals are counted. '
        'non-trivial = two non-empty phases after the call, or a locked chemical present; distinct = hash of the case')
MIN_NONTRIVIAL = {'quick': 300, 'thorough': 8000}
ASSUMPTIONS = ['only calls that return normally are judged (the quantifier of C03)', 'column sums are compared with relative 1e-12 of the column and absolute 1e-12 of the total flow']
VOL = ('Water', 'Ethanol', 'Methanol', 'Propanol', 'Butanol', 'Hexane', 'Heptane', 'Octane', 'Benzene', 'Toluene', 'Acetone')
REFUSALS = ('InfeasibleRegion', 'NoEquilibrium', 'DomainError', 'UndefinedPhase', 'NotImplementedError')

_locked = {}
_thermo = {}


def required(tier):
    return ['vle:TP', 'vle:TV', 'vle:PV', 'vle:PH', 'vle:PS', 'vle:TH', 'vle:TS', 'vle:Px', 'vle:Tx', 'vle:Py', 'vle:Ty', 'lle', 'sle', 'vlle', 'via:mix_from', 'via:separations.vle', 'via:receive_vent',
            'locked:gas', 'locked:heavy', 'locked-only', 'locked:misplaced', 'single-component', 'repeated-call']


def chem(i):
    if i in ('N2', 'CO2'):
        if i not in _locked: _locked[i] = tmo.Chemical(i, phase='g', cache=False)
        return _locked[i]
    if i == 'Glucose':
        if i not in _locked: _locked[i] = tmo.Chemical(i, phase='s', cache=False)
        return _locked[i]
    if i == 'Glycerol':
        if i not in _locked: _locked[i] = tmo.Chemical(i, phase='l', cache=False)
        return _locked[i]
    if i not in _locked: _locked[i] = tmo.Chemical(i, cache=True)
    return _locked[i]


def thermo(ids):
    k = tuple(ids)
    if k not in _thermo:
        _thermo[k] = tmo.Thermo(tmo.Chemicals([chem(i) for i in ids]))
    return _thermo[k]


def thermo_unlocked(ids):
    k = ('unlocked',) + tuple(ids)
    if k not in _thermo: _thermo[k] = tmo.Thermo(tmo.Chemicals(list(ids), cache=True))
    return _thermo[k]


def gen_case(rng):
    t = rng.choices(['vle', 'vle', 'vle', 'vle', 'lle', 'sle', 'vlle', 'via'], [6, 6, 6, 6, 3, 2, 1, 3])[0]
    c = {'t': t}
    if t in ('vle', 'via', 'vlle'):
        n = rng.choice([0, 1, 2, 2, 3, 3, 4, 5])         # 0: only phase-locked chemicals present
        ids = rng.sample(VOL, n)
        if rng.random() < 0.35 or n == 0: ids.append(rng.choice(['N2', 'CO2']))
        if rng.random() < 0.3 or (n == 0 and rng.random() < 0.7): ids.append(rng.choice(['Glucose', 'Glycerol']))
        c['misplaced'] = rng.random() < 0.5            # locked chemicals start in the phase they cannot exist in (every initial distribution)
        c['ids'] = ids
        c['flows'] = [round(10 ** rng.uniform(-3, 3), 5) if rng.random() < 0.9 else 0.0 for _ in ids]
        if not any(c['flows'][:max(n, 1)]): c['flows'][0] = 1.0
        c['dist'] = [rng.choice([0.0, 1.0, round(rng.random(), 3)]) for _ in ids]    # fraction initially in the gas phase
        pair = rng.choice(['TP', 'TP', 'TV', 'PV', 'PV', 'PH', 'PH', 'PS', 'TH', 'TS', 'Tx', 'Ty', 'Px', 'Py', 'Tx', 'Ty', 'Px', 'Py'])
        if pair[1] in 'xy':
            # binary equilibrium specification: exactly two volatile chemicals, nothing else
            ids = rng.sample(VOL, 2); c['ids'] = ids; n = 2
            c['flows'] = [round(10 ** rng.uniform(-1, 2), 4) for _ in ids]; c['dist'] = [round(rng.random(), 3) for _ in ids]
        c['pair'] = pair
        c['T'] = round(rng.uniform(250, 500), 2); c['P'] = round(10 ** rng.uniform(4, 6.7), 1)
        c['V'] = rng.choice([0.0, 1.0, round(rng.random(), 4), round(rng.random(), 4)])
        c['f'] = round(rng.uniform(-0.3, 1.3), 4)     # position of H / S between the V=0.02 and V=0.98 values
        c['xy'] = round(rng.uniform(0.02, 0.98), 4)
        c['repeat'] = rng.random() < 0.3
        if t == 'via': c['how'] = rng.choice(['mix_from', 'separations.vle', 'receive_vent'])
    elif t == 'lle':
        base = rng.choice([('Water', 'Octane'), ('Water', 'Butanol'), ('Water', 'Hexane'), ('Water', 'Toluene'), ('Water', 'Octanol')])
        extra = rng.sample([i for i in ('Ethanol', 'Methanol', 'Acetone', 'Propanol', 'Heptane') if i not in base], rng.randrange(0, 4))
        c['ids'] = list(base) + extra
        c['flows'] = [round(10 ** rng.uniform(-2, 3), 4) for _ in c['ids']]
        c['T'] = round(rng.uniform(285, 355), 2)
        c['method'] = rng.choice(['pseudo equilibrium', 'pseudo equilibrium', 'shgo', 'differential evolution'])
        c['distL'] = [round(rng.random(), 3) for _ in c['ids']]
        c['top'] = rng.choice([None, c['ids'][0], c['ids'][1]])
        c['repeat'] = rng.random() < 0.4
    elif t == 'sle':
        solute = rng.choice(['Glucose', 'Tetradecanol', 'AceticAcid'])
        solv = rng.sample(['Water', 'Ethanol', 'Methanol', 'Octane'], rng.randrange(1, 4))
        c['ids'] = [solute] + solv; c['solute'] = solute
        c['flows'] = [round(10 ** rng.uniform(-2, 2), 4) for _ in c['ids']]
        c['T'] = round(rng.uniform(250, 450), 2)
        c['solubility'] = rng.choice([None, None, round(rng.random(), 4)])
        c['dist'] = round(rng.random(), 3)
        c['byH'] = rng.random() < 0.15
    return c


def array_of(s):
    return np.array([r.to_array() for r in s.imol.data.rows]), tuple(s.phases)


def judge(rec, clause, tag, before, after, s, case, locked_check=True):
    b, bph = before; a, aph = after
    tot_b = b.sum(0); tot_a = a.sum(0)
    F = tot_b.sum()
    bad = np.abs(tot_a - tot_b) > 1e-12 * np.maximum(np.abs(tot_a), np.abs(tot_b)) + 1e-12 * F
    worst = float((np.abs(tot_a - tot_b) / max(F, 1e-300)).max())
    ids = s.chemicals.IDs
    rec.check(not bad.any(), clause, f'balance/{tag}', f'{tag}: per-chemical totals changed: ' + ', '.join(f'{ids[i]}: {tot_b[i]!r} -> {tot_a[i]!r}' for i in np.where(bad)[0][:4]), residual=worst)
    neg = [(aph[r], ids[j], float(a[r, j])) for r, j in zip(*np.where(a < 0))]
    rec.check(not neg, clause, f'negative/{tag}', f'{tag}: negative phase flows after a normal return: {neg[:4]}')
    if locked_check:
        gi = aph.index('g') if 'g' in aph else None
        for j, c in enumerate(s.chemicals):
            ls = c.locked_state
            if ls == 'g' and tot_a[j] > 0:
                rec.hit('locked:gas')
                rec.check(gi is not None and a[gi, j] == tot_a[j], clause, f'gas-locked/{tag}', f'{tag}: gas-only chemical {c.ID} not entirely in the gas phase: ' + str({p: float(a[r, j]) for r, p in enumerate(aph)}))
            elif ls in ('l', 's') and tot_a[j] > 0:
                rec.hit('locked:heavy')
                rec.check(gi is None or a[gi, j] == 0, clause, f'heavy-locked/{tag}', f'{tag}: {ls}-only chemical {c.ID} appears in the gas phase: {float(a[gi, j]) if gi is not None else 0}')
    e = stream_invariant(s)
    rec.check(e is None, 'invariant', tag, f'sparse invariant after {tag}: {e}')
    nonempty = sum(1 for r in a if r.sum() > 0)
    if nonempty >= 2 or any(c.locked_state for j, c in enumerate(s.chemicals) if tot_a[j] > 0): rec.mark_nontrivial(case_hash(case))


def make_stream(case, th):
    s = tmo.MultiStream(None, phases=('g', 'l'), T=case.get('T', 300.), P=case.get('P', 101325.), thermo=th)
    for i, v, d in zip(case['ids'], case['flows'], case['dist']):
        if not v: continue
        ls = chem(i).locked_state
        if ls and case.get('misplaced'):
            if d > 0: s.imol['g', i] = v * d
            if d < 1: s.imol['l', i] = v * (1 - d)
        elif ls == 'g': s.imol['g', i] = v
        elif ls: s.imol['l', i] = v
        else:
            if d > 0: s.imol['g', i] = v * d
            if d < 1: s.imol['l', i] = v * (1 - d)
    return s


def refused(e):
    # C03 quantifies over calls that return normally: any raise (documented refusal or numerical failure inside a solver) is counted, not judged.
    # Programming errors in the call path (TypeError, AttributeError, KeyError, IndexError, NameError) are still reported.
    return not isinstance(e, (TypeError, AttributeError, KeyError, IndexError, NameError, UnboundLocalError))


def vle_spec(case, s):
    """returns kwargs for s.vle(...) ; H / S targets are positioned between the V=0.02 and V=0.98 values at the fixed T or P."""
    pair = case['pair']
    T, P, V = case['T'], case['P'], case['V']
    if pair == 'TP': return {'T': T, 'P': P}
    if pair == 'TV': return {'T': T, 'V': V}
    if pair == 'PV': return {'P': P, 'V': V}
    if pair in ('PH', 'PS', 'TH', 'TS'):
        fixed = {'P': P} if pair[0] == 'P' else {'T': T}
        probe = s.copy()
        probe.vle(V=0.02, **fixed); lo = probe.H if pair[1] == 'H' else probe.S
        probe.vle(V=0.98, **fixed); hi = probe.H if pair[1] == 'H' else probe.S
        val = lo + case['f'] * (hi - lo)
        return {**fixed, pair[1]: val}
    if pair in ('Tx', 'Ty', 'Px', 'Py'):
        fixed = {'P': P} if pair[0] == 'P' else {'T': T}
        zA = case['flows'][0] / sum(case['flows'])
        v = min(max(zA * (0.6 + 0.8 * case['xy']), 0.01), 0.99)     # near the overall composition so that the lever rule is often feasible
        return {**fixed, pair[1]: [v, 1 - v]}
    raise ValueError(pair)


def run_case(case, rec):
    rec.begin_case(case)
    t = case['t']
    with warnings.catch_warnings():
        warnings.simplefilter('ignore')
        try:
            th = thermo(case['ids'])
        except Exception as e:
            rec.exception('setup', e, what=f'building thermo for {case["ids"]} raised {type(e).__name__}: {e}'); return
        tmo.settings.set_thermo(th)
        if t in ('vle', 'via'):
            s = make_stream(case, th)
            nvol = sum(1 for i, v in zip(case['ids'], case['flows']) if v and not chem(i).locked_state)
            try:
                spec = vle_spec(case, s)
            except Exception as e:
                if refused(e): rec.refuse(f'spec probe refused: {type(e).__name__}'); return
                rec.exception('vle:' + case['pair'], e, what=f'probing the H/S range for {case["pair"]} raised {type(e).__name__}: {str(e)[:120]}'); return
            before = array_of(s)
            tag = 'vle:' + case['pair']
            try:
                if t == 'vle':
                    s.vle(**spec)
                    after = array_of(s)
                    tgt = s
                else:
                    how = case['how']; tag = f'{how}/{case["pair"]}'
                    if how == 'mix_from':
                        a_ = tmo.Stream(None, thermo=th, T=case['T'], P=case['P'], phase='l'); b_ = tmo.Stream(None, thermo=th, T=min(case['T'] + 40, 500), P=case['P'], phase='g')
                        arr = before[0]
                        for j, i in enumerate(th.chemicals.IDs):
                            if arr[1, j]: a_.imol[i] = arr[1, j]
                            if arr[0, j]: b_.imol[i] = arr[0, j]
                        if a_.isempty() or b_.isempty(): rec.refuse('one inlet empty'); return
                        recv = tmo.MultiStream(None, phases=('g', 'l'), thermo=th)
                        recv.mix_from([a_, b_], energy_balance=True, vle=True)
                        tgt = recv; after = array_of(recv) if isinstance(recv, tmo.MultiStream) else (np.array([recv.imol.data.to_array()]), (recv.phase,))
                        before = (np.array([arr.sum(0)]), ('mix',))
                        rec.hit('via:mix_from')
                    elif how == 'separations.vle':
                        feed = s; vap = tmo.Stream(None, thermo=th); liq = tmo.Stream(None, thermo=th)
                        kw = {k: v for k, v in spec.items() if k in ('T', 'P', 'V', 'x', 'y')}
                        if len(kw) != 2: rec.refuse('spec pair not offered by separations.vle'); return
                        sep.vle(feed, vap, liq, **kw)
                        after = (np.array([vap.imol.data.to_array(), liq.imol.data.to_array()]), ('g', 'l'))
                        tgt = None
                        rec.check(np.array_equal(array_of(feed)[0], before[0]), tag, 'feed-changed', 'separations.vle changed the feed')
                        rec.hit('via:separations.vle')
                    else:
                        # receive_vent: a liquid stream receives a gas vent and equilibrates
                        liq = tmo.Stream(None, thermo=th, T=case['T'], P=case['P'], phase='l'); vent = tmo.Stream(None, thermo=th, T=case['T'], P=case['P'], phase='g')
                        arr = before[0]
                        for j, i in enumerate(th.chemicals.IDs):
                            if arr[1, j]: liq.imol[i] = arr[1, j]
                            if arr[0, j]: vent.imol[i] = arr[0, j]
                        if liq.isempty() or vent.isempty(): rec.refuse('one side empty'); return
                        vent.receive_vent(liq, energy_balance=False)
                        after = (np.array([vent.imol.data.to_array(), liq.imol.data.to_array()]), ('g', 'l'))
                        before = (np.array([arr[0], arr[1]]), ('g', 'l'))
                        tgt = None
                        rec.hit('via:receive_vent')
            except Exception as e:
                if refused(e): rec.refuse(f'{tag}: {type(e).__name__}'); return
                if isinstance(e, AssertionError): rec.refuse('assertion on the number of specs'); return
                rec.exception(tag.split('/')[0] if t == 'vle' else 'via', e, what=f'{tag} on {case["ids"]} raised {type(e).__name__}: {str(e)[:140]}'); return
            if t == 'vle':
                rec.hit(tag)
                if nvol == 0: rec.hit('locked-only')
                if case.get('misplaced') and any(chem(i).locked_state for i in case['ids']): rec.hit('locked:misplaced')
                if nvol == 1: rec.hit('single-component')
                judge(rec, tag, tag, before, after, s, case)
                if case.get('repeat'):
                    # solver objects are cached per stream: a second call with another spec on the same stream
                    b2 = array_of(s)
                    try:
                        s.vle(T=case['T'] + 7.5, P=case['P'])
                        judge(rec, 'repeated-call', 'repeated-call', b2, array_of(s), s, case)
                        rec.hit('repeated-call')
                    except Exception as e:
                        if refused(e): rec.refuse('repeat refused')
                        else: rec.exception('repeated-call', e, what=f'second vle call raised {type(e).__name__}: {str(e)[:120]}')
            else:
                class S_: pass
                # judge against a pseudo stream description
                dummy = tgt if tgt is not None else s
                b = before; a = after
                tot_b = b[0].sum(0); tot_a = a[0].sum(0); F = tot_b.sum()
                bad = np.abs(tot_a - tot_b) > 1e-12 * np.maximum(np.abs(tot_a), np.abs(tot_b)) + 1e-12 * F
                ids = th.chemicals.IDs
                rec.check(not bad.any(), 'via', f'balance/{case["how"]}', f'{tag}: per-chemical totals changed: ' + ', '.join(f'{ids[i]}: {tot_b[i]!r} -> {tot_a[i]!r}' for i in np.where(bad)[0][:4]))
                rec.check(not (a[0] < 0).any(), 'via', f'negative/{case["how"]}', f'{tag}: negative flows after a normal return')
                if (a[0].sum(1) > 0).sum() >= 2: rec.mark_nontrivial(case_hash(case))
        elif t == 'vlle':
            s = make_stream(case, th)
            before_tot = array_of(s)[0].sum(0)
            try:
                s.vlle(case['T'], case['P'])
            except Exception as e:
                if refused(e): rec.refuse(f'vlle: {type(e).__name__}'); return
                rec.exception('vlle', e, what=f'vlle on {case["ids"]} raised {type(e).__name__}: {str(e)[:140]}'); return
            a, aph = array_of(s) if isinstance(s, tmo.MultiStream) else (np.array([s.imol.data.to_array()]), (s.phase,))
            rec.hit('vlle')
            judge(rec, 'vlle', 'vlle', (np.array([before_tot]), ('all',)), (a, aph), s, case)
        elif t == 'lle':
            s = tmo.MultiStream(None, phases=('L', 'l'), T=case['T'], thermo=th)
            for i, v, d in zip(case['ids'], case['flows'], case['distL']):
                s.imol['L', i] = v * d; s.imol['l', i] = v * (1 - d)
            before = array_of(s)
            try:
                lle = s.lle
                lle.method = case['method']
                lle(case['T'], top_chemical=case['top'])
            except Exception as e:
                if refused(e): rec.refuse(f'lle: {type(e).__name__}'); return
                rec.exception('lle', e, what=f'lle({case["method"]}) on {case["ids"]} raised {type(e).__name__}: {str(e)[:140]}'); return
            rec.hit('lle')
            judge(rec, 'lle', f'lle/{case["method"]}', before, array_of(s), s, case, locked_check=False)
            if case['repeat']:
                b2 = array_of(s)
                try:
                    s.lle(case['T'] + 11.0)
                    judge(rec, 'repeated-call', 'lle-repeated', b2, array_of(s), s, case, locked_check=False); rec.hit('repeated-call')
                except Exception as e:
                    if refused(e): rec.refuse('repeat refused')
                    else: rec.exception('repeated-call', e, what=f'second lle call raised {type(e).__name__}: {str(e)[:120]}')
        elif t == 'sle':
            th = thermo_unlocked(case['ids']); tmo.settings.set_thermo(th)
            s = tmo.MultiStream(None, phases=('s', 'l'), T=case['T'], thermo=th)
            for k, (i, v) in enumerate(zip(case['ids'], case['flows'])):
                if k == 0:
                    s.imol['s', i] = v * case['dist']; s.imol['l', i] = v * (1 - case['dist'])
                else: s.imol['l', i] = v
            before = array_of(s)
            try:
                kw = {'solubility': case['solubility']} if case['solubility'] is not None else {}
                if case['byH']: s.sle(case['solute'], H=s.H, **kw)
                else: s.sle(case['solute'], T=case['T'], **kw)
            except Exception as e:
                if refused(e): rec.refuse(f'sle: {type(e).__name__}'); return
                rec.exception('sle', e, what=f'sle on {case["ids"]} raised {type(e).__name__}: {str(e)[:140]}'); return
            rec.hit('sle')
            judge(rec, 'sle', 'sle', before, array_of(s), s, case, locked_check=False)


def replay(case, rec):
    run_case(case, rec)


def run(rec, rng, tier, shard, nshards):
    n = 260 if tier == 'quick' else 4000
    for i in range(n):
        case = gen_case(rng)
        try:
            run_case(case, rec)
        except Exception as e:
            rec.exception('harness', e, what=f'harness error: {type(e).__name__}: {e}')
        if i % 67 == 0: rec.sample(case)
