"""C03 — phase equilibrium never creates, destroys or makes negative any material.

Monitor (MaterialLedger): the phase x chemical array of the real stream is recorded before and after each equilibrium
call (vle with every supported specification pair, lle, sle, vlle, and the same reached through mix_from(vle=True),
separations.vle / lle and receive_vent); column sums, signs and the placement of phase-locked chemicals are checked.
"""
import warnings
import numpy as np
import thermosteam as tmo
from thermosteam import separations as sep
from vt.core import case_hash, exc_key
from vt.common import stream_invariant

PID = 'C03'
RULE = ('random compositions over subsets (1-6) of 11 volatile chemicals + gas-locked N2/CO2 + solid/liquid-locked glucose/glycerol, flows 10^U(-3,3), every initial distribution over l/g, specs: '
        'TP, TV, PV, PH, PS, TH, TS, Tx, Ty, Px, Py with T 250-500 K, P 1e4-5e6 Pa, V in {0,1,U(0,1)}, H/S between the V=0.02 and V=0.98 values +-30%; LLE on 2-5 chemicals with a partially miscible pair '
        '(all three methods), SLE with glucose/tetradecanol, vlle; repeated calls on the same stream. only normal returns are judged; a raise is counted as a refusal only when it is a documented refusal '
        'of that operation on that input class (NoEquilibrium with nothing volatile, AssertionError on x / y with a locked chemical flowing, UndefinedPhase on vlle with solid material, no solute on sle, '
        'InfeasibleRegion on x / y, cannot-solve-for-pressure on T-H / T-S) or a numerical failure inside a solver; any other raise is reported; refusal rates per operation have ceilings and reach counters floors (per shard). '
        'second family: initial distributions over 2-4 rows (g, l, L, s) followed by 1-3 calls of different kinds (vle / lle / vlle / sle) on the one stream, single-phase Stream receivers (g / l / s), '
        'separations.lle (efficiency 1, (0,1), 0; multi_stream) and separations.vle(Q=, multi_stream=), placement of locked chemicals after mix_from(vle=True) / receive_vent (energy balance and ideal on / off; corners where a locked '
        'chemical\'s vapour pressure crosses P), x / y on packages with zero-flow and locked members incl. x = z, VLE method shgo, LLE call forms (P, single_loop, use_cache, update=False), three-phase vlle at 1e-3..1e3, '
        'second call after the feed changed (rows scaled, a chemical removed / added). '
        'non-trivial = two non-empty phases after the call, or a locked chemical present; distinct = hash of the case')
MIN_NONTRIVIAL = {'quick': 300, 'thorough': 8000}
ASSUMPTIONS = ['only calls that return normally are judged (the quantifier of C03); raises of types or on input classes not listed in classify() are reported as exceptions, although C03 itself says nothing about them',
               'which chemicals are gas- / liquid- / solid-only is the harness\'s own table (LOCK: the phase= argument it passes to Chemical), not Chemical.locked_state',
               'flows after a normal return must be finite; the balance is stated NaN-safe (not within the bound = violated)',
               'refusal ceilings (2x the recorded rate per operation, 2 sigma + 1 allowance) and reach floors (an eighth / a third of the recorded per-shard mean) are evaluated per shard; a breach makes the run inconclusive',
               'on streams with more rows than the call distributes (material in L / s during vle) the placement of locked chemicals is judged within the rows the call pools (g + l); balance and sign over all rows', 'column sums are compared with relative 1e-12 of the column and absolute 1e-12 of the total flow']
VOL = ('Water', 'Ethanol', 'Methanol', 'Propanol', 'Butanol', 'Hexane', 'Heptane', 'Octane', 'Benzene', 'Toluene', 'Acetone')
REFUSALS = ('InfeasibleRegion', 'NoEquilibrium', 'DomainError', 'UndefinedPhase', 'NotImplementedError')

# harness-side declaration of the phase-locked chemicals (what chem() asks the library for): the placement clauses are judged against this table, not against the
# library's own Chemical.locked_state (the attribute Chemicals.compile itself uses to lock them)
LOCK = {'N2': 'g', 'CO2': 'g', 'Glucose': 's', 'Glycerol': 'l'}
# raises that are numerical failures inside a solver (the call did not return normally: outside the quantifier); recognised by type and, for RuntimeError, by the solver's message
SOLVER_MESSAGES = ('root could not be solved', 'Failed to extrapolate')     # flexsolve's root finders; the property models' extrapolation
# innermost library functions where a FloatingPointError (0/0, log 0 in the activity models / the K-value iteration) was seen on the unchanged library; a FloatingPointError from
# any other site is still counted (not judged) but under 'unlisted' with its own small ceiling
NUMERIC_SITES = {'FloatingPointError@group_activity_coefficients', 'FloatingPointError@loggammacs_UNIFAC', 'FloatingPointError@loggammacs_modified_UNIFAC', 'FloatingPointError@gamma_UNIFAC',
                 'FloatingPointError@gamma_modified_UNIFAC', 'FloatingPointError@psi_UNIFAC', 'FloatingPointError@psi_modified_UNIFAC', 'FloatingPointError@xy', 'FloatingPointError@SLE._x_iter',
                 'FloatingPointError@BubblePoint.solve_Ty'}
# ceilings on refusals / (refusals + normal returns) per operation: 2x the rate pooled over the quick seeds 0-3 and a 5600-case sample (at most half way to 1, at least 0.02);
# evaluated per shard with a 2-sigma + 1 allowance for the small counts (check_rates)
CEIL = {'vle:Tx': 0.82, 'vle:Ty': 0.82, 'vle:Px': 0.82, 'vle:Py': 0.82, 'vle:TH': 0.70, 'vle:TS': 0.70, 'vle:PS': 0.035, 'vle:PV': 0.02, 'vle:PH': 0.02, 'vle:TP': 0.02, 'vle:TV': 0.02,
        'sle': 0.32, 'vlle': 0.30, 'receive_vent': 0.06, 'lle': 0.02, 'separations.lle': 0.02, 'mix_from': 0.02, 'probe': 0.02}
# mean number of hits per quick shard (260 + 300 cases) on the unchanged library, seeds 0-3: a shard that stays below an eighth (quick, counters with a mean of 16 or more) or
# a third (thorough, 15x the cases) of it makes the run inconclusive - 'reached at least once' is not enough to say a clause was judged
SHARD_MEAN = {'judged:finite': 594, 'judged:invariant': 687, 'judged:lle': 90, 'judged:mix_from': 17.6, 'judged:probe': 112, 'judged:receive_vent': 27.6, 'judged:separations.lle': 22.2, 'judged:sle': 37,
              'judged:vle:PH': 49.9, 'judged:vle:PS': 25, 'judged:vle:PV': 40.9, 'judged:vle:Px': 9.7, 'judged:vle:Py': 11.4, 'judged:vle:TH': 23.2, 'judged:vle:TP': 97.4, 'judged:vle:TS': 16.6,
              'judged:vle:TV': 30.7, 'judged:vle:Tx': 10.1, 'judged:vle:Ty': 11.6, 'judged:vlle': 56.8, 'locked:gas': 116.8, 'locked:l': 48.4, 'locked:s': 55.9, 'locked:misplaced': 27.6, 'locked-only': 10.9,
              'single-component': 16.3, 'repeated-call': 46.9, 'repeated-call:changed-feed': 29.7, 'repeated-call:chemical-set-changed': 21.8, 'dist:material-in-L-or-s': 41.4, 'seq:cross-kind': 25.1,
              'seq:vle-on-3+phases': 31.0, 'via-locked:placement-judged': 31.8, 'via-locked:receive_vent': 21.6, 'via-locked:mix_from': 10.2, 'vlle:three-phase': 4.9, 'xy:with-locked-flow': 1.3,
              'xy:at-feed-composition': 6.9, 'xy:extra-package-members': 9.8, 'via:separations.vle(Q)': 20.6, 'via:separations.lle': 22.2, 'vle:method=shgo': 11.6, 'lle:call-forms': 27.8, 'stream:vle': 21.3}

_locked = {}
_thermo = {}


def required(tier):
    return ['vle:TP', 'vle:TV', 'vle:PV', 'vle:PH', 'vle:PS', 'vle:TH', 'vle:TS', 'vle:Px', 'vle:Tx', 'vle:Py', 'vle:Ty', 'lle', 'sle', 'vlle', 'via:mix_from', 'via:separations.vle', 'via:receive_vent',
            'locked:gas', 'locked:heavy', 'locked-only', 'locked:misplaced', 'single-component', 'repeated-call',
            # second family (coverage audit)
            'dist:material-in-L-or-s', 'seq:cross-kind', 'seq:vle-on-3+phases', 'seq:vlle-with-L', 'stream:vle', 'stream:vlle', 'stream:lle', 'stream:sle', 'via:separations.lle', 'separations.lle:efficiency<1',
            'separations.lle:efficiency=0', 'separations.lle:multi_stream', 'via:separations.vle(Q)', 'separations.vle:multi_stream', 'via-locked:mix_from', 'via-locked:receive_vent', 'xy:extra-package-members',
            'xy:at-feed-composition', 'vle:method=shgo', 'lle:single_loop', 'lle:update=False', 'lle:P', 'lle:use_cache=False', 'vlle:three-phase', 'repeated-call:changed-feed', 'repeated-call:chemical-set-changed',
            # oracle audit: one counter per kind of locked chemical (harness table), the NaN-safe ledger and the sparse invariant on every written stream, placement on the
            # via-locked paths actually judged (not skipped for relabelled outlets), the per-shard refusal ceilings / reach floors evaluated
            'locked:l', 'locked:s', 'judged:finite', 'judged:invariant', 'via-locked:placement-judged', 'rates:checked'] + ['judged:' + op for op in CEIL] + [
            # run-level floors (about a third of the smallest quick-tier count over seeds 0-8: vlle:three-phase ranged 9-24)
            'vlle:three-phase>=4', 'judged:vle:Tx>=12', 'judged:vle:Ty>=12', 'judged:vle:Px>=12', 'judged:vle:Py>=12', 'judged:vle:TH>=30', 'judged:vle:TS>=22', 'judged:vle:PS>=33']


def chem(i):
    if i in ('N2', 'CO2'):
        if i not in _locked: _locked[i] = tmo.Chemical(i, phase='g', cache=False)
        return _locked[i]
    if i == 'Glucose':
        if i not in _locked: _locked[i] = tmo.Chemical(i, phase='s', cache=False)
        return _locked[i]
    if i == 'Glycerol':
        if i not in _locked: _locked[i] = tmo.Chemical(i, phase='l', cache=False)
        return _locked[i]
    if i not in _locked: _locked[i] = tmo.Chemical(i, cache=True)
    return _locked[i]


def thermo(ids):
    k = tuple(ids)
    if k not in _thermo:
        _thermo[k] = tmo.Thermo(tmo.Chemicals([chem(i) for i in ids]))
    return _thermo[k]


def thermo_unlocked(ids):
    k = ('unlocked',) + tuple(ids)
    if k not in _thermo: _thermo[k] = tmo.Thermo(tmo.Chemicals(list(ids), cache=True))
    return _thermo[k]


def gen_case(rng):
    t = rng.choices(['vle', 'vle', 'vle', 'vle', 'lle', 'sle', 'vlle', 'via'], [6, 6, 6, 6, 3, 2, 1, 3])[0]
    c = {'t': t}
    if t in ('vle', 'via', 'vlle'):
        n = rng.choice([0, 1, 2, 2, 3, 3, 4, 5])         # 0: only phase-locked chemicals present
        ids = rng.sample(VOL, n)
        if rng.random() < 0.35 or n == 0: ids.append(rng.choice(['N2', 'CO2']))
        if rng.random() < 0.3 or (n == 0 and rng.random() < 0.7): ids.append(rng.choice(['Glucose', 'Glycerol']))
        c['misplaced'] = rng.random() < 0.5            # locked chemicals start in the phase they cannot exist in (every initial distribution)
        c['ids'] = ids
        c['flows'] = [round(10 ** rng.uniform(-3, 3), 5) if rng.random() < 0.9 else 0.0 for _ in ids]
        if not any(c['flows'][:max(n, 1)]): c['flows'][0] = 1.0
        c['dist'] = [rng.choice([0.0, 1.0, round(rng.random(), 3)]) for _ in ids]    # fraction initially in the gas phase
        pair = rng.choice(['TP', 'TP', 'TV', 'PV', 'PV', 'PH', 'PH', 'PS', 'TH', 'TS', 'Tx', 'Ty', 'Px', 'Py', 'Tx', 'Ty', 'Px', 'Py'])
        if pair[1] in 'xy':
            # binary equilibrium specification: exactly two volatile chemicals, nothing else
            ids = rng.sample(VOL, 2); c['ids'] = ids; n = 2
            c['flows'] = [round(10 ** rng.uniform(-1, 2), 4) for _ in ids]; c['dist'] = [round(rng.random(), 3) for _ in ids]
        c['pair'] = pair
        c['T'] = round(rng.uniform(250, 500), 2); c['P'] = round(10 ** rng.uniform(4, 6.7), 1)
        c['V'] = rng.choice([0.0, 1.0, round(rng.random(), 4), round(rng.random(), 4)])
        c['f'] = round(rng.uniform(-0.3, 1.3), 4)     # position of H / S between the V=0.02 and V=0.98 values
        c['xy'] = round(rng.uniform(0.02, 0.98), 4)
        c['repeat'] = rng.random() < 0.3
        if t == 'via': c['how'] = rng.choice(['mix_from', 'separations.vle', 'receive_vent'])
    elif t == 'lle':
        base = rng.choice([('Water', 'Octane'), ('Water', 'Butanol'), ('Water', 'Hexane'), ('Water', 'Toluene'), ('Water', 'Octanol')])
        extra = rng.sample([i for i in ('Ethanol', 'Methanol', 'Acetone', 'Propanol', 'Heptane') if i not in base], rng.randrange(0, 4))
        c['ids'] = list(base) + extra
        c['flows'] = [round(10 ** rng.uniform(-2, 3), 4) for _ in c['ids']]
        c['T'] = round(rng.uniform(285, 355), 2)
        c['method'] = rng.choice(['pseudo equilibrium', 'pseudo equilibrium', 'shgo', 'differential evolution'])
        c['distL'] = [round(rng.random(), 3) for _ in c['ids']]
        c['top'] = rng.choice([None, c['ids'][0], c['ids'][1]])
        c['repeat'] = rng.random() < 0.4
    elif t == 'sle':
        solute = rng.choice(['Glucose', 'Tetradecanol', 'AceticAcid'])
        solv = rng.sample(['Water', 'Ethanol', 'Methanol', 'Octane'], rng.randrange(1, 4))
        c['ids'] = [solute] + solv; c['solute'] = solute
        c['flows'] = [round(10 ** rng.uniform(-2, 2), 4) for _ in c['ids']]
        c['T'] = round(rng.uniform(250, 450), 2)
        c['solubility'] = rng.choice([None, None, round(rng.random(), 4)])
        c['dist'] = round(rng.random(), 3)
        c['byH'] = rng.random() < 0.15
    return c


def array_of(s):
    return np.array([r.to_array() for r in s.imol.data.rows]), tuple(s.phases)


def ledger(rec, clause, tag, tot_b, after, ids, rows_text=''):
    """the balance / sign oracles shared by every path. NaN-safe: a comparison with NaN is False, so the balance is stated as 'not within the bound' and the flows after a
    normal return must be finite numbers (0/0 in a normalisation of an emptied phase would otherwise pass both '>' tests silently)."""
    a, aph = after
    tot_a = a.sum(0)
    F = tot_b.sum()
    finite = bool(np.isfinite(a).all())
    rec.hit('judged:finite')
    rec.check(finite, clause, f'non-finite/{tag}', f'{tag}: non-finite phase flows after a normal return: ' + str([(aph[r], ids[j], repr(float(a[r, j]))) for r, j in zip(*np.where(~np.isfinite(a)))][:4]))
    with np.errstate(all='ignore'):
        d = np.abs(tot_a - tot_b)
        bad = ~(d <= 1e-12 * np.maximum(np.abs(tot_a), np.abs(tot_b)) + 1e-12 * F)
        worst = float((d / max(F, 1e-300)).max()) if finite else float('nan')
    rec.check(not bad.any(), clause, f'balance/{tag}', f'{tag}: per-chemical totals changed: ' + ', '.join(f'{ids[i]}: {tot_b[i]!r} -> {tot_a[i]!r}' for i in np.where(bad)[0][:4]) + rows_text, residual=worst)
    neg = [(aph[r], ids[j], float(a[r, j])) for r, j in zip(*np.where(a < 0))]
    rec.check(not neg, clause, f'negative/{tag}', f'{tag}: negative phase flows after a normal return: {neg[:4]}')
    return tot_a


def placement(rec, clause, tag, after, ids, pool=None):
    """gas-only chemicals entirely in the gas row and liquid- / solid-only chemicals absent from it, within the rows named by pool (None: all rows). Which chemical is locked to
    which phase is the harness's own declaration (LOCK), with one reach counter per kind."""
    a, aph = after
    gi = aph.index('g') if 'g' in aph else None
    rows_ = [r for r, p in enumerate(aph) if pool is None or p in pool]
    for j, i in enumerate(ids):
        ls = LOCK.get(i)
        if ls is None: continue
        pooled = float(sum(a[r, j] for r in rows_))
        if not pooled > 0: continue
        if ls == 'g':
            rec.hit('locked:gas')
            rec.check(gi is not None and a[gi, j] == pooled, clause, f'gas-locked/{tag}', f'{tag}: gas-only chemical {i} not entirely in the gas phase: ' + str({p: float(a[r, j]) for r, p in enumerate(aph)}))
        else:
            rec.hit('locked:heavy'); rec.hit('locked:' + ls)
            rec.check(gi is None or a[gi, j] == 0, clause, f'heavy-locked/{tag}', f'{tag}: {ls}-only chemical {i} appears in the gas phase: {float(a[gi, j]) if gi is not None else 0}')


def invariant(rec, tag, *streams):
    for st in streams:
        if st is None: continue
        e = stream_invariant(st)
        rec.hit('judged:invariant')
        rec.check(e is None, 'invariant', tag, f'sparse invariant after {tag}: {e}')


def judge(rec, clause, tag, before, after, s, case, locked_check=True):
    b, bph = before; a, aph = after
    ids = s.chemicals.IDs
    tot_a = ledger(rec, clause, tag, b.sum(0), after, ids)
    if locked_check: placement(rec, clause, tag, after, ids)
    invariant(rec, tag, s)
    nonempty = sum(1 for r in a if r.sum() > 0)
    if nonempty >= 2 or (locked_check and any(LOCK.get(i) for j, i in enumerate(ids) if tot_a[j] > 0)): rec.mark_nontrivial(case_hash(case))


def make_stream(case, th):
    s = tmo.MultiStream(None, phases=('g', 'l'), T=case.get('T', 300.), P=case.get('P', 101325.), thermo=th)
    for i, v, d in zip(case['ids'], case['flows'], case['dist']):
        if not v: continue
        ls = LOCK.get(i)
        if ls and case.get('misplaced'):
            if d > 0: s.imol['g', i] = v * d
            if d < 1: s.imol['l', i] = v * (1 - d)
        elif ls == 'g': s.imol['g', i] = v
        elif ls: s.imol['l', i] = v
        else:
            if d > 0: s.imol['g', i] = v * d
            if d < 1: s.imol['l', i] = v * (1 - d)
    return s


def inputs_of(s, **extra):
    """what the harness itself can see of a stream before a call: the facts that warrant a documented refusal"""
    a, ph = arr2(s)
    ids = s.chemicals.IDs
    multi = isinstance(s, tmo.MultiStream)

    def pooled(labels):      # a single-phase Stream is relabelled by the call (vle: s -> l; sle: g -> l): its one row is what the call works on
        rows = [a[r] for r, p in enumerate(ph) if (p in labels or not multi)]
        return np.sum(rows, axis=0) if rows else np.zeros(len(ids))
    vol = np.array([LOCK.get(i) is None for i in ids], bool)
    d = {'ids': ids, 'novol': not (pooled('gl')[vol] > 0).any(),      # nothing that can be in vapour-liquid equilibrium in the rows a vle call pools
         'solid': any(p == 's' and a[r].any() for r, p in enumerate(ph)),   # material in a solid row (vlle offers L / g / l only)
         'ls': pooled('ls'), 'locked_flow': bool(any((a[:, j] > 0).any() for j, i in enumerate(ids) if LOCK.get(i)))}
    d.update(extra)
    return d


def classify(e, op, inp):
    """C03 quantifies over calls that return normally. A raise is counted (not judged) only when it is
      (a) a documented refusal of this operation whose condition the harness can see in the inputs (NoEquilibrium: nothing volatile to equilibrate; AssertionError on x / y: a
          locked chemical with flow makes the number of species != 2; UndefinedPhase on vlle: material in a solid row; 'no solute available' / 0/0 on sle: solute absent),
      (b) a documented refusal of the specification family that depends on the equilibrium itself (InfeasibleRegion of the lever rule on x / y; 'cannot solve for pressure yet'
          on T-H / T-S), or
      (c) a numerical failure inside a solver (FloatingPointError; RuntimeError with the root finders' / property extrapolation's message).
    returns the reason, or None: then the raise is reported (any other type - ValueError, LinAlgError, RecursionError, KeyError ... - or a documented type on an input class
    it is not documented for). The rates of (b) and (c) are bounded per operation by check_rates()."""
    name = type(e).__name__; msg = str(e)
    kind, _, pair = op.partition(':')
    xy = kind == 'vle' and pair[1:] in ('x', 'y')
    if name == 'NoEquilibrium':
        return 'NoEquilibrium (no volatile material in g + l)' if kind in ('vle', 'receive_vent', 'mix_from') and inp.get('novol') else None
    if name == 'InfeasibleRegion':
        return 'InfeasibleRegion' + (' (at the feed composition)' if inp.get('at') == 'z' else '') if xy else None
    if name == 'NotImplementedError':
        if kind == 'vle' and pair in ('TH', 'TS') and 'cannot solve for pressure' in msg:
            f = inp.get('f')
            return 'NotImplementedError' + ('' if f is None else (' (target inside the V=0.02..0.98 values)' if 0 <= f <= 1 else ' (target outside the V=0.02..0.98 values)'))
        return None
    if name == 'AssertionError':
        return 'AssertionError (a locked chemical with flow: number of species != 2)' if xy and inp.get('locked_flow') and 'number of species in equilibrium' in msg else None
    if name == 'UndefinedPhase':
        return 'UndefinedPhase (material in a solid row)' if kind == 'vlle' and inp.get('solid') else None
    if name == 'DomainError': return 'DomainError'
    if name in ('RuntimeError', 'ZeroDivisionError') and kind == 'sle' and ('no solute available' in msg or name == 'ZeroDivisionError'):
        return f'{name} (no solute in l + s)' if inp.get('solute_absent') else None
    # (a property model of the data package evaluated far outside its range by a wandering temperature solve raises RuntimeError '... computed an invalid value ...';
    #  an exponential of the entropy iteration overflows: both are numerical failures inside a solver, bounded like the others)
    if name in ('FloatingPointError', 'OverflowError') or (name == 'RuntimeError' and (any(m in msg for m in SOLVER_MESSAGES) or 'computed an invalid value' in msg)):
        ek = exc_key(e)
        return f'numerical failure {ek}' if (name == 'RuntimeError' or ek in NUMERIC_SITES) else f'unlisted numerical failure {ek}'
    return None


def on_raise(rec, e, op, clause, label, inp, what):
    """a call did not return normally: counted as a refusal when classify() grants it, reported otherwise"""
    reason = classify(e, op, inp)
    if reason is None:
        rec.hit('raise:reported')
        rec.exception(clause, e, what=what + ' (not a documented refusal for this operation and input class)')
        return
    rec.refuse(f'{label}: {reason}')
    rec.hit('refused:' + op)
    if reason.startswith('unlisted'): rec.hit('refused:unlisted-numerical')


def judged(rec, op):
    rec.hit('judged:' + op)


def solute_absent(s, solute):
    inp = inputs_of(s)
    return not inp['ls'][inp['ids'].index(solute)] > 0


def vle_spec(case, s):
    """returns kwargs for s.vle(...) ; H / S targets are positioned between the V=0.02 and V=0.98 values at the fixed T or P."""
    pair = case['pair']
    T, P, V = case['T'], case['P'], case['V']
    if pair == 'TP': return {'T': T, 'P': P}
    if pair == 'TV': return {'T': T, 'V': V}
    if pair == 'PV': return {'P': P, 'V': V}
    if pair in ('PH', 'PS', 'TH', 'TS'):
        fixed = {'P': P} if pair[0] == 'P' else {'T': T}
        probe = s.copy()
        probe.vle(V=0.02, **fixed); lo = probe.H if pair[1] == 'H' else probe.S
        probe.vle(V=0.98, **fixed); hi = probe.H if pair[1] == 'H' else probe.S
        val = lo + case['f'] * (hi - lo)
        return {**fixed, pair[1]: val}
    if pair in ('Tx', 'Ty', 'Px', 'Py'):
        fixed = {'P': P} if pair[0] == 'P' else {'T': T}
        zA = case['flows'][0] / sum(case['flows'])
        v = min(max(zA * (0.6 + 0.8 * case['xy']), 0.01), 0.99)     # near the overall composition so that the lever rule is often feasible
        return {**fixed, pair[1]: [v, 1 - v]}
    raise ValueError(pair)


def run_case(case, rec):
    if case['t'] in NEW_KINDS: return run_case2(case, rec)
    rec.begin_case(case)
    t = case['t']
    with warnings.catch_warnings():
        warnings.simplefilter('ignore')
        try:
            th = thermo(case['ids'])
        except Exception as e:
            rec.exception('setup', e, what=f'building thermo for {case["ids"]} raised {type(e).__name__}: {e}'); return
        tmo.settings.set_thermo(th)
        if t in ('vle', 'via'):
            s = make_stream(case, th)
            nvol = sum(1 for i, v in zip(case['ids'], case['flows']) if v and not LOCK.get(i))
            inp = inputs_of(s, f=case['f'])
            try:
                spec = vle_spec(case, s)
            except Exception as e:
                on_raise(rec, e, 'probe', 'vle:' + case['pair'], 'spec probe refused', inp, f'probing the H/S range for {case["pair"]} raised {type(e).__name__}: {str(e)[:120]}'); return
            if case['pair'][1] in 'HS': judged(rec, 'probe')
            before = array_of(s)
            tag = 'vle:' + case['pair']
            op = tag if t == 'vle' or case['how'] == 'separations.vle' else case['how']
            outs = (s,)
            try:
                if t == 'vle':
                    s.vle(**spec)
                    after = array_of(s)
                    tgt = s
                else:
                    how = case['how']; tag = f'{how}/{case["pair"]}'
                    if how == 'mix_from':
                        a_ = tmo.Stream(None, thermo=th, T=case['T'], P=case['P'], phase='l'); b_ = tmo.Stream(None, thermo=th, T=min(case['T'] + 40, 500), P=case['P'], phase='g')
                        arr = before[0]
                        for j, i in enumerate(th.chemicals.IDs):
                            if arr[1, j]: a_.imol[i] = arr[1, j]
                            if arr[0, j]: b_.imol[i] = arr[0, j]
                        if a_.isempty() or b_.isempty(): rec.refuse('one inlet empty'); return
                        recv = tmo.MultiStream(None, phases=('g', 'l'), thermo=th)
                        recv.mix_from([a_, b_], energy_balance=True, vle=True)
                        tgt = recv; after = array_of(recv) if isinstance(recv, tmo.MultiStream) else (np.array([recv.imol.data.to_array()]), (recv.phase,))
                        outs = (recv,)
                        before = (np.array([arr.sum(0)]), ('mix',))
                        rec.hit('via:mix_from')
                    elif how == 'separations.vle':
                        feed = s; vap = tmo.Stream(None, thermo=th); liq = tmo.Stream(None, thermo=th)
                        kw = {k: v for k, v in spec.items() if k in ('T', 'P', 'V', 'x', 'y')}
                        if len(kw) != 2: rec.refuse('spec pair not offered by separations.vle'); return
                        sep.vle(feed, vap, liq, **kw)
                        after = (np.array([vap.imol.data.to_array(), liq.imol.data.to_array()]), ('g', 'l'))
                        tgt = None; outs = (vap, liq, feed)
                        rec.check(np.array_equal(array_of(feed)[0], before[0]), tag, 'feed-changed', 'separations.vle changed the feed')
                        rec.hit('via:separations.vle')
                    else:
                        # receive_vent: a liquid stream receives a gas vent and equilibrates
                        liq = tmo.Stream(None, thermo=th, T=case['T'], P=case['P'], phase='l'); vent = tmo.Stream(None, thermo=th, T=case['T'], P=case['P'], phase='g')
                        arr = before[0]
                        for j, i in enumerate(th.chemicals.IDs):
                            if arr[1, j]: liq.imol[i] = arr[1, j]
                            if arr[0, j]: vent.imol[i] = arr[0, j]
                        if liq.isempty() or vent.isempty(): rec.refuse('one side empty'); return
                        vent.receive_vent(liq, energy_balance=False)
                        after = (np.array([vent.imol.data.to_array(), liq.imol.data.to_array()]), (vent.phase, liq.phase))
                        before = (np.array([arr[0], arr[1]]), ('g', 'l'))
                        tgt = None; outs = (vent, liq)
                        rec.hit('via:receive_vent')
            except Exception as e:
                on_raise(rec, e, op, tag.split('/')[0] if t == 'vle' else 'via', tag, inp, f'{tag} on {case["ids"]} raised {type(e).__name__}: {str(e)[:140]}'); return
            judged(rec, op)
            if t == 'vle':
                rec.hit(tag)
                if nvol == 0: rec.hit('locked-only')
                if case.get('misplaced') and any(LOCK.get(i) for i in case['ids']): rec.hit('locked:misplaced')
                if nvol == 1: rec.hit('single-component')
                judge(rec, tag, tag, before, after, s, case)
                if case.get('repeat'):
                    # solver objects are cached per stream: a second call with another spec on the same stream
                    b2 = array_of(s); inp2 = inputs_of(s)
                    try:
                        s.vle(T=case['T'] + 7.5, P=case['P'])
                    except Exception as e:
                        on_raise(rec, e, 'vle:TP', 'repeated-call', 'repeat refused', inp2, f'second vle call raised {type(e).__name__}: {str(e)[:120]}')
                    else:
                        judged(rec, 'vle:TP')
                        judge(rec, 'repeated-call', 'repeated-call', b2, array_of(s), s, case)
                        rec.hit('repeated-call')
            else:
                # the outlets of the 'via' paths: the same ledger oracles (balance, sign, finite) and the sparse invariant of every stream the call wrote
                ledger(rec, 'via', case['how'], before[0].sum(0), after, th.chemicals.IDs)
                invariant(rec, case['how'], *outs)
                if (after[0].sum(1) > 0).sum() >= 2: rec.mark_nontrivial(case_hash(case))
        elif t == 'vlle':
            s = make_stream(case, th)
            before_tot = array_of(s)[0].sum(0); inp = inputs_of(s)
            try:
                s.vlle(case['T'], case['P'])
            except Exception as e:
                on_raise(rec, e, 'vlle', 'vlle', 'vlle', inp, f'vlle on {case["ids"]} raised {type(e).__name__}: {str(e)[:140]}'); return
            judged(rec, 'vlle')
            a, aph = array_of(s) if isinstance(s, tmo.MultiStream) else (np.array([s.imol.data.to_array()]), (s.phase,))
            rec.hit('vlle')
            judge(rec, 'vlle', 'vlle', (np.array([before_tot]), ('all',)), (a, aph), s, case)
        elif t == 'lle':
            s = tmo.MultiStream(None, phases=('L', 'l'), T=case['T'], thermo=th)
            for i, v, d in zip(case['ids'], case['flows'], case['distL']):
                s.imol['L', i] = v * d; s.imol['l', i] = v * (1 - d)
            before = array_of(s); inp = inputs_of(s)
            try:
                lle = s.lle
                lle.method = case['method']
                lle(case['T'], top_chemical=case['top'])
            except Exception as e:
                on_raise(rec, e, 'lle', 'lle', 'lle', inp, f'lle({case["method"]}) on {case["ids"]} raised {type(e).__name__}: {str(e)[:140]}'); return
            judged(rec, 'lle')
            rec.hit('lle')
            judge(rec, 'lle', f'lle/{case["method"]}', before, array_of(s), s, case, locked_check=False)
            if case['repeat']:
                b2 = array_of(s)
                try:
                    s.lle(case['T'] + 11.0)
                except Exception as e:
                    on_raise(rec, e, 'lle', 'repeated-call', 'repeat refused', inp, f'second lle call raised {type(e).__name__}: {str(e)[:120]}')
                else:
                    judged(rec, 'lle')
                    judge(rec, 'repeated-call', 'lle-repeated', b2, array_of(s), s, case, locked_check=False); rec.hit('repeated-call')
        elif t == 'sle':
            th = thermo_unlocked(case['ids']); tmo.settings.set_thermo(th)
            s = tmo.MultiStream(None, phases=('s', 'l'), T=case['T'], thermo=th)
            for k, (i, v) in enumerate(zip(case['ids'], case['flows'])):
                if k == 0:
                    s.imol['s', i] = v * case['dist']; s.imol['l', i] = v * (1 - case['dist'])
                else: s.imol['l', i] = v
            before = array_of(s); inp = inputs_of(s, solute_absent=solute_absent(s, case['solute']))
            try:
                kw = {'solubility': case['solubility']} if case['solubility'] is not None else {}
                if case['byH']: s.sle(case['solute'], H=s.H, **kw)
                else: s.sle(case['solute'], T=case['T'], **kw)
            except Exception as e:
                on_raise(rec, e, 'sle', 'sle', 'sle', inp, f'sle on {case["ids"]} raised {type(e).__name__}: {str(e)[:140]}'); return
            judged(rec, 'sle')
            rec.hit('sle')
            judge(rec, 'sle', 'sle', before, array_of(s), s, case, locked_check=False)


# ---------------------------------------------------------------------------------------------------------------------
# second family of cases (coverage audit): initial distributions over L / s rows, cross-kind call sequences, single-phase
# Stream receivers, separations.lle / separations.vle(Q=, multi_stream=), locked placement on the 'via' paths, x / y with
# zero-flow and locked package members, the 'shgo' VLE method, LLE call forms, three-phase vlle, changed feed between calls

NEW_KINDS = ('seq', 'stream', 'seplle', 'sepvle', 'vialocked', 'xyplus', 'shgo', 'llekw', 'vlle3', 'repeat2')
PHASE_SETS = ('gl', 'Lgl', 'gls', 'Ll', 'ls', 'Lgls')
PAIRS_NOXY = ('TP', 'TP', 'TV', 'PV', 'PH', 'PS', 'TH', 'TS')
LLE_BASE = (('Water', 'Octane'), ('Water', 'Butanol'), ('Water', 'Hexane'), ('Water', 'Toluene'), ('Water', 'Octanol'))


def _flows(rng, ids, lo=-3, hi=3, pzero=0.1):
    f = [round(10 ** rng.uniform(lo, hi), 5) if rng.random() >= pzero else 0.0 for _ in ids]
    if not any(f): f[0] = 1.0
    return f


def _vspec(rng, pairs=PAIRS_NOXY):
    return {'pair': rng.choice(pairs), 'T': round(rng.uniform(250, 500), 2), 'P': round(10 ** rng.uniform(4, 6.7), 1),
            'V': rng.choice([0.0, 1.0, round(rng.random(), 4), round(rng.random(), 4)]), 'f': round(rng.uniform(-0.3, 1.3), 4)}


def _mixed_ids(rng, nmin=1, nmax=4, plock=0.5):
    ids = rng.sample(VOL, rng.randrange(nmin, nmax + 1))
    if rng.random() < plock: ids.append(rng.choice(['N2', 'CO2']))
    if rng.random() < plock: ids.append(rng.choice(['Glucose', 'Glycerol']))
    return ids


def gen_case2(rng):
    t = rng.choices(NEW_KINDS, [5, 4, 2, 2, 3, 2, 1, 2.5, 2, 3])[0]
    c = {'t': t}
    if t == 'seq':
        # any initial distribution over the rows of a 2-4 phase stream, then 1-3 equilibrium calls of different kinds on that one stream
        ids = _mixed_ids(rng, 2, 4, 0.4)
        ph = rng.choice(PHASE_SETS)
        c.update(ids=ids, phases=ph, flows=_flows(rng, ids), T=round(rng.uniform(280, 400), 2), P=round(10 ** rng.uniform(4, 6), 1))
        c['w'] = [[rng.choice([0.0, 0.0, 1.0, round(rng.random(), 3)]) for _ in ph] for _ in ids]      # weights of each chemical over the rows
        steps = []
        for _ in range(rng.randrange(1, 4)):
            op = rng.choice(['vle', 'vle', 'lle', 'vlle', 'sle'])
            if op == 'vle': st = {'op': 'vle', **_vspec(rng)}
            elif op == 'lle': st = {'op': 'lle', 'T': round(rng.uniform(285, 355), 2), 'top': rng.choice([None] + ids)}
            elif op == 'vlle': st = {'op': 'vlle', 'T': round(rng.uniform(300, 420), 2), 'P': round(10 ** rng.uniform(4.5, 5.5), 1)}
            else: st = {'op': 'sle', 'solute': rng.choice([i for i in ids if i in VOL]), 'T': round(rng.uniform(250, 450), 2), 'sol': rng.choice([None, round(rng.random(), 4)])}
            steps.append(st)
        c['steps'] = steps
    elif t == 'stream':
        ids = _mixed_ids(rng, 1, 4, 0.3)
        c.update(ids=ids, flows=_flows(rng, ids), phase=rng.choice('gls'), T=round(rng.uniform(280, 400), 2), P=round(10 ** rng.uniform(4, 6), 1))
        op = rng.choice(['vle', 'vle', 'vle', 'vlle', 'lle', 'sle'])
        if op == 'vle': c['step'] = {'op': 'vle', **_vspec(rng)}
        elif op == 'vlle': c['step'] = {'op': 'vlle', 'T': round(rng.uniform(300, 420), 2), 'P': round(10 ** rng.uniform(4.5, 5.5), 1)}
        elif op == 'lle': c['step'] = {'op': 'lle', 'T': round(rng.uniform(285, 355), 2), 'top': rng.choice([None] + ids)}
        else: c['step'] = {'op': 'sle', 'solute': rng.choice([i for i in ids if i in VOL]), 'T': round(rng.uniform(250, 450), 2), 'sol': rng.choice([None, round(rng.random(), 4)])}
    elif t == 'seplle':
        base = rng.choice(LLE_BASE)
        extra = rng.sample([i for i in ('Ethanol', 'Methanol', 'Acetone', 'Propanol', 'Heptane') if i not in base], rng.randrange(0, 3))
        ids = list(base) + extra
        c.update(ids=ids, flows=_flows(rng, ids, -2, 3, 0.05), T=round(rng.uniform(285, 355), 2), eff=rng.choice([1.0, 0.0, round(rng.random(), 4), round(rng.random(), 4)]),
                 top=rng.choice([None] + ids), ms=rng.random() < 0.5)
    elif t == 'sepvle':
        ids = _mixed_ids(rng, 1, 4, 0.3)
        c.update(ids=ids, flows=_flows(rng, ids), dist=[rng.choice([0.0, 1.0, round(rng.random(), 3)]) for _ in ids], misplaced=rng.random() < 0.5,
                 fix=rng.choice('PPT'), T=round(rng.uniform(280, 450), 2), P=round(10 ** rng.uniform(4, 6.3), 1), f=round(rng.uniform(-0.3, 1.3), 4), ms=rng.random() < 0.5)
    elif t == 'vialocked':
        ids = _mixed_ids(rng, 1, 4, 0.0)
        ids.append(rng.choice(['N2', 'CO2']) if rng.random() < 0.6 else rng.choice(['Glucose', 'Glycerol']))
        if rng.random() < 0.4: ids.append(rng.choice([i for i in ('N2', 'CO2', 'Glucose', 'Glycerol') if i not in ids]))
        c.update(ids=ids, flows=_flows(rng, ids, -3, 3, 0.0), dist=[rng.choice([0.0, 1.0, round(rng.random(), 3)]) for _ in ids], misplaced=rng.random() < 0.5,
                 how=rng.choice(['mix_from', 'receive_vent', 'receive_vent']), eb=rng.random() < 0.5, ideal=rng.random() < 0.5,
                 T=round(rng.uniform(280, 420), 2), P=round(10 ** rng.uniform(4, 6.3), 1))
        # corners of the quantifier's T / P box where a locked chemical's own vapour pressure crosses P (CO2 below its critical point at high P; glycerol near 500 K at low P)
        r = rng.random()
        if r < 0.2:
            c['ids'] = [i for i in ids if i != 'CO2'] + ['CO2']; c['T'] = round(rng.uniform(250, 300), 2); c['P'] = round(10 ** rng.uniform(6.3, 6.7), 1); c['corner'] = 'cold-high-P'
        elif r < 0.3:
            c['ids'] = [i for i in ids if i != 'Glycerol'] + ['Glycerol']; c['T'] = round(rng.uniform(470, 500), 2); c['P'] = round(10 ** rng.uniform(4, 4.25), 1); c['corner'] = 'hot-low-P'
        if 'corner' in c:
            c['flows'] = _flows(rng, c['ids'], -3, 3, 0.0); c['dist'] = [rng.choice([0.0, 1.0, round(rng.random(), 3)]) for _ in c['ids']]
    elif t == 'xyplus':
        # two volatile chemicals with flow; the package also holds zero-flow volatiles and (with or without flow) phase-locked chemicals
        two = rng.sample(VOL, 2)
        zero = rng.sample([i for i in VOL if i not in two], rng.randrange(0, 3))
        lock = rng.sample(['N2', 'CO2', 'Glucose', 'Glycerol'], rng.randrange(0, 3))
        order = two + zero + lock
        perm = list(range(len(order))); rng.shuffle(perm)
        ids = [order[k] for k in perm]
        fl = {two[0]: round(10 ** rng.uniform(-1, 2), 4), two[1]: round(10 ** rng.uniform(-1, 2), 4)}
        for i in lock: fl[i] = rng.choice([0.0, 0.0, round(10 ** rng.uniform(-3, 0), 5)])
        c.update(ids=ids, two=two, flows=[fl.get(i, 0.0) for i in ids], dist=[round(rng.random(), 3) for _ in ids], pair=rng.choice(['Tx', 'Ty', 'Px', 'Py']),
                 T=round(rng.uniform(300, 420), 2), P=round(10 ** rng.uniform(4.3, 6), 1), at=rng.choice(['z', 'z', 'near', 'near', 'far']), xy=round(rng.uniform(0.02, 0.98), 4))
    elif t == 'shgo':
        ids = rng.sample(VOL, rng.choice([2, 2, 3]))
        if rng.random() < 0.3: ids.append(rng.choice(['N2', 'Glucose']))
        c.update(ids=ids, flows=_flows(rng, ids, -3, 3, 0.0), dist=[rng.choice([0.0, 1.0, round(rng.random(), 3)]) for _ in ids], **_vspec(rng, ('TP', 'TP', 'TV', 'PV')))
    elif t == 'llekw':
        base = rng.choice(LLE_BASE)
        extra = rng.sample([i for i in ('Ethanol', 'Methanol', 'Acetone', 'Propanol', 'Heptane') if i not in base], rng.randrange(0, 3))
        lock = rng.sample(['N2', 'Glucose', 'Glycerol'], rng.randrange(0, 2))
        ids = list(base) + extra + lock
        ph = rng.choice(['Ll', 'Ll', 'Lgl', 'Lls'])
        c.update(ids=ids, phases=ph, flows=_flows(rng, ids, -2, 3, 0.15), T=round(rng.uniform(285, 355), 2), w=[[rng.choice([0.0, 1.0, round(rng.random(), 3)]) for _ in ph] for _ in ids],
                 method=rng.choice(['pseudo equilibrium', 'pseudo equilibrium', 'pseudo equilibrium', 'shgo']), top=rng.choice([None] + ids),
                 kw={'P': rng.choice([None, round(10 ** rng.uniform(4, 6), 1)]), 'single_loop': rng.random() < 0.4, 'use_cache': rng.random() < 0.5, 'update': rng.random() < 0.7},
                 again=rng.random() < 0.5)
    elif t == 'vlle3':
        # water + partially miscible organics around the heteroazeotrope: the three-phase branch of Stream.vlle (fixed point on normalised data, rescaled afterwards)
        org = rng.sample(['Butanol', 'Hexane', 'Heptane', 'Octane', 'Benzene', 'Toluene'], rng.choice([1, 2, 2]))
        ids = ['Water'] + org + rng.sample(['Propanol', 'Ethanol', 'N2', 'Glucose'], rng.choice([0, 0, 1]))
        scale = rng.choice([1e-3, 1.0, 1.0, 1e3])
        c.update(ids=ids, flows=[round(scale * rng.uniform(0.2, 1), 8) for _ in ids], T=round(rng.uniform(330, 372), 2), P=round(101325 * rng.uniform(0.8, 1.25), 1),
                 phases=rng.choice(['gl', 'Lgl', 'S']), w=[[rng.choice([0.0, 1.0, round(rng.random(), 3)]) for _ in range(3)] for _ in ids], again=rng.random() < 0.4)
    else:   # repeat2
        ids = _mixed_ids(rng, 2, 5, 0.3)
        c.update(ids=ids, flows=_flows(rng, ids, -3, 3, 0.25), dist=[rng.choice([0.0, 1.0, round(rng.random(), 3)]) for _ in ids], misplaced=rng.random() < 0.5,
                 first=_vspec(rng), second=_vspec(rng),
                 # between the calls: every row scaled, one chemical removed, one that was absent added
                 mult=[[rng.choice([1.0, round(10 ** rng.uniform(-2, 2), 4)]) for _ in ids] for _ in 'gl'], drop=rng.choice([None] + list(range(len(ids)))),
                 add=[rng.choice([0.0, round(10 ** rng.uniform(-3, 3), 5)]) for _ in ids])
    return c


def arr2(s):
    """phase x chemical array and phase names of a Stream or MultiStream"""
    if isinstance(s, tmo.MultiStream): return array_of(s)
    return np.array([s.imol.data.to_array()]), (s.phase,)


def judge2(rec, clause, tag, before, after, chemicals, case, pool=None, feed_total=None, streams=()):
    """balance over all rows, signs, finite values, (pool = names of the rows the call distributes) the placement of phase-locked chemicals within that pool, and the sparse
    invariant (no stored NaN / zero) of every stream the call wrote (streams)"""
    b, bph = before; a, aph = after
    tot_b = b.sum(0) if feed_total is None else feed_total
    ids = [c.ID for c in chemicals]
    tot_a = ledger(rec, clause, tag, tot_b, after, ids, rows_text=f' (rows {bph} -> {aph})')
    if pool: placement(rec, clause, tag, after, ids, pool=pool)
    invariant(rec, tag, *streams)
    if sum(1 for r in a if r.sum() > 0) >= 2 or (pool and any(LOCK.get(i) for j, i in enumerate(ids) if tot_a[j] > 0)): rec.mark_nontrivial(case_hash(case))


def build_rows(case, th, ph):
    s = tmo.MultiStream(None, phases=tuple(ph), T=case['T'], P=case.get('P', 101325.), thermo=th)
    for i, v, w in zip(case['ids'], case['flows'], case['w']):
        if not v: continue
        w = list(w[:len(ph)]); tot = sum(w)
        if not tot: w = [1.0] + [0.0] * (len(ph) - 1); tot = 1.0
        for p, x in zip(ph, w):
            if x: s.imol[p, i] = v * x / tot
    return s


def vle_kwargs(st, s):
    pair = st['pair']; T, P, V = st['T'], st['P'], st['V']
    if pair == 'TP': return {'T': T, 'P': P}
    if pair == 'TV': return {'T': T, 'V': V}
    if pair == 'PV': return {'P': P, 'V': V}
    fixed = {'P': P} if pair[0] == 'P' else {'T': T}
    probe = s.copy()
    probe.vle(V=0.02, **fixed); lo = probe.H if pair[1] == 'H' else probe.S
    probe.vle(V=0.98, **fixed); hi = probe.H if pair[1] == 'H' else probe.S
    return {**fixed, pair[1]: lo + st['f'] * (hi - lo)}


def do_step(rec, st, s, chemicals, case, where):
    """one equilibrium call on s (Stream or MultiStream); returns False when the call did not return normally"""
    op = st['op']
    tag = f'{where}/{op}' + (':' + st['pair'] if op == 'vle' else '')
    cls = 'vle:' + st['pair'] if op == 'vle' else op
    inp = inputs_of(s, f=st.get('f'))
    if op == 'sle': inp['solute_absent'] = solute_absent(s, st['solute'])
    if op == 'vle' and st['pair'] not in ('TP', 'TV', 'PV'):
        try:
            kw = vle_kwargs(st, s)
        except Exception as e:
            on_raise(rec, e, 'probe', where, f'{tag}: spec probe refused', inp, f'{tag}: probing the H/S range on {case["ids"]} raised {type(e).__name__}: {str(e)[:140]}'); return False
        judged(rec, 'probe')
    try:
        if op == 'vle':
            if st['pair'] in ('TP', 'TV', 'PV'): kw = vle_kwargs(st, s)
            before = arr2(s); s.vle(**kw); pool = 'gl'
        elif op == 'lle':
            before = arr2(s); s.lle(st['T'], top_chemical=st['top']); pool = None
        elif op == 'vlle':
            before = arr2(s); s.vlle(st['T'], st['P']); pool = 'Lgl'
        else:
            before = arr2(s)
            s.sle(st['solute'], T=st['T'], **({'solubility': st['sol']} if st['sol'] is not None else {})); pool = None
    except Exception as e:
        on_raise(rec, e, cls, where, tag, inp, f'{tag} on {case["ids"]} raised {type(e).__name__}: {str(e)[:140]}'); return False
    judged(rec, cls)
    rec.hit(f'{where}:{op}')
    judge2(rec, where, tag, before, arr2(s), chemicals, case, pool=pool, streams=(s,))
    return True


def run_case2(case, rec):
    rec.begin_case(case)
    t = case['t']
    with warnings.catch_warnings():
        warnings.simplefilter('ignore')
        try:
            th = thermo(case['ids'])
        except Exception as e:
            rec.exception('setup', e, what=f'building thermo for {case["ids"]} raised {type(e).__name__}: {e}'); return
        tmo.settings.set_thermo(th)
        chemicals = tuple(th.chemicals)
        if t == 'seq':
            s = build_rows(case, th, case['phases'])
            start_rows = {p for p, r in zip(s.phases, array_of(s)[0]) if r.sum() > 0}
            if start_rows - {'g', 'l'}: rec.hit('dist:material-in-L-or-s')
            done = []
            for st in case['steps']:
                if not do_step(rec, st, s, chemicals, case, 'seq'): break
                done.append(st['op'])
                if len(done) >= 2 and done[-1] != done[-2]: rec.hit('seq:cross-kind')
                if st['op'] == 'vle' and len(s.phases) > 2: rec.hit('seq:vle-on-3+phases')
                if st['op'] == 'vlle' and 'L' in start_rows: rec.hit('seq:vlle-with-L')
        elif t == 'stream':
            s = tmo.Stream(None, phase=case['phase'], T=case['T'], P=case['P'], thermo=th)
            for i, v in zip(case['ids'], case['flows']):
                if v: s.imol[i] = v
            if do_step(rec, case['step'], s, chemicals, case, 'stream'):
                rec.hit('stream:' + case['phase'])
        elif t == 'seplle':
            feed = tmo.Stream(None, phase='l', T=case['T'], thermo=th)
            for i, v in zip(case['ids'], case['flows']):
                if v: feed.imol[i] = v
            top = tmo.Stream(None, thermo=th); bottom = tmo.Stream(None, thermo=th)
            ms = tmo.MultiStream(None, phases=('L', 'l'), thermo=th) if case['ms'] else None
            before = arr2(feed); inp = inputs_of(feed)
            eff = case['eff']; etag = 'efficiency=1' if eff == 1 else ('efficiency=0' if eff == 0 else 'efficiency<1')
            try:
                sep.lle(feed, top, bottom, top_chemical=case['top'], efficiency=eff, multi_stream=ms)
            except Exception as e:
                on_raise(rec, e, 'separations.lle', 'via', 'separations.lle', inp, f'separations.lle on {case["ids"]} raised {type(e).__name__}: {str(e)[:140]}'); return
            judged(rec, 'separations.lle')
            rec.hit('via:separations.lle'); rec.hit('separations.lle:' + etag)
            rec.check(np.array_equal(arr2(feed)[0], before[0]), 'via', 'separations.lle/feed-changed', 'separations.lle changed the feed')
            after = (np.array([top.imol.data.to_array(), bottom.imol.data.to_array()]), ('top', 'bottom'))
            judge2(rec, 'via', f'separations.lle/{etag}', before, after, chemicals, case, streams=(top, bottom, feed))
            if ms is not None:
                rec.hit('separations.lle:multi_stream')
                judge2(rec, 'via', 'separations.lle/multi_stream', before, arr2(ms), chemicals, case, streams=(ms,))
        elif t == 'sepvle':
            feed = make_stream(case, th)
            vap = tmo.Stream(None, thermo=th); liq = tmo.Stream(None, thermo=th)
            ms = tmo.MultiStream(None, phases=('g', 'l'), thermo=th) if case['ms'] else None
            fixed = {'P': case['P']} if case['fix'] == 'P' else {'T': case['T']}
            inp = inputs_of(feed, f=case['f']); cls = f'vle:{case["fix"]}H'
            try:
                probe = feed.copy()
                probe.vle(V=0.02, **fixed); lo = probe.H
                probe.vle(V=0.98, **fixed); hi = probe.H
                Q = lo + case['f'] * (hi - lo) - feed.H
            except Exception as e:
                on_raise(rec, e, 'probe', 'via', 'separations.vle(Q): spec probe refused', inp, f'probing the H range for separations.vle({fixed}, Q=...) on {case["ids"]} raised {type(e).__name__}: {str(e)[:140]}'); return
            judged(rec, 'probe')
            try:
                before = arr2(feed)
                sep.vle(feed, vap, liq, Q=Q, multi_stream=ms, **fixed)
            except Exception as e:
                on_raise(rec, e, cls, 'via', 'separations.vle(Q)', inp, f'separations.vle({fixed}, Q=...) on {case["ids"]} raised {type(e).__name__}: {str(e)[:140]}'); return
            judged(rec, cls)
            rec.hit('via:separations.vle(Q)')
            rec.check(np.array_equal(arr2(feed)[0], before[0]), 'via', 'separations.vle(Q)/feed-changed', 'separations.vle changed the feed')
            after = (np.array([vap.imol.data.to_array(), liq.imol.data.to_array()]), ('g', 'l'))
            tag = f'separations.vle/{case["fix"]}Q'
            judge2(rec, 'via', tag, before, after, chemicals, case, pool='gl', streams=(vap, liq, feed))
            if ms is not None:
                rec.hit('separations.vle:multi_stream')
                judge2(rec, 'via', tag + '/multi_stream', before, arr2(ms), chemicals, case, pool='gl', streams=(ms,))
        elif t == 'vialocked':
            s = make_stream(case, th); arr = array_of(s)[0]          # rows g, l
            how = case['how']; inp = inputs_of(s); relabelled = False
            try:
                if how == 'mix_from':
                    a_ = tmo.Stream(None, thermo=th, T=case['T'], P=case['P'], phase='l'); b_ = tmo.Stream(None, thermo=th, T=min(case['T'] + 40, 500), P=case['P'], phase='g')
                    for j, i in enumerate(th.chemicals.IDs):
                        if arr[1, j]: a_.imol[i] = arr[1, j]
                        if arr[0, j]: b_.imol[i] = arr[0, j]
                    if a_.isempty() or b_.isempty(): rec.refuse('one inlet empty'); return
                    recv = tmo.MultiStream(None, phases=('g', 'l'), thermo=th)
                    recv.mix_from([a_, b_], energy_balance=case['eb'], vle=True)
                    after = arr2(recv); tag = 'mix_from(vle=True)'; rec.hit('mix_from(vle=True):energy_balance=' + str(case['eb'])); outs = (recv,)
                else:
                    liq = tmo.Stream(None, thermo=th, T=case['T'], P=case['P'], phase='l'); vent = tmo.Stream(None, thermo=th, T=case['T'], P=case['P'], phase='g')
                    for j, i in enumerate(th.chemicals.IDs):
                        if arr[1, j]: liq.imol[i] = arr[1, j]
                        if arr[0, j]: vent.imol[i] = arr[0, j]
                    if liq.isempty() or vent.isempty(): rec.refuse('one side empty'); return
                    vent.receive_vent(liq, energy_balance=case['eb'], ideal=case['ideal'])
                    # balance, sign and finiteness do not depend on the labels: always judged; only the placement of locked chemicals needs the rows to be the gas and the liquid
                    relabelled = vent.phase != 'g' or liq.phase != 'l'
                    after = (np.array([vent.imol.data.to_array(), liq.imol.data.to_array()]), (vent.phase, liq.phase))
                    tag = 'receive_vent'; rec.hit(f'receive_vent:energy_balance={case["eb"]}/ideal={case["ideal"]}'); outs = (vent, liq)
            except Exception as e:
                on_raise(rec, e, how, 'via', how, inp, f'{how} on {case["ids"]} raised {type(e).__name__}: {str(e)[:140]}'); return
            judged(rec, how)
            rec.hit('via-locked:' + how)
            if case.get('corner'): rec.hit('via-locked:' + case['corner'])
            if relabelled:
                rec.refuse('receive_vent: outlet phases relabelled (placement of locked chemicals not judged; balance and sign are)'); rec.hit('receive_vent:relabelled')
                judge2(rec, 'via-locked', tag + '/relabelled', (arr, ('g', 'l')), after, chemicals, case, pool=None, streams=outs)
            else:
                rec.hit('via-locked:placement-judged')
                judge2(rec, 'via-locked', tag, (arr, ('g', 'l')), after, chemicals, case, pool='gl', streams=outs)
        elif t == 'xyplus':
            s = make_stream(case, th)
            two = case['two']; fa, fb = (case['flows'][case['ids'].index(i)] for i in two)
            zA = fa / (fa + fb)
            if case['at'] == 'z': v = zA                                         # the lever rule at its end point: the named phase is the whole mixture
            elif case['at'] == 'near': v = min(max(zA * (0.6 + 0.8 * case['xy']), 0.01), 0.99)
            else: v = case['xy']
            # the composition is given over the chemicals in equilibrium in package order
            comp = [v, 1 - v] if case['ids'].index(two[0]) < case['ids'].index(two[1]) else [1 - v, v]
            pair = case['pair']
            kw = {('T' if pair[0] == 'T' else 'P'): case[pair[0]], pair[1]: comp}
            before = arr2(s)
            locked_flow = any(v_ and LOCK.get(i) for i, v_ in zip(case['ids'], case['flows']))
            inp = inputs_of(s, at=case['at'], locked_flow=bool(locked_flow))
            try:
                s.vle(**kw)
            except Exception as e:
                on_raise(rec, e, 'vle:' + pair, 'vle:' + pair, f'vle:{pair} (package with extra members)', inp, f'vle({kw}) on {case["ids"]} raised {type(e).__name__}: {str(e)[:140]}'); return
            judged(rec, 'vle:' + pair)
            rec.hit('xy:extra-package-members')
            if case['at'] == 'z': rec.hit('xy:at-feed-composition')
            if locked_flow: rec.hit('xy:with-locked-flow')
            judge2(rec, 'vle:' + pair, f'vle:{pair}/extra-package-members', before, arr2(s), chemicals, case, pool='gl', streams=(s,))
        elif t == 'shgo':
            s = make_stream(case, th)
            before = arr2(s); inp = inputs_of(s, f=case['f'])
            try:
                kw = vle_kwargs(case, s)
                vle = s.vle; vle.method = 'shgo'
                vle(**kw)
            except Exception as e:
                on_raise(rec, e, 'vle:' + case['pair'], 'vle-shgo', f'vle(shgo):{case["pair"]}', inp, f'vle(method=shgo, {case["pair"]}) on {case["ids"]} raised {type(e).__name__}: {str(e)[:140]}'); return
            judged(rec, 'vle:' + case['pair'])
            rec.hit('vle:method=shgo')
            judge2(rec, 'vle-shgo', f'vle:{case["pair"]}/method=shgo', before, arr2(s), chemicals, case, pool='gl', streams=(s,))
        elif t == 'llekw':
            s = build_rows(case, th, case['phases'])
            kw = dict(case['kw'])
            tag = 'lle/' + case['method'] + ''.join(f'/{k}' for k in ('single_loop',) if kw[k]) + ('/P' if kw['P'] else '') + ('' if kw['use_cache'] else '/no-cache') + ('' if kw['update'] else '/update=False')
            before = arr2(s); inp = inputs_of(s)
            try:
                lle = s.lle; lle.method = case['method']
                if case['again']: lle(case['T'] + 9.0, top_chemical=case['top'])       # a remembered solution for the call forms to start from
                b2 = arr2(s)
                ret = lle(case['T'], top_chemical=case['top'], **kw)
            except Exception as e:
                on_raise(rec, e, 'lle', 'lle', 'lle call form', inp, f'{tag} on {case["ids"]} raised {type(e).__name__}: {str(e)[:140]}'); return
            judged(rec, 'lle')
            rec.hit('lle:call-forms')
            for k in ('single_loop', 'P'):
                if kw[k]: rec.hit('lle:' + k)
            if not kw['update']: rec.hit('lle:update=False')
            if not kw['use_cache']: rec.hit('lle:use_cache=False')
            if any(v == 0 for v in case['flows']): rec.hit('lle:zero-flow-member')
            judge2(rec, 'lle', tag, b2, arr2(s), chemicals, case, streams=(s,))
            judge2(rec, 'lle', tag + '/from-start', before, arr2(s), chemicals, case)
        elif t == 'vlle3':
            if case['phases'] == 'S':
                s = tmo.Stream(None, phase='l', T=case['T'], P=case['P'], thermo=th)
                for i, v in zip(case['ids'], case['flows']): s.imol[i] = v
            else:
                c2 = dict(case, w=[w[:len(case['phases'])] for w in case['w']])
                s = build_rows(c2, th, case['phases'])
            before = arr2(s)
            n = 2 if case['again'] else 1
            for k in range(n):
                b = arr2(s); inp = inputs_of(s)
                try:
                    s.vlle(case['T'] + 1.5 * k, case['P'])
                except Exception as e:
                    on_raise(rec, e, 'vlle', 'vlle', 'vlle', inp, f'vlle on {case["ids"]} raised {type(e).__name__}: {str(e)[:140]}'); return
                judged(rec, 'vlle')
                a = arr2(s)
                nz = sum(1 for r in a[0] if r.sum() > 0)
                rec.hit('vlle')
                if nz == 3: rec.hit('vlle:three-phase')
                if k: rec.hit('vlle:repeated')
                judge2(rec, 'vlle', 'vlle/' + ('three-phase' if nz == 3 else 'fewer-phases') + ('/repeated' if k else ''), b, a, chemicals, case, pool='Lgl', streams=(s,))
        elif t == 'repeat2':
            s = make_stream(case, th); inp = inputs_of(s, f=case['first']['f'])
            try:
                kw = vle_kwargs(case['first'], s)
                s.vle(**kw)
            except Exception as e:
                on_raise(rec, e, 'vle:' + case['first']['pair'], 'repeated-call', 'first call', inp, f'first vle call raised {type(e).__name__}: {str(e)[:120]}'); return
            judged(rec, 'vle:' + case['first']['pair'])
            # the feed changes between the calls on the same stream (and therefore the same remembered solver)
            a0 = array_of(s)[0]
            ids = th.chemicals.IDs
            for r, p in enumerate(s.phases):
                for j, i in enumerate(ids):
                    v = a0[r, j] * case['mult'][r][j]
                    if case['drop'] == j: v = 0.0
                    if p == 'l' and a0[:, j].sum() == 0 and case['add'][j] and case['drop'] != j: v = case['add'][j]
                    s.imol[p, i] = v
            if not array_of(s)[0].any(): rec.refuse('nothing left after the change'); return
            present0 = a0.sum(0) > 0; present1 = array_of(s)[0].sum(0) > 0
            inp = inputs_of(s, f=case['second']['f'])
            try:
                kw = vle_kwargs(case['second'], s)
                before = arr2(s)
                s.vle(**kw)
            except Exception as e:
                on_raise(rec, e, 'vle:' + case['second']['pair'], 'repeated-call', 'second call', inp, f'second vle call raised {type(e).__name__}: {str(e)[:120]}'); return
            judged(rec, 'vle:' + case['second']['pair'])
            rec.hit('repeated-call:changed-feed')
            if (present0 != present1).any(): rec.hit('repeated-call:chemical-set-changed')
            else: rec.hit('repeated-call:same-chemical-set')
            judge2(rec, 'repeated-call', f'changed-feed/vle:{case["second"]["pair"]}', before, arr2(s), chemicals, case, pool='gl', streams=(s,))


def check_rates(rec, tier):
    """per shard: refusal ceilings per operation, the ceiling on numerical failures from unlisted sites, and floors on the reach counters. A breach decides nothing about the
    property but says that clauses went unjudged far more often than on the recorded baseline: reported as an error of the harness run (-> inconclusive)."""
    import math
    breaches = []
    for op, c in CEIL.items():
        r = rec.reach.get('refused:' + op, 0); n = r + rec.reach.get('judged:' + op, 0)
        allowed = n * c + 2 * math.sqrt(n * c * (1 - c)) + 1
        if r > allowed: breaches.append(f'{op}: {r} of {n} calls did not return normally (ceiling {c}, allowed {allowed:.1f})')
    for k in rec.reach:
        if k.startswith('refused:') and k[8:] not in CEIL and k != 'refused:unlisted-numerical': breaches.append(f'refusals of an operation without a ceiling: {k}')
    u = rec.reach.get('refused:unlisted-numerical', 0)
    if u > max(2, 1.5e-3 * rec.cases): breaches.append(f'{u} numerical failures from sites not seen on the unchanged library in {rec.cases} cases')
    for k, m in SHARD_MEAN.items():
        floor = int(m / 8) if tier == 'quick' else int(5 * m)      # (quick: an eighth of the per-shard mean: P(fewer) < 2e-6 per counter for a mean of 16)
        if tier == 'quick' and m < 16: continue
        if rec.reach.get(k, 0) < floor: breaches.append(f'reach counter {k}: {rec.reach.get(k, 0)} hits in this shard (floor {floor}, baseline mean {m if tier == "quick" else 15 * m})')
    rec.hit('rates:checked')
    for b in breaches:
        try: raise RuntimeError('refusal ceiling / reach floor: ' + b)
        except RuntimeError as e: rec.exception('rates', e, case={'shard': rec.shard, 'breach': b})


def replay(case, rec):
    run_case(case, rec)


def run(rec, rng, tier, shard, nshards):
    n = 260 if tier == 'quick' else 4000
    for i in range(n):
        case = gen_case(rng)
        try:
            run_case(case, rec)
        except Exception as e:
            rec.exception('harness', e, what=f'harness error: {type(e).__name__}: {e}')
        if i % 67 == 0: rec.sample(case)
    # second family of cases (coverage audit): other initial distributions, receivers, call forms and histories
    n2 = 300 if tier == 'quick' else 4500
    for i in range(n2):
        case = gen_case2(rng)
        try:
            run_case(case, rec)
        except Exception as e:
            rec.exception('harness', e, what=f'harness error: {type(e).__name__}: {e}')
        if i % 67 == 0: rec.sample(case)
    check_rates(rec, tier)
