"""C03 — phase equilibrium never creates, destroys or makes negative any material.

Monitor (MaterialLedger): the phase x chemical array of the real stream is recorded before and after each equilibrium
call (vle with every supported specification pair, lle, sle, vlle, and the same reached through mix_from(vle=True),
separations.vle / lle and receive_vent); column sums, signs and the placement of phase-locked chemicals are checked.
"""
import warnings
import numpy as np
import thermosteam as tmo
from thermosteam import separations as sep
from vt.core import case_hash
from vt.common import stream_invariant

PID = 'C03'
RULE = ('random compositions over subsets (1-6) of 11 volatile chemicals + gas-locked N2/CO2 + solid/liquid-locked glucose/glycerol, flows 10^U(-3,3), every initial distribution over l/g, specs: '
        'TP, TV, PV, PH, PS, TH, TS, Tx, Ty, Px, Py with T 250-500 K, P 1e4-5e6 Pa, V in {0,1,U(0,1)}, H/S between the V=0.02 and V=0.98 values +-30%; LLE on 2-5 chemicals with a partially miscible pair '
        '(all three methods), SLE with glucose/tetradecanol, vlle; repeated calls on the same stream. only normal returns are judged; documented refusals are counted. '
        'second family: initial distributions over 2-4 rows (g, l, L, s) followed by 1-3 calls of different kinds (vle / lle / vlle / sle) on the one stream, single-phase Stream receivers (g / l / s), '
        'separations.lle (efficiency 1, (0,1), 0; multi_stream) and separations.vle(Q=, multi_stream=), placement of locked chemicals after mix_from(vle=True) / receive_vent (energy balance and ideal on / off; corners where a locked '
        'chemical\'s vapour pressure crosses P), x / y on packages with zero-flow and locked members incl. x = z, VLE method shgo, LLE call forms (P, single_loop, use_cache, update=False), three-phase vlle at 1e-3..1e3, '
        'second call after the feed changed (rows scaled, a chemical removed / added). '
        'non-trivial = two non-empty phases after the call, or a locked chemical present; distinct = hash of the case')
MIN_NONTRIVIAL = {'quick': 300, 'thorough': 8000}
ASSUMPTIONS = ['only calls that return normally are judged (the quantifier of C03)', 'on streams with more rows than the call distributes (material in L / s during vle) the placement of locked chemicals is judged within the rows the call pools (g + l); balance and sign over all rows', 'column sums are compared with relative 1e-12 of the column and absolute 1e-12 of the total flow']
VOL = ('Water', 'Ethanol', 'Methanol', 'Propanol', 'Butanol', 'Hexane', 'Heptane', 'Octane', 'Benzene', 'Toluene', 'Acetone')
REFUSALS = ('InfeasibleRegion', 'NoEquilibrium', 'DomainError', 'UndefinedPhase', 'NotImplementedError')

_locked = {}
_thermo = {}


def required(tier):
    return ['vle:TP', 'vle:TV', 'vle:PV', 'vle:PH', 'vle:PS', 'vle:TH', 'vle:TS', 'vle:Px', 'vle:Tx', 'vle:Py', 'vle:Ty', 'lle', 'sle', 'vlle', 'via:mix_from', 'via:separations.vle', 'via:receive_vent',
            'locked:gas', 'locked:heavy', 'locked-only', 'locked:misplaced', 'single-component', 'repeated-call',
            # second family (coverage audit)
            'dist:material-in-L-or-s', 'seq:cross-kind', 'seq:vle-on-3+phases', 'seq:vlle-with-L', 'stream:vle', 'stream:vlle', 'stream:lle', 'stream:sle', 'via:separations.lle', 'separations.lle:efficiency<1',
            'separations.lle:efficiency=0', 'separations.lle:multi_stream', 'via:separations.vle(Q)', 'separations.vle:multi_stream', 'via-locked:mix_from', 'via-locked:receive_vent', 'xy:extra-package-members',
            'xy:at-feed-composition', 'vle:method=shgo', 'lle:single_loop', 'lle:update=False', 'lle:P', 'lle:use_cache=False', 'vlle:three-phase', 'repeated-call:changed-feed', 'repeated-call:chemical-set-changed']


def chem(i):
    if i in ('N2', 'CO2'):
        if i not in _locked: _locked[i] = tmo.Chemical(i, phase='g', cache=False)
        return _locked[i]
    if i == 'Glucose':
        if i not in _locked: _locked[i] = tmo.Chemical(i, phase='s', cache=False)
        return _locked[i]
    if i == 'Glycerol':
        if i not in _locked: _locked[i] = tmo.Chemical(i, phase='l', cache=False)
        return _locked[i]
    if i not in _locked: _locked[i] = tmo.Chemical(i, cache=True)
    return _locked[i]


def thermo(ids):
    k = tuple(ids)
    if k not in _thermo:
        _thermo[k] = tmo.Thermo(tmo.Chemicals([chem(i) for i in ids]))
    return _thermo[k]


def thermo_unlocked(ids):
    k = ('unlocked',) + tuple(ids)
    if k not in _thermo: _thermo[k] = tmo.Thermo(tmo.Chemicals(list(ids), cache=True))
    return _thermo[k]


def gen_case(rng):
    t = rng.choices(['vle', 'vle', 'vle', 'vle', 'lle', 'sle', 'vlle', 'via'], [6, 6, 6, 6, 3, 2, 1, 3])[0]
    c = {'t': t}
    if t in ('vle', 'via', 'vlle'):
        n = rng.choice([0, 1, 2, 2, 3, 3, 4, 5])         # 0: only phase-locked chemicals present
        ids = rng.sample(VOL, n)
        if rng.random() < 0.35 or n == 0: ids.append(rng.choice(['N2', 'CO2']))
        if rng.random() < 0.3 or (n == 0 and rng.random() < 0.7): ids.append(rng.choice(['Glucose', 'Glycerol']))
        c['misplaced'] = rng.random() < 0.5            # locked chemicals start in the phase they cannot exist in (every initial distribution)
        c['ids'] = ids
        c['flows'] = [round(10 ** rng.uniform(-3, 3), 5) if rng.random() < 0.9 else 0.0 for _ in ids]
        if not any(c['flows'][:max(n, 1)]): c['flows'][0] = 1.0
        c['dist'] = [rng.choice([0.0, 1.0, round(rng.random(), 3)]) for _ in ids]    # fraction initially in the gas phase
        pair = rng.choice(['TP', 'TP', 'TV', 'PV', 'PV', 'PH', 'PH', 'PS', 'TH', 'TS', 'Tx', 'Ty', 'Px', 'Py', 'Tx', 'Ty', 'Px', 'Py'])
        if pair[1] in 'xy':
            # binary equilibrium specification: exactly two volatile chemicals, nothing else
            ids = rng.sample(VOL, 2); c['ids'] = ids; n = 2
            c['flows'] = [round(10 ** rng.uniform(-1, 2), 4) for _ in ids]; c['dist'] = [round(rng.random(), 3) for _ in ids]
        c['pair'] = pair
        c['T'] = round(rng.uniform(250, 500), 2); c['P'] = round(10 ** rng.uniform(4, 6.7), 1)
        c['V'] = rng.choice([0.0, 1.0, round(rng.random(), 4), round(rng.random(), 4)])
        c['f'] = round(rng.uniform(-0.3, 1.3), 4)     # position of H / S between the V=0.02 and V=0.98 values
        c['xy'] = round(rng.uniform(0.02, 0.98), 4)
        c['repeat'] = rng.random() < 0.3
        if t == 'via': c['how'] = rng.choice(['mix_from', 'separations.vle', 'receive_vent'])
    elif t == 'lle':
        base = rng.choice([('Water', 'Octane'), ('Water', 'Butanol'), ('Water', 'Hexane'), ('Water', 'Toluene'), ('Water', 'Octanol')])
        extra = rng.sample([i for i in ('Ethanol', 'Methanol', 'Acetone', 'Propanol', 'Heptane') if i not in base], rng.randrange(0, 4))
        c['ids'] = list(base) + extra
        c['flows'] = [round(10 ** rng.uniform(-2, 3), 4) for _ in c['ids']]
        c['T'] = round(rng.uniform(285, 355), 2)
        c['method'] = rng.choice(['pseudo equilibrium', 'pseudo equilibrium', 'shgo', 'differential evolution'])
        c['distL'] = [round(rng.random(), 3) for _ in c['ids']]
        c['top'] = rng.choice([None, c['ids'][0], c['ids'][1]])
        c['repeat'] = rng.random() < 0.4
    elif t == 'sle':
        solute = rng.choice(['Glucose', 'Tetradecanol', 'AceticAcid'])
        solv = rng.sample(['Water', 'Ethanol', 'Methanol', 'Octane'], rng.randrange(1, 4))
        c['ids'] = [solute] + solv; c['solute'] = solute
        c['flows'] = [round(10 ** rng.uniform(-2, 2), 4) for _ in c['ids']]
        c['T'] = round(rng.uniform(250, 450), 2)
        c['solubility'] = rng.choice([None, None, round(rng.random(), 4)])
        c['dist'] = round(rng.random(), 3)
        c['byH'] = rng.random() < 0.15
    return c


def array_of(s):
    return np.array([r.to_array() for r in s.imol.data.rows]), tuple(s.phases)


def judge(rec, clause, tag, before, after, s, case, locked_check=True):
    b, bph = before; a, aph = after
    tot_b = b.sum(0); tot_a = a.sum(0)
    F = tot_b.sum()
    bad = np.abs(tot_a - tot_b) > 1e-12 * np.maximum(np.abs(tot_a), np.abs(tot_b)) + 1e-12 * F
    worst = float((np.abs(tot_a - tot_b) / max(F, 1e-300)).max())
    ids = s.chemicals.IDs
    rec.check(not bad.any(), clause, f'balance/{tag}', f'{tag}: per-chemical totals changed: ' + ', '.join(f'{ids[i]}: {tot_b[i]!r} -> {tot_a[i]!r}' for i in np.where(bad)[0][:4]), residual=worst)
    neg = [(aph[r], ids[j], float(a[r, j])) for r, j in zip(*np.where(a < 0))]
    rec.check(not neg, clause, f'negative/{tag}', f'{tag}: negative phase flows after a normal return: {neg[:4]}')
    if locked_check:
        gi = aph.index('g') if 'g' in aph else None
        for j, c in enumerate(s.chemicals):
            ls = c.locked_state
            if ls == 'g' and tot_a[j] > 0:
                rec.hit('locked:gas')
                rec.check(gi is not None and a[gi, j] == tot_a[j], clause, f'gas-locked/{tag}', f'{tag}: gas-only chemical {c.ID} not entirely in the gas phase: ' + str({p: float(a[r, j]) for r, p in enumerate(aph)}))
            elif ls in ('l', 's') and tot_a[j] > 0:
                rec.hit('locked:heavy')
                rec.check(gi is None or a[gi, j] == 0, clause, f'heavy-locked/{tag}', f'{tag}: {ls}-only chemical {c.ID} appears in the gas phase: {float(a[gi, j]) if gi is not None else 0}')
    e = stream_invariant(s)
    rec.check(e is None, 'invariant', tag, f'sparse invariant after {tag}: {e}')
    nonempty = sum(1 for r in a if r.sum() > 0)
    if nonempty >= 2 or any(c.locked_state for j, c in enumerate(s.chemicals) if tot_a[j] > 0): rec.mark_nontrivial(case_hash(case))


def make_stream(case, th):
    s = tmo.MultiStream(None, phases=('g', 'l'), T=case.get('T', 300.), P=case.get('P', 101325.), thermo=th)
    for i, v, d in zip(case['ids'], case['flows'], case['dist']):
        if not v: continue
        ls = chem(i).locked_state
        if ls and case.get('misplaced'):
            if d > 0: s.imol['g', i] = v * d
            if d < 1: s.imol['l', i] = v * (1 - d)
        elif ls == 'g': s.imol['g', i] = v
        elif ls: s.imol['l', i] = v
        else:
            if d > 0: s.imol['g', i] = v * d
            if d < 1: s.imol['l', i] = v * (1 - d)
    return s


def refused(e):
    # C03 quantifies over calls that return normally: any raise (documented refusal or numerical failure inside a solver) is counted, not judged.
    # Programming errors in the call path (TypeError, AttributeError, KeyError, IndexError, NameError) are still reported.
    return not isinstance(e, (TypeError, AttributeError, KeyError, IndexError, NameError, UnboundLocalError))


def vle_spec(case, s):
    """returns kwargs for s.vle(...) ; H / S targets are positioned between the V=0.02 and V=0.98 values at the fixed T or P."""
    pair = case['pair']
    T, P, V = case['T'], case['P'], case['V']
    if pair == 'TP': return {'T': T, 'P': P}
    if pair == 'TV': return {'T': T, 'V': V}
    if pair == 'PV': return {'P': P, 'V': V}
    if pair in ('PH', 'PS', 'TH', 'TS'):
        fixed = {'P': P} if pair[0] == 'P' else {'T': T}
        probe = s.copy()
        probe.vle(V=0.02, **fixed); lo = probe.H if pair[1] == 'H' else probe.S
        probe.vle(V=0.98, **fixed); hi = probe.H if pair[1] == 'H' else probe.S
        val = lo + case['f'] * (hi - lo)
        return {**fixed, pair[1]: val}
    if pair in ('Tx', 'Ty', 'Px', 'Py'):
        fixed = {'P': P} if pair[0] == 'P' else {'T': T}
        zA = case['flows'][0] / sum(case['flows'])
        v = min(max(zA * (0.6 + 0.8 * case['xy']), 0.01), 0.99)     # near the overall composition so that the lever rule is often feasible
        return {**fixed, pair[1]: [v, 1 - v]}
    raise ValueError(pair)


def run_case(case, rec):
    if case['t'] in NEW_KINDS: return run_case2(case, rec)
    rec.begin_case(case)
    t = case['t']
    with warnings.catch_warnings():
        warnings.simplefilter('ignore')
        try:
            th = thermo(case['ids'])
        except Exception as e:
            rec.exception('setup', e, what=f'building thermo for {case["ids"]} raised {type(e).__name__}: {e}'); return
        tmo.settings.set_thermo(th)
        if t in ('vle', 'via'):
            s = make_stream(case, th)
            nvol = sum(1 for i, v in zip(case['ids'], case['flows']) if v and not chem(i).locked_state)
            try:
                spec = vle_spec(case, s)
            except Exception as e:
                if refused(e): rec.refuse(f'spec probe refused: {type(e).__name__}'); return
                rec.exception('vle:' + case['pair'], e, what=f'probing the H/S range for {case["pair"]} raised {type(e).__name__}: {str(e)[:120]}'); return
            before = array_of(s)
            tag = 'vle:' + case['pair']
            try:
                if t == 'vle':
                    s.vle(**spec)
                    after = array_of(s)
                    tgt = s
                else:
                    how = case['how']; tag = f'{how}/{case["pair"]}'
                    if how == 'mix_from':
                        a_ = tmo.Stream(None, thermo=th, T=case['T'], P=case['P'], phase='l'); b_ = tmo.Stream(None, thermo=th, T=min(case['T'] + 40, 500), P=case['P'], phase='g')
                        arr = before[0]
                        for j, i in enumerate(th.chemicals.IDs):
                            if arr[1, j]: a_.imol[i] = arr[1, j]
                            if arr[0, j]: b_.imol[i] = arr[0, j]
                        if a_.isempty() or b_.isempty(): rec.refuse('one inlet empty'); return
                        recv = tmo.MultiStream(None, phases=('g', 'l'), thermo=th)
                        recv.mix_from([a_, b_], energy_balance=True, vle=True)
                        tgt = recv; after = array_of(recv) if isinstance(recv, tmo.MultiStream) else (np.array([recv.imol.data.to_array()]), (recv.phase,))
                        before = (np.array([arr.sum(0)]), ('mix',))
                        rec.hit('via:mix_from')
                    elif how == 'separations.vle':
                        feed = s; vap = tmo.Stream(None, thermo=th); liq = tmo.Stream(None, thermo=th)
                        kw = {k: v for k, v in spec.items() if k in ('T', 'P', 'V', 'x', 'y')}
                        if len(kw) != 2: rec.refuse('spec pair not offered by separations.vle'); return
                        sep.vle(feed, vap, liq, **kw)
                        after = (np.array([vap.imol.data.to_array(), liq.imol.data.to_array()]), ('g', 'l'))
                        tgt = None
                        rec.check(np.array_equal(array_of(feed)[0], before[0]), tag, 'feed-changed', 'separations.vle changed the feed')
                        rec.hit('via:separations.vle')
                    else:
                        # receive_vent: a liquid stream receives a gas vent and equilibrates
                        liq = tmo.Stream(None, thermo=th, T=case['T'], P=case['P'], phase='l'); vent = tmo.Stream(None, thermo=th, T=case['T'], P=case['P'], phase='g')
                        arr = before[0]
                        for j, i in enumerate(th.chemicals.IDs):
                            if arr[1, j]: liq.imol[i] = arr[1, j]
                            if arr[0, j]: vent.imol[i] = arr[0, j]
                        if liq.isempty() or vent.isempty(): rec.refuse('one side empty'); return
                        vent.receive_vent(liq, energy_balance=False)
                        after = (np.array([vent.imol.data.to_array(), liq.imol.data.to_array()]), ('g', 'l'))
                        before = (np.array([arr[0], arr[1]]), ('g', 'l'))
                        tgt = None
                        rec.hit('via:receive_vent')
            except Exception as e:
                if refused(e): rec.refuse(f'{tag}: {type(e).__name__}'); return
                if isinstance(e, AssertionError): rec.refuse('assertion on the number of specs'); return
                rec.exception(tag.split('/')[0] if t == 'vle' else 'via', e, what=f'{tag} on {case["ids"]} raised {type(e).__name__}: {str(e)[:140]}'); return
            if t == 'vle':
                rec.hit(tag)
                if nvol == 0: rec.hit('locked-only')
                if case.get('misplaced') and any(chem(i).locked_state for i in case['ids']): rec.hit('locked:misplaced')
                if nvol == 1: rec.hit('single-component')
                judge(rec, tag, tag, before, after, s, case)
                if case.get('repeat'):
                    # solver objects are cached per stream: a second call with another spec on the same stream
                    b2 = array_of(s)
                    try:
                        s.vle(T=case['T'] + 7.5, P=case['P'])
                        judge(rec, 'repeated-call', 'repeated-call', b2, array_of(s), s, case)
                        rec.hit('repeated-call')
                    except Exception as e:
                        if refused(e): rec.refuse('repeat refused')
                        else: rec.exception('repeated-call', e, what=f'second vle call raised {type(e).__name__}: {str(e)[:120]}')
            else:
                class S_: pass
                # judge against a pseudo stream description
                dummy = tgt if tgt is not None else s
                b = before; a = after
                tot_b = b[0].sum(0); tot_a = a[0].sum(0); F = tot_b.sum()
                bad = np.abs(tot_a - tot_b) > 1e-12 * np.maximum(np.abs(tot_a), np.abs(tot_b)) + 1e-12 * F
                ids = th.chemicals.IDs
                rec.check(not bad.any(), 'via', f'balance/{case["how"]}', f'{tag}: per-chemical totals changed: ' + ', '.join(f'{ids[i]}: {tot_b[i]!r} -> {tot_a[i]!r}' for i in np.where(bad)[0][:4]))
                rec.check(not (a[0] < 0).any(), 'via', f'negative/{case["how"]}', f'{tag}: negative flows after a normal return')
                if (a[0].sum(1) > 0).sum() >= 2: rec.mark_nontrivial(case_hash(case))
        elif t == 'vlle':
            s = make_stream(case, th)
            before_tot = array_of(s)[0].sum(0)
            try:
                s.vlle(case['T'], case['P'])
            except Exception as e:
                if refused(e): rec.refuse(f'vlle: {type(e).__name__}'); return
                rec.exception('vlle', e, what=f'vlle on {case["ids"]} raised {type(e).__name__}: {str(e)[:140]}'); return
            a, aph = array_of(s) if isinstance(s, tmo.MultiStream) else (np.array([s.imol.data.to_array()]), (s.phase,))
            rec.hit('vlle')
            judge(rec, 'vlle', 'vlle', (np.array([before_tot]), ('all',)), (a, aph), s, case)
        elif t == 'lle':
            s = tmo.MultiStream(None, phases=('L', 'l'), T=case['T'], thermo=th)
            for i, v, d in zip(case['ids'], case['flows'], case['distL']):
                s.imol['L', i] = v * d; s.imol['l', i] = v * (1 - d)
            before = array_of(s)
            try:
                lle = s.lle
                lle.method = case['method']
                lle(case['T'], top_chemical=case['top'])
            except Exception as e:
                if refused(e): rec.refuse(f'lle: {type(e).__name__}'); return
                rec.exception('lle', e, what=f'lle({case["method"]}) on {case["ids"]} raised {type(e).__name__}: {str(e)[:140]}'); return
            rec.hit('lle')
            judge(rec, 'lle', f'lle/{case["method"]}', before, array_of(s), s, case, locked_check=False)
            if case['repeat']:
                b2 = array_of(s)
                try:
                    s.lle(case['T'] + 11.0)
                    judge(rec, 'repeated-call', 'lle-repeated', b2, array_of(s), s, case, locked_check=False); rec.hit('repeated-call')
                except Exception as e:
                    if refused(e): rec.refuse('repeat refused')
                    else: rec.exception('repeated-call', e, what=f'second lle call raised {type(e).__name__}: {str(e)[:120]}')
        elif t == 'sle':
            th = thermo_unlocked(case['ids']); tmo.settings.set_thermo(th)
            s = tmo.MultiStream(None, phases=('s', 'l'), T=case['T'], thermo=th)
            for k, (i, v) in enumerate(zip(case['ids'], case['flows'])):
                if k == 0:
                    s.imol['s', i] = v * case['dist']; s.imol['l', i] = v * (1 - case['dist'])
                else: s.imol['l', i] = v
            before = array_of(s)
            try:
                kw = {'solubility': case['solubility']} if case['solubility'] is not None else {}
                if case['byH']: s.sle(case['solute'], H=s.H, **kw)
                else: s.sle(case['solute'], T=case['T'], **kw)
            except Exception as e:
                if refused(e): rec.refuse(f'sle: {type(e).__name__}'); return
                rec.exception('sle', e, what=f'sle on {case["ids"]} raised {type(e).__name__}: {str(e)[:140]}'); return
            rec.hit('sle')
            judge(rec, 'sle', 'sle', before, array_of(s), s, case, locked_check=False)


# ---------------------------------------------------------------------------------------------------------------------
# second family of cases (coverage audit): initial distributions over L / s rows, cross-kind call sequences, single-phase
# Stream receivers, separations.lle / separations.vle(Q=, multi_stream=), locked placement on the 'via' paths, x / y with
# zero-flow and locked package members, the 'shgo' VLE method, LLE call forms, three-phase vlle, changed feed between calls

NEW_KINDS = ('seq', 'stream', 'seplle', 'sepvle', 'vialocked', 'xyplus', 'shgo', 'llekw', 'vlle3', 'repeat2')
PHASE_SETS = ('gl', 'Lgl', 'gls', 'Ll', 'ls', 'Lgls')
PAIRS_NOXY = ('TP', 'TP', 'TV', 'PV', 'PH', 'PS', 'TH', 'TS')
LLE_BASE = (('Water', 'Octane'), ('Water', 'Butanol'), ('Water', 'Hexane'), ('Water', 'Toluene'), ('Water', 'Octanol'))


def _flows(rng, ids, lo=-3, hi=3, pzero=0.1):
    f = [round(10 ** rng.uniform(lo, hi), 5) if rng.random() >= pzero else 0.0 for _ in ids]
    if not any(f): f[0] = 1.0
    return f


def _vspec(rng, pairs=PAIRS_NOXY):
    return {'pair': rng.choice(pairs), 'T': round(rng.uniform(250, 500), 2), 'P': round(10 ** rng.uniform(4, 6.7), 1),
            'V': rng.choice([0.0, 1.0, round(rng.random(), 4), round(rng.random(), 4)]), 'f': round(rng.uniform(-0.3, 1.3), 4)}


def _mixed_ids(rng, nmin=1, nmax=4, plock=0.5):
    ids = rng.sample(VOL, rng.randrange(nmin, nmax + 1))
    if rng.random() < plock: ids.append(rng.choice(['N2', 'CO2']))
    if rng.random() < plock: ids.append(rng.choice(['Glucose', 'Glycerol']))
    return ids


def gen_case2(rng):
    t = rng.choices(NEW_KINDS, [5, 4, 2, 2, 3, 2, 1, 2.5, 2, 3])[0]
    c = {'t': t}
    if t == 'seq':
        # any initial distribution over the rows of a 2-4 phase stream, then 1-3 equilibrium calls of different kinds on that one stream
        ids = _mixed_ids(rng, 2, 4, 0.4)
        ph = rng.choice(PHASE_SETS)
        c.update(ids=ids, phases=ph, flows=_flows(rng, ids), T=round(rng.uniform(280, 400), 2), P=round(10 ** rng.uniform(4, 6), 1))
        c['w'] = [[rng.choice([0.0, 0.0, 1.0, round(rng.random(), 3)]) for _ in ph] for _ in ids]      # weights of each chemical over the rows
        steps = []
        for _ in range(rng.randrange(1, 4)):
            op = rng.choice(['vle', 'vle', 'lle', 'vlle', 'sle'])
            if op == 'vle': st = {'op': 'vle', **_vspec(rng)}
            elif op == 'lle': st = {'op': 'lle', 'T': round(rng.uniform(285, 355), 2), 'top': rng.choice([None] + ids)}
            elif op == 'vlle': st = {'op': 'vlle', 'T': round(rng.uniform(300, 420), 2), 'P': round(10 ** rng.uniform(4.5, 5.5), 1)}
            else: st = {'op': 'sle', 'solute': rng.choice([i for i in ids if i in VOL]), 'T': round(rng.uniform(250, 450), 2), 'sol': rng.choice([None, round(rng.random(), 4)])}
            steps.append(st)
        c['steps'] = steps
    elif t == 'stream':
        ids = _mixed_ids(rng, 1, 4, 0.3)
        c.update(ids=ids, flows=_flows(rng, ids), phase=rng.choice('gls'), T=round(rng.uniform(280, 400), 2), P=round(10 ** rng.uniform(4, 6), 1))
        op = rng.choice(['vle', 'vle', 'vle', 'vlle', 'lle', 'sle'])
        if op == 'vle': c['step'] = {'op': 'vle', **_vspec(rng)}
        elif op == 'vlle': c['step'] = {'op': 'vlle', 'T': round(rng.uniform(300, 420), 2), 'P': round(10 ** rng.uniform(4.5, 5.5), 1)}
        elif op == 'lle': c['step'] = {'op': 'lle', 'T': round(rng.uniform(285, 355), 2), 'top': rng.choice([None] + ids)}
        else: c['step'] = {'op': 'sle', 'solute': rng.choice([i for i in ids if i in VOL]), 'T': round(rng.uniform(250, 450), 2), 'sol': rng.choice([None, round(rng.random(), 4)])}
    elif t == 'seplle':
        base = rng.choice(LLE_BASE)
        extra = rng.sample([i for i in ('Ethanol', 'Methanol', 'Acetone', 'Propanol', 'Heptane') if i not in base], rng.randrange(0, 3))
        ids = list(base) + extra
        c.update(ids=ids, flows=_flows(rng, ids, -2, 3, 0.05), T=round(rng.uniform(285, 355), 2), eff=rng.choice([1.0, 0.0, round(rng.random(), 4), round(rng.random(), 4)]),
                 top=rng.choice([None] + ids), ms=rng.random() < 0.5)
    elif t == 'sepvle':
        ids = _mixed_ids(rng, 1, 4, 0.3)
        c.update(ids=ids, flows=_flows(rng, ids), dist=[rng.choice([0.0, 1.0, round(rng.random(), 3)]) for _ in ids], misplaced=rng.random() < 0.5,
                 fix=rng.choice('PPT'), T=round(rng.uniform(280, 450), 2), P=round(10 ** rng.uniform(4, 6.3), 1), f=round(rng.uniform(-0.3, 1.3), 4), ms=rng.random() < 0.5)
    elif t == 'vialocked':
        ids = _mixed_ids(rng, 1, 4, 0.0)
        ids.append(rng.choice(['N2', 'CO2']) if rng.random() < 0.6 else rng.choice(['Glucose', 'Glycerol']))
        if rng.random() < 0.4: ids.append(rng.choice([i for i in ('N2', 'CO2', 'Glucose', 'Glycerol') if i not in ids]))
        c.update(ids=ids, flows=_flows(rng, ids, -3, 3, 0.0), dist=[rng.choice([0.0, 1.0, round(rng.random(), 3)]) for _ in ids], misplaced=rng.random() < 0.5,
                 how=rng.choice(['mix_from', 'receive_vent', 'receive_vent']), eb=rng.random() < 0.5, ideal=rng.random() < 0.5,
                 T=round(rng.uniform(280, 420), 2), P=round(10 ** rng.uniform(4, 6.3), 1))
        # corners of the quantifier's T / P box where a locked chemical's own vapour pressure crosses P (CO2 below its critical point at high P; glycerol near 500 K at low P)
        r = rng.random()
        if r < 0.2:
            c['ids'] = [i for i in ids if i != 'CO2'] + ['CO2']; c['T'] = round(rng.uniform(250, 300), 2); c['P'] = round(10 ** rng.uniform(6.3, 6.7), 1); c['corner'] = 'cold-high-P'
        elif r < 0.3:
            c['ids'] = [i for i in ids if i != 'Glycerol'] + ['Glycerol']; c['T'] = round(rng.uniform(470, 500), 2); c['P'] = round(10 ** rng.uniform(4, 4.25), 1); c['corner'] = 'hot-low-P'
        if 'corner' in c:
            c['flows'] = _flows(rng, c['ids'], -3, 3, 0.0); c['dist'] = [rng.choice([0.0, 1.0, round(rng.random(), 3)]) for _ in c['ids']]
    elif t == 'xyplus':
        # two volatile chemicals with flow; the package also holds zero-flow volatiles and (with or without flow) phase-locked chemicals
        two = rng.sample(VOL, 2)
        zero = rng.sample([i for i in VOL if i not in two], rng.randrange(0, 3))
        lock = rng.sample(['N2', 'CO2', 'Glucose', 'Glycerol'], rng.randrange(0, 3))
        order = two + zero + lock
        perm = list(range(len(order))); rng.shuffle(perm)
        ids = [order[k] for k in perm]
        fl = {two[0]: round(10 ** rng.uniform(-1, 2), 4), two[1]: round(10 ** rng.uniform(-1, 2), 4)}
        for i in lock: fl[i] = rng.choice([0.0, 0.0, round(10 ** rng.uniform(-3, 0), 5)])
        c.update(ids=ids, two=two, flows=[fl.get(i, 0.0) for i in ids], dist=[round(rng.random(), 3) for _ in ids], pair=rng.choice(['Tx', 'Ty', 'Px', 'Py']),
                 T=round(rng.uniform(300, 420), 2), P=round(10 ** rng.uniform(4.3, 6), 1), at=rng.choice(['z', 'z', 'near', 'near', 'far']), xy=round(rng.uniform(0.02, 0.98), 4))
    elif t == 'shgo':
        ids = rng.sample(VOL, rng.choice([2, 2, 3]))
        if rng.random() < 0.3: ids.append(rng.choice(['N2', 'Glucose']))
        c.update(ids=ids, flows=_flows(rng, ids, -3, 3, 0.0), dist=[rng.choice([0.0, 1.0, round(rng.random(), 3)]) for _ in ids], **_vspec(rng, ('TP', 'TP', 'TV', 'PV')))
    elif t == 'llekw':
        base = rng.choice(LLE_BASE)
        extra = rng.sample([i for i in ('Ethanol', 'Methanol', 'Acetone', 'Propanol', 'Heptane') if i not in base], rng.randrange(0, 3))
        lock = rng.sample(['N2', 'Glucose', 'Glycerol'], rng.randrange(0, 2))
        ids = list(base) + extra + lock
        ph = rng.choice(['Ll', 'Ll', 'Lgl', 'Lls'])
        c.update(ids=ids, phases=ph, flows=_flows(rng, ids, -2, 3, 0.15), T=round(rng.uniform(285, 355), 2), w=[[rng.choice([0.0, 1.0, round(rng.random(), 3)]) for _ in ph] for _ in ids],
                 method=rng.choice(['pseudo equilibrium', 'pseudo equilibrium', 'pseudo equilibrium', 'shgo']), top=rng.choice([None] + ids),
                 kw={'P': rng.choice([None, round(10 ** rng.uniform(4, 6), 1)]), 'single_loop': rng.random() < 0.4, 'use_cache': rng.random() < 0.5, 'update': rng.random() < 0.7},
                 again=rng.random() < 0.5)
    elif t == 'vlle3':
        # water + partially miscible organics around the heteroazeotrope: the three-phase branch of Stream.vlle (fixed point on normalised data, rescaled afterwards)
        org = rng.sample(['Butanol', 'Hexane', 'Heptane', 'Octane', 'Benzene', 'Toluene'], rng.choice([1, 2, 2]))
        ids = ['Water'] + org + rng.sample(['Propanol', 'Ethanol', 'N2', 'Glucose'], rng.choice([0, 0, 1]))
        scale = rng.choice([1e-3, 1.0, 1.0, 1e3])
        c.update(ids=ids, flows=[round(scale * rng.uniform(0.2, 1), 8) for _ in ids], T=round(rng.uniform(330, 372), 2), P=round(101325 * rng.uniform(0.8, 1.25), 1),
                 phases=rng.choice(['gl', 'Lgl', 'S']), w=[[rng.choice([0.0, 1.0, round(rng.random(), 3)]) for _ in range(3)] for _ in ids], again=rng.random() < 0.4)
    else:   # repeat2
        ids = _mixed_ids(rng, 2, 5, 0.3)
        c.update(ids=ids, flows=_flows(rng, ids, -3, 3, 0.25), dist=[rng.choice([0.0, 1.0, round(rng.random(), 3)]) for _ in ids], misplaced=rng.random() < 0.5,
                 first=_vspec(rng), second=_vspec(rng),
                 # between the calls: every row scaled, one chemical removed, one that was absent added
                 mult=[[rng.choice([1.0, round(10 ** rng.uniform(-2, 2), 4)]) for _ in ids] for _ in 'gl'], drop=rng.choice([None] + list(range(len(ids)))),
                 add=[rng.choice([0.0, round(10 ** rng.uniform(-3, 3), 5)]) for _ in ids])
    return c


def arr2(s):
    """phase x chemical array and phase names of a Stream or MultiStream"""
    if isinstance(s, tmo.MultiStream): return array_of(s)
    return np.array([s.imol.data.to_array()]), (s.phase,)


def judge2(rec, clause, tag, before, after, chemicals, case, pool=None, feed_total=None):
    """balance over all rows, signs, and (pool = names of the rows the call distributes) the placement of phase-locked chemicals within that pool"""
    b, bph = before; a, aph = after
    tot_b = b.sum(0) if feed_total is None else feed_total; tot_a = a.sum(0)
    F = tot_b.sum()
    bad = np.abs(tot_a - tot_b) > 1e-12 * np.maximum(np.abs(tot_a), np.abs(tot_b)) + 1e-12 * F
    worst = float((np.abs(tot_a - tot_b) / max(F, 1e-300)).max())
    ids = [c.ID for c in chemicals]
    rec.check(not bad.any(), clause, f'balance/{tag}', f'{tag}: per-chemical totals changed: ' + ', '.join(f'{ids[i]}: {tot_b[i]!r} -> {tot_a[i]!r}' for i in np.where(bad)[0][:4]) + f' (rows {bph} -> {aph})', residual=worst)
    neg = [(aph[r], ids[j], float(a[r, j])) for r, j in zip(*np.where(a < 0))]
    rec.check(not neg, clause, f'negative/{tag}', f'{tag}: negative phase flows after a normal return: {neg[:4]}')
    if pool:
        gi = aph.index('g') if 'g' in aph else None
        rows_ = [r for r, p in enumerate(aph) if p in pool]
        for j, c in enumerate(chemicals):
            ls = c.locked_state
            pooled = float(sum(a[r, j] for r in rows_))
            if ls == 'g' and pooled > 0:
                rec.hit('locked:gas')
                rec.check(gi is not None and a[gi, j] == pooled, clause, f'gas-locked/{tag}', f'{tag}: gas-only chemical {c.ID} not entirely in the gas phase: ' + str({p: float(a[r, j]) for r, p in enumerate(aph)}))
            elif ls in ('l', 's') and pooled > 0:
                rec.hit('locked:heavy')
                rec.check(gi is None or a[gi, j] == 0, clause, f'heavy-locked/{tag}', f'{tag}: {ls}-only chemical {c.ID} appears in the gas phase: {float(a[gi, j]) if gi is not None else 0}')
    if sum(1 for r in a if r.sum() > 0) >= 2 or (pool and any(c.locked_state for j, c in enumerate(chemicals) if tot_a[j] > 0)): rec.mark_nontrivial(case_hash(case))


def build_rows(case, th, ph):
    s = tmo.MultiStream(None, phases=tuple(ph), T=case['T'], P=case.get('P', 101325.), thermo=th)
    for i, v, w in zip(case['ids'], case['flows'], case['w']):
        if not v: continue
        w = list(w[:len(ph)]); tot = sum(w)
        if not tot: w = [1.0] + [0.0] * (len(ph) - 1); tot = 1.0
        for p, x in zip(ph, w):
            if x: s.imol[p, i] = v * x / tot
    return s


def vle_kwargs(st, s):
    pair = st['pair']; T, P, V = st['T'], st['P'], st['V']
    if pair == 'TP': return {'T': T, 'P': P}
    if pair == 'TV': return {'T': T, 'V': V}
    if pair == 'PV': return {'P': P, 'V': V}
    fixed = {'P': P} if pair[0] == 'P' else {'T': T}
    probe = s.copy()
    probe.vle(V=0.02, **fixed); lo = probe.H if pair[1] == 'H' else probe.S
    probe.vle(V=0.98, **fixed); hi = probe.H if pair[1] == 'H' else probe.S
    return {**fixed, pair[1]: lo + st['f'] * (hi - lo)}


def do_step(rec, st, s, chemicals, case, where):
    """one equilibrium call on s (Stream or MultiStream); returns False when the call did not return normally"""
    op = st['op']
    tag = f'{where}/{op}' + (':' + st['pair'] if op == 'vle' else '')
    try:
        if op == 'vle':
            kw = vle_kwargs(st, s)
            before = arr2(s); s.vle(**kw); pool = 'gl'
        elif op == 'lle':
            before = arr2(s); s.lle(st['T'], top_chemical=st['top']); pool = None
        elif op == 'vlle':
            before = arr2(s); s.vlle(st['T'], st['P']); pool = 'Lgl'
        else:
            before = arr2(s)
            s.sle(st['solute'], T=st['T'], **({'solubility': st['sol']} if st['sol'] is not None else {})); pool = None
    except Exception as e:
        if refused(e) or isinstance(e, AssertionError): rec.refuse(f'{tag}: {type(e).__name__}'); return False
        rec.exception(where, e, what=f'{tag} on {case["ids"]} raised {type(e).__name__}: {str(e)[:140]}'); return False
    rec.hit(f'{where}:{op}')
    judge2(rec, where, tag, before, arr2(s), chemicals, case, pool=pool)
    e = stream_invariant(s)
    rec.check(e is None, 'invariant', tag, f'sparse invariant after {tag}: {e}')
    return True


def run_case2(case, rec):
    rec.begin_case(case)
    t = case['t']
    with warnings.catch_warnings():
        warnings.simplefilter('ignore')
        try:
            th = thermo(case['ids'])
        except Exception as e:
            rec.exception('setup', e, what=f'building thermo for {case["ids"]} raised {type(e).__name__}: {e}'); return
        tmo.settings.set_thermo(th)
        chemicals = tuple(th.chemicals)
        if t == 'seq':
            s = build_rows(case, th, case['phases'])
            start_rows = {p for p, r in zip(s.phases, array_of(s)[0]) if r.sum() > 0}
            if start_rows - {'g', 'l'}: rec.hit('dist:material-in-L-or-s')
            done = []
            for st in case['steps']:
                if not do_step(rec, st, s, chemicals, case, 'seq'): break
                done.append(st['op'])
                if len(done) >= 2 and done[-1] != done[-2]: rec.hit('seq:cross-kind')
                if st['op'] == 'vle' and len(s.phases) > 2: rec.hit('seq:vle-on-3+phases')
                if st['op'] == 'vlle' and 'L' in start_rows: rec.hit('seq:vlle-with-L')
        elif t == 'stream':
            s = tmo.Stream(None, phase=case['phase'], T=case['T'], P=case['P'], thermo=th)
            for i, v in zip(case['ids'], case['flows']):
                if v: s.imol[i] = v
            if do_step(rec, case['step'], s, chemicals, case, 'stream'):
                rec.hit('stream:' + case['phase'])
        elif t == 'seplle':
            feed = tmo.Stream(None, phase='l', T=case['T'], thermo=th)
            for i, v in zip(case['ids'], case['flows']):
                if v: feed.imol[i] = v
            top = tmo.Stream(None, thermo=th); bottom = tmo.Stream(None, thermo=th)
            ms = tmo.MultiStream(None, phases=('L', 'l'), thermo=th) if case['ms'] else None
            before = arr2(feed)
            eff = case['eff']; etag = 'efficiency=1' if eff == 1 else ('efficiency=0' if eff == 0 else 'efficiency<1')
            try:
                sep.lle(feed, top, bottom, top_chemical=case['top'], efficiency=eff, multi_stream=ms)
            except Exception as e:
                if refused(e): rec.refuse(f'separations.lle: {type(e).__name__}'); return
                rec.exception('via', e, what=f'separations.lle on {case["ids"]} raised {type(e).__name__}: {str(e)[:140]}'); return
            rec.hit('via:separations.lle'); rec.hit('separations.lle:' + etag)
            rec.check(np.array_equal(arr2(feed)[0], before[0]), 'via', 'separations.lle/feed-changed', 'separations.lle changed the feed')
            after = (np.array([top.imol.data.to_array(), bottom.imol.data.to_array()]), ('top', 'bottom'))
            judge2(rec, 'via', f'separations.lle/{etag}', before, after, chemicals, case)
            if ms is not None:
                rec.hit('separations.lle:multi_stream')
                judge2(rec, 'via', 'separations.lle/multi_stream', before, arr2(ms), chemicals, case)
        elif t == 'sepvle':
            feed = make_stream(case, th)
            vap = tmo.Stream(None, thermo=th); liq = tmo.Stream(None, thermo=th)
            ms = tmo.MultiStream(None, phases=('g', 'l'), thermo=th) if case['ms'] else None
            fixed = {'P': case['P']} if case['fix'] == 'P' else {'T': case['T']}
            try:
                probe = feed.copy()
                probe.vle(V=0.02, **fixed); lo = probe.H
                probe.vle(V=0.98, **fixed); hi = probe.H
                Q = lo + case['f'] * (hi - lo) - feed.H
                before = arr2(feed)
                sep.vle(feed, vap, liq, Q=Q, multi_stream=ms, **fixed)
            except Exception as e:
                if refused(e) or isinstance(e, AssertionError): rec.refuse(f'separations.vle(Q): {type(e).__name__}'); return
                rec.exception('via', e, what=f'separations.vle({fixed}, Q=...) on {case["ids"]} raised {type(e).__name__}: {str(e)[:140]}'); return
            rec.hit('via:separations.vle(Q)')
            rec.check(np.array_equal(arr2(feed)[0], before[0]), 'via', 'separations.vle(Q)/feed-changed', 'separations.vle changed the feed')
            after = (np.array([vap.imol.data.to_array(), liq.imol.data.to_array()]), ('g', 'l'))
            tag = f'separations.vle/{case["fix"]}Q'
            judge2(rec, 'via', tag, before, after, chemicals, case, pool='gl')
            if ms is not None:
                rec.hit('separations.vle:multi_stream')
                judge2(rec, 'via', tag + '/multi_stream', before, arr2(ms), chemicals, case, pool='gl')
        elif t == 'vialocked':
            s = make_stream(case, th); arr = array_of(s)[0]          # rows g, l
            how = case['how']
            try:
                if how == 'mix_from':
                    a_ = tmo.Stream(None, thermo=th, T=case['T'], P=case['P'], phase='l'); b_ = tmo.Stream(None, thermo=th, T=min(case['T'] + 40, 500), P=case['P'], phase='g')
                    for j, i in enumerate(th.chemicals.IDs):
                        if arr[1, j]: a_.imol[i] = arr[1, j]
                        if arr[0, j]: b_.imol[i] = arr[0, j]
                    if a_.isempty() or b_.isempty(): rec.refuse('one inlet empty'); return
                    recv = tmo.MultiStream(None, phases=('g', 'l'), thermo=th)
                    recv.mix_from([a_, b_], energy_balance=case['eb'], vle=True)
                    after = arr2(recv); tag = 'mix_from(vle=True)'; rec.hit('mix_from(vle=True):energy_balance=' + str(case['eb']))
                else:
                    liq = tmo.Stream(None, thermo=th, T=case['T'], P=case['P'], phase='l'); vent = tmo.Stream(None, thermo=th, T=case['T'], P=case['P'], phase='g')
                    for j, i in enumerate(th.chemicals.IDs):
                        if arr[1, j]: liq.imol[i] = arr[1, j]
                        if arr[0, j]: vent.imol[i] = arr[0, j]
                    if liq.isempty() or vent.isempty(): rec.refuse('one side empty'); return
                    vent.receive_vent(liq, energy_balance=case['eb'], ideal=case['ideal'])
                    if vent.phase != 'g' or liq.phase != 'l': rec.refuse('receive_vent: outlet phases relabelled'); return
                    after = (np.array([vent.imol.data.to_array(), liq.imol.data.to_array()]), ('g', 'l'))
                    tag = 'receive_vent'; rec.hit(f'receive_vent:energy_balance={case["eb"]}/ideal={case["ideal"]}')
            except Exception as e:
                if refused(e) or isinstance(e, AssertionError): rec.refuse(f'{how}: {type(e).__name__}'); return
                rec.exception('via', e, what=f'{how} on {case["ids"]} raised {type(e).__name__}: {str(e)[:140]}'); return
            rec.hit('via-locked:' + how)
            if case.get('corner'): rec.hit('via-locked:' + case['corner'])
            judge2(rec, 'via-locked', tag, (arr, ('g', 'l')), after, chemicals, case, pool='gl')
        elif t == 'xyplus':
            s = make_stream(case, th)
            two = case['two']; fa, fb = (case['flows'][case['ids'].index(i)] for i in two)
            zA = fa / (fa + fb)
            if case['at'] == 'z': v = zA                                         # the lever rule at its end point: the named phase is the whole mixture
            elif case['at'] == 'near': v = min(max(zA * (0.6 + 0.8 * case['xy']), 0.01), 0.99)
            else: v = case['xy']
            # the composition is given over the chemicals in equilibrium in package order
            comp = [v, 1 - v] if case['ids'].index(two[0]) < case['ids'].index(two[1]) else [1 - v, v]
            pair = case['pair']
            kw = {('T' if pair[0] == 'T' else 'P'): case[pair[0]], pair[1]: comp}
            before = arr2(s)
            locked_flow = any(v_ and chem(i).locked_state for i, v_ in zip(case['ids'], case['flows']))
            try:
                s.vle(**kw)
            except Exception as e:
                if refused(e) or isinstance(e, AssertionError): rec.refuse(f'vle:{pair} (package with extra members): {type(e).__name__}'); return
                rec.exception('vle:' + pair, e, what=f'vle({kw}) on {case["ids"]} raised {type(e).__name__}: {str(e)[:140]}'); return
            rec.hit('xy:extra-package-members')
            if case['at'] == 'z': rec.hit('xy:at-feed-composition')
            if locked_flow: rec.hit('xy:with-locked-flow')
            judge2(rec, 'vle:' + pair, f'vle:{pair}/extra-package-members', before, arr2(s), chemicals, case, pool='gl')
        elif t == 'shgo':
            s = make_stream(case, th)
            before = arr2(s)
            try:
                kw = vle_kwargs(case, s)
                vle = s.vle; vle.method = 'shgo'
                vle(**kw)
            except Exception as e:
                if refused(e) or isinstance(e, AssertionError): rec.refuse(f'vle(shgo):{case["pair"]}: {type(e).__name__}'); return
                rec.exception('vle-shgo', e, what=f'vle(method=shgo, {case["pair"]}) on {case["ids"]} raised {type(e).__name__}: {str(e)[:140]}'); return
            rec.hit('vle:method=shgo')
            judge2(rec, 'vle-shgo', f'vle:{case["pair"]}/method=shgo', before, arr2(s), chemicals, case, pool='gl')
        elif t == 'llekw':
            s = build_rows(case, th, case['phases'])
            kw = dict(case['kw'])
            tag = 'lle/' + case['method'] + ''.join(f'/{k}' for k in ('single_loop',) if kw[k]) + ('/P' if kw['P'] else '') + ('' if kw['use_cache'] else '/no-cache') + ('' if kw['update'] else '/update=False')
            before = arr2(s)
            try:
                lle = s.lle; lle.method = case['method']
                if case['again']: lle(case['T'] + 9.0, top_chemical=case['top'])       # a remembered solution for the call forms to start from
                b2 = arr2(s)
                ret = lle(case['T'], top_chemical=case['top'], **kw)
            except Exception as e:
                if refused(e): rec.refuse(f'lle call form: {type(e).__name__}'); return
                rec.exception('lle', e, what=f'{tag} on {case["ids"]} raised {type(e).__name__}: {str(e)[:140]}'); return
            rec.hit('lle:call-forms')
            for k in ('single_loop', 'P'):
                if kw[k]: rec.hit('lle:' + k)
            if not kw['update']: rec.hit('lle:update=False')
            if not kw['use_cache']: rec.hit('lle:use_cache=False')
            if any(v == 0 for v in case['flows']): rec.hit('lle:zero-flow-member')
            judge2(rec, 'lle', tag, b2, arr2(s), chemicals, case)
            judge2(rec, 'lle', tag + '/from-start', before, arr2(s), chemicals, case)
        elif t == 'vlle3':
            if case['phases'] == 'S':
                s = tmo.Stream(None, phase='l', T=case['T'], P=case['P'], thermo=th)
                for i, v in zip(case['ids'], case['flows']): s.imol[i] = v
            else:
                c2 = dict(case, w=[w[:len(case['phases'])] for w in case['w']])
                s = build_rows(c2, th, case['phases'])
            before = arr2(s)
            n = 2 if case['again'] else 1
            for k in range(n):
                b = arr2(s)
                try:
                    s.vlle(case['T'] + 1.5 * k, case['P'])
                except Exception as e:
                    if refused(e): rec.refuse(f'vlle: {type(e).__name__}'); return
                    rec.exception('vlle', e, what=f'vlle on {case["ids"]} raised {type(e).__name__}: {str(e)[:140]}'); return
                a = arr2(s)
                nz = sum(1 for r in a[0] if r.sum() > 0)
                rec.hit('vlle')
                if nz == 3: rec.hit('vlle:three-phase')
                if k: rec.hit('vlle:repeated')
                judge2(rec, 'vlle', 'vlle/' + ('three-phase' if nz == 3 else 'fewer-phases') + ('/repeated' if k else ''), b, a, chemicals, case, pool='Lgl')
        elif t == 'repeat2':
            s = make_stream(case, th)
            try:
                kw = vle_kwargs(case['first'], s)
                s.vle(**kw)
            except Exception as e:
                if refused(e) or isinstance(e, AssertionError): rec.refuse(f'first call: {type(e).__name__}'); return
                rec.exception('repeated-call', e, what=f'first vle call raised {type(e).__name__}: {str(e)[:120]}'); return
            # the feed changes between the calls on the same stream (and therefore the same remembered solver)
            a0 = array_of(s)[0]
            ids = th.chemicals.IDs
            for r, p in enumerate(s.phases):
                for j, i in enumerate(ids):
                    v = a0[r, j] * case['mult'][r][j]
                    if case['drop'] == j: v = 0.0
                    if p == 'l' and a0[:, j].sum() == 0 and case['add'][j] and case['drop'] != j: v = case['add'][j]
                    s.imol[p, i] = v
            if not array_of(s)[0].any(): rec.refuse('nothing left after the change'); return
            present0 = a0.sum(0) > 0; present1 = array_of(s)[0].sum(0) > 0
            try:
                kw = vle_kwargs(case['second'], s)
                before = arr2(s)
                s.vle(**kw)
            except Exception as e:
                if refused(e) or isinstance(e, AssertionError): rec.refuse(f'second call: {type(e).__name__}'); return
                rec.exception('repeated-call', e, what=f'second vle call raised {type(e).__name__}: {str(e)[:120]}'); return
            rec.hit('repeated-call:changed-feed')
            if (present0 != present1).any(): rec.hit('repeated-call:chemical-set-changed')
            else: rec.hit('repeated-call:same-chemical-set')
            judge2(rec, 'repeated-call', f'changed-feed/vle:{case["second"]["pair"]}', before, arr2(s), chemicals, case, pool='gl')

def replay(case, rec):
    run_case(case, rec)


def run(rec, rng, tier, shard, nshards):
    n = 260 if tier == 'quick' else 4000
    for i in range(n):
        case = gen_case(rng)
        try:
            run_case(case, rec)
        except Exception as e:
            rec.exception('harness', e, what=f'harness error: {type(e).__name__}: {e}')
        if i % 67 == 0: rec.sample(case)
    # second family of cases (coverage audit): other initial distributions, receivers, call forms and histories
    n2 = 300 if tier == 'quick' else 4500
    for i in range(n2):
        case = gen_case2(rng)
        try:
            run_case(case, rec)
        except Exception as e:
            rec.exception('harness', e, what=f'harness error: {type(e).__name__}: {e}')
        if i % 67 == 0: rec.sample(case)
