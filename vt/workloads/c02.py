"""C02 — stream energy balance: enthalpy is conserved on mixing and invertible in temperature.

Monitor (EnergyLedger): H, S, T, P, C of the inlets and the receiver are recorded around real mix_from(energy_balance=True, Q=...)
and separate_out(energy_balance=True) calls and around H / h / S assignments; balances and read-backs are evaluated.
"""
import numpy as np
import thermosteam as tmo
from vt.core import case_hash
from vt.common import thermo_of

PID = 'C02'
RULE = ('1-4 non-empty inlets (single-inlet path is its own clause), liquid and gas, T inside the model range (liquids 260-440 K, gases 280-500 K), P 1e4-1e7 Pa, heat input Q = 0 / +-(up to 30 K)*sum(C) given as a number '
        'or through heat objects among the inlets; separate_out with energy balance; H / h / S assignment on single- and multi-phase streams with targets between the values at the ends of the temperature range and '
        'assignment of the current value. Entropy clauses use only (chemical, phase) pairs whose heat-capacity model integrates consistently (conditioning probe). '
        'non-trivial = >=2 chemicals and (inlet temperatures spread >=5 K or Q != 0), or a target >=1 K away; distinct = hash of the case')
MIN_NONTRIVIAL = {'quick': 400, 'thorough': 10000}
ASSUMPTIONS = ['bound 1e-5 K times the heat-capacity flow of the result (the solver tolerance is 1e-6 K)', 'ill-conditioned external heat-capacity integrals are excluded from the entropy clauses and reported as not judged']
IDS = ('Water', 'Ethanol', 'Methanol', 'Octane', 'Acetone', 'Toluene')


def required(tier):
    return ['mix', 'mix:single-inlet', 'mix:Q', 'mix:heat-object', 'mix:pressure', 'separate', 'set-H', 'set-h', 'set-S', 'set-current', 'multi-phase']


class Heat:
    """stands for a heat / power object among the inlets (mix_from adds its .heat)"""
    def __init__(self, heat): self.heat = heat
    def __bool__(self): return True


def Trange(phase):
    return (260., 440.) if phase == 'l' else (280., 500.)


def gen_inlet(rng, phase, n):
    lo, hi = Trange(phase)
    return {'phase': phase, 'T': round(rng.uniform(lo + 5, hi - 5), 2), 'P': round(10 ** rng.uniform(4, 7), 1),
            'flows': [0.0 if rng.random() < 0.35 else round(10 ** rng.uniform(-2, 3), 4) for _ in range(n)]}


def gen_case(rng):
    n = len(IDS)
    t = rng.choices(['mix', 'mix', 'sep', 'set', 'set', 'setm'], [4, 4, 2, 4, 4, 2])[0]
    phase = rng.choice('lg')
    if t == 'mix':
        k = rng.choice([1, 1, 2, 2, 3, 4])
        inlets = [gen_inlet(rng, phase, n) for _ in range(k)]
        for i in inlets:
            if not any(i['flows']): i['flows'][rng.randrange(n)] = 1.0
        if rng.random() < 0.3: inlets.append({'phase': phase, 'T': 300., 'P': 5e4, 'flows': [0.0] * n})     # an empty inlet: ignored also for the pressure
        q = rng.choice([0.0, 0.0, rng.uniform(-30, 30)])
        return {'t': 'mix', 'inlets': inlets, 'qK': round(q, 3), 'heat_obj': rng.random() < 0.3 and q != 0, 'recv_in': rng.random() < 0.2}
    if t == 'sep':
        a = gen_inlet(rng, phase, n); b = gen_inlet(rng, phase, n)
        if not any(a['flows']): a['flows'][0] = 5.0
        return {'t': 'sep', 'a': a, 'b': b}
    if t == 'set':
        s = gen_inlet(rng, phase, n)
        if not any(s['flows']): s['flows'][0] = 5.0
        return {'t': 'set', 's': s, 'which': rng.choice(['H', 'h', 'S', 'H', 'S']), 'f': round(rng.uniform(0.03, 0.97), 4), 'current': rng.random() < 0.25}
    s = {'T': round(rng.uniform(300, 400), 2), 'P': rng.choice([101325., 3e5]), 'l': [0.0 if rng.random() < 0.3 else round(10 ** rng.uniform(-1, 2), 4) for _ in range(n)],
         'g': [0.0 if rng.random() < 0.3 else round(10 ** rng.uniform(-1, 2), 4) for _ in range(n)]}
    if not any(s['l']): s['l'][0] = 3.0
    if not any(s['g']): s['g'][1] = 2.0
    return {'t': 'setm', 's': s, 'which': rng.choice(['H', 'h', 'S']), 'dT': round(rng.uniform(-25, 25), 3), 'current': rng.random() < 0.25}


def mk(th, d):
    s = tmo.Stream(None, phase=d['phase'], T=d['T'], P=d['P'], thermo=th)
    for i, v in zip(IDS, d['flows']):
        if v: s.imol[i] = v
    return s


def s_ok(s):
    """entropy of this stream is computed from well-conditioned heat-capacity integrals only"""
    from vt.workloads.c07 import well_conditioned
    phases = s.phases if isinstance(s, tmo.MultiStream) else (s.phase,)
    for ph in phases:
        flows = s.imol[ph] if isinstance(s, tmo.MultiStream) else s.mol
        for c, v in zip(s.chemicals, flows.to_array() if hasattr(flows, 'to_array') else flows):
            if v and not well_conditioned(getattr(c.Cn, ph), s.T): return False
    return True


def run_case(case, rec):
    rec.begin_case(case)
    th = thermo_of(IDS)
    tmo.settings.set_thermo(th)
    t = case['t']
    try:
        if t == 'mix':
            ins = [mk(th, d) for d in case['inlets']]
            nonempty = [s for s in ins if not s.isempty()]
            phase = case['inlets'][0]['phase']
            recv = ins[0] if case['recv_in'] else tmo.Stream(None, phase=phase, thermo=th)
            Hin = sum(s.H for s in nonempty); Cin = sum(s.C for s in nonempty)
            Q = case['qK'] * Cin
            Pmin = min(s.P for s in nonempty)
            Ts = [s.T for s in nonempty]
            others = list(ins)
            kw = {}
            if Q:
                if case['heat_obj']: others.append(Heat(Q)); rec.hit('mix:heat-object')
                else: kw['Q'] = Q
                rec.hit('mix:Q')
            recv.mix_from(others, energy_balance=True, **kw)
            Hout = recv.H; Cout = recv.C
            lo, hi = Trange(phase)
            if not (lo - 40 < recv.T < hi + 60): rec.refuse('mixed temperature outside the model range'); return
            tag = ('single-inlet' if len(nonempty) == 1 else 'multi-inlet') + ('/Q' if Q else '') + ('/heat-object' if Q and case['heat_obj'] else '') + ('/receiver-among-inlets' if case['recv_in'] else '')
            res = abs(Hout - (Hin + Q))
            rec.check(res <= 1e-5 * Cout, 'mix', f'enthalpy/{tag}', f'mix_from: H out {Hout!r} != sum H in {Hin!r} + Q {Q!r} (residual {res:.4g} kJ/hr = {res / Cout:.3g} K * C; T in {Ts}, T out {recv.T})', residual=res / Cout)
            rec.check(recv.P == Pmin, 'mix:pressure', tag, f'mix_from: P out {recv.P!r} != lowest pressure among the non-empty inlets {Pmin!r}')
            if len(nonempty) == 1: rec.hit('mix:single-inlet')
            # the inlets (other than the receiver) still report their own enthalpy and temperature, also when read again after the mix ...
            for s_in, d in zip(ins, case['inlets']):
                if s_in is recv or s_in.isempty(): continue
                tw = mk(th, d)
                rec.check(s_in.T == d['T'] and abs(s_in.H - tw.H) <= 1e-9 * abs(tw.H) + 1e-9, 'mix', f'inlet-changed/{tag}',
                          f'after mix_from an inlet reports H={s_in.H!r}, T={s_in.T!r}; a fresh stream in the same state has H={tw.H!r}, T={d["T"]}')
            # ... and the unit can be run again on the same objects (outlets are re-used between runs)
            if not case['recv_in']:
                recv.mix_from(others, energy_balance=True, **kw)
                H2 = recv.H
                Hin2 = sum(mk(th, d).H for d in case['inlets'] if any(d['flows']))
                rec.check(abs(H2 - (Hin2 + Q)) <= 1e-5 * recv.C, 'mix', f'second-run/{tag}', f'second mix_from on the same objects: H out {H2!r} != sum H in {Hin2!r} + Q {Q!r} (first run gave {Hout!r})',
                          residual=abs(H2 - (Hin2 + Q)) / recv.C)
                # assigning an inlet its own enthalpy leaves its temperature alone
                for s_in, d in zip(ins, case['inlets']):
                    if s_in.isempty(): continue
                    s_in.H = s_in.H
                    rec.check(abs(s_in.T - d['T']) <= 1e-6, 'set-current', 'inlet-after-mix', f'after mixing, assigning an inlet its own H moved its T from {d["T"]} to {s_in.T!r}')
            nchem = int((recv.mol.to_array() > 0).sum())
            if nchem >= 2 and (max(Ts) - min(Ts) >= 5 or Q): rec.mark_nontrivial(case_hash(case))
        elif t == 'sep':
            a = mk(th, case['a']); b = mk(th, case['b'])
            m = tmo.Stream(None, phase=a.phase, thermo=th)
            m.mix_from([a, b], energy_balance=True)
            lo, hi = Trange(a.phase)
            H0 = m.H; Hb = b.H
            m.separate_out(b, energy_balance=True)
            if m.isempty(): rec.refuse('nothing left after separation'); return
            H1 = m.H; C1 = m.C
            if not (lo - 60 < m.T < hi + 80): rec.refuse('temperature after separation outside the model range'); return
            res = abs(H1 - (H0 - Hb))
            rec.check(res <= 1e-5 * C1 + 1e-12 * abs(H0), 'separate', 'enthalpy', f'separate_out: H after {H1!r} != H before {H0!r} - H other {Hb!r} (residual {res:.4g}, C {C1:.4g})', residual=res / C1)
            rec.mark_nontrivial(case_hash(case))
        elif t == 'set':
            s = mk(th, case['s']); which = case['which']; phase = s.phase
            lo, hi = Trange(phase)
            if which == 'S' and not s_ok(s): rec.refuse('ill-conditioned external heat-capacity integral: entropy clause not judged'); return
            T0 = s.T
            def at(T):
                s.T = T; return getattr(s, which)
            vlo, vhi = at(lo), at(hi); s.T = T0
            cur = getattr(s, which)
            if case['current']:
                setattr(s, which, cur)
                rec.check(abs(s.T - T0) <= 1e-6 and s.phase == phase, 'set-current', which, f'assigning the current {which} moved T by {s.T - T0!r} (phase {s.phase})', residual=abs(s.T - T0))
                return
            target = vlo + case['f'] * (vhi - vlo)
            setattr(s, which, target)
            back = getattr(s, which)
            C = s.C if which != 'h' else s.Cn
            bound = 1e-5 * C if which in ('H', 'h') else 1e-5 * C / s.T
            rec.check(abs(back - target) <= bound, 'set-' + which, 'read-back', f'{which} = {target!r} then reading gives {back!r} (T {T0} -> {s.T}; bound {bound:.3g})', residual=abs(back - target) / max(bound / 1e-5, 1e-300))
            rec.check(s.phase == phase, 'set-' + which, 'phase-changed', f'{which} assignment inside the single-phase range changed the phase label {phase} -> {s.phase}')
            rec.check(lo - 1e-3 <= s.T <= hi + 1e-3, 'set-' + which, 'T-range', f'{which} target between the end values gave T={s.T} outside [{lo},{hi}]')
            if abs(s.T - T0) >= 1: rec.mark_nontrivial(case_hash(case))
        else:
            d = case['s']; which = case['which']
            s = tmo.MultiStream(None, phases=('g', 'l'), T=d['T'], P=d['P'], thermo=th)
            for ph in 'lg':
                for i, v in zip(IDS, d[ph]):
                    if v: s.imol[ph, i] = v
            rec.hit('multi-phase')
            if which == 'S' and not s_ok(s): rec.refuse('ill-conditioned external heat-capacity integral: entropy clause not judged'); return
            T0 = s.T
            cur = getattr(s, which)
            if case['current']:
                setattr(s, which, cur)
                rec.check(abs(s.T - T0) <= 1e-6, 'set-current', which + '/multi', f'assigning the current {which} of a multi-phase stream moved T by {s.T - T0!r}', residual=abs(s.T - T0))
                return
            s.T = T0 + case['dT']; target = getattr(s, which); s.T = T0
            setattr(s, which, target)
            back = getattr(s, which)
            C = s.C if which != 'h' else s.C / s.F_mol
            bound = 1e-5 * C if which in ('H', 'h') else 1e-5 * C / s.T
            rec.check(abs(back - target) <= bound, 'set-' + which, 'read-back/multi', f'multi-phase {which} = {target!r} then reading gives {back!r} (T {T0} -> {s.T})', residual=abs(back - target) / max(bound / 1e-5, 1e-300))
            rec.check(abs(s.T - (T0 + case['dT'])) <= 1e-4, 'set-' + which, 'T/multi', f'multi-phase {which} assignment: T {s.T} expected {T0 + case["dT"]}')
            if abs(case['dT']) >= 1: rec.mark_nontrivial(case_hash(case))
    except Exception as e:
        rec.exception(t, e, what=f'{t} case raised {type(e).__name__}: {str(e)[:160]}')


def replay(case, rec):
    run_case(case, rec)


def run(rec, rng, tier, shard, nshards):
    n = 1500 if tier == 'quick' else 12000
    for i in range(n):
        case = gen_case(rng)
        try:
            run_case(case, rec)
        except Exception as e:
            rec.exception('harness', e, what=f'harness error: {type(e).__name__}: {e}')
        if i % 101 == 0: rec.sample(case)
