"""C02 — stream energy balance: enthalpy is conserved on mixing and invertible in temperature.

Monitor (EnergyLedger): H, S, T, P, C of the inlets and the receiver are recorded around real mix_from(energy_balance=True, Q=...)
and separate_out(energy_balance=True) calls and around H / h / S assignments; balances and read-backs are evaluated.
"""
import numpy as np
import thermosteam as tmo
from vt.core import case_hash
from vt.common import thermo_of, SA

PID = 'C02'
RULE = ('1-4 non-empty inlets (single-inlet path is its own clause), liquid and gas, T inside the model range (liquids 260-440 K, gases 280-500 K), P 1e4-1e7 Pa, heat input Q = 0 / +-(up to 30 K)*sum(C) given as a number '
        'or through heat objects among the inlets; separate_out with energy balance; H / h / S assignment on single- and multi-phase streams with targets between the values at the ends of the temperature range and '
        'assignment of the current value. Entropy clauses use only (chemical, phase) pairs whose heat-capacity model integrates consistently (conditioning probe). '
        'non-trivial = >=2 chemicals and (inlet temperatures spread >=5 K or Q != 0), or a target >=1 K away; distinct = hash of the case. Second generation (appended cases): inlet phases drawn '
        'independently (liquid+gas mixes), multi-phase (g,l) inlets and receivers, receivers of any phase/T/P with stale content, the receiver at any position / twice among the inlets, Q split over Q= and 0-3 heat objects, '
        'None among the inlets, conserve_phases=True, Stream.sum / a+b / 0+a / a+=b / a-=b forms, separate_out of a stream in another phase / multi-phase / the stream itself / an empty stream, Hnet assignment, targets at the '
        'very ends of the range, multi-phase streams over g/l/L holding an empty phase, one non-empty phase or a single phase. Oracle audit 2: every H / h / Hnet / S / C read through a stream is judged against the '
        'molar-weighted sum of the chemicals\' own models over the raw rows (clause reading); the temperature after an assignment is judged against the temperature at which that reference takes the assigned value; '
        'non-empty inlets, the lowest pressure and every outside-the-model-range refusal are decided from the case description (and the raw rows of the result), never from isempty() or the temperature a call produced: '
        'a result outside the window whose content takes the expected enthalpy inside it is a violation (T-far-off); entropy clauses are refused exactly when liquid material is present (frozen table)')
MIN_NONTRIVIAL = {'quick': 400, 'thorough': 10000}
ASSUMPTIONS = ['bound 1e-5 K times the heat-capacity flow of the result (the solver tolerance is 1e-6 K)', 'ill-conditioned external heat-capacity integrals are excluded from the entropy clauses and reported as not judged',
               'the property package is the ideal mixture without excess energies: the enthalpy / heat-capacity flow of a stream is the molar-weighted sum of Chemical.H / .Cn over its rows (tolerance 1e-13 of the sum of absolute terms, worst seen 6.6e-16); '
               'the entropy flow is that sum of Chemical.S plus a mixing term that does not depend on T and is 0 when no phase holds two chemicals (its formula is not judged here)',
               'the liquid heat-capacity models of the six chemicals (external HEOS_FIT polynomials) integrate over T with a quantisation of 2.4e-4 J/mol/K at every temperature, every gas model integrates consistently: entropy clauses are judged for gas-only content; '
               'a gas model failing the live conditioning probe makes the run inconclusive (harness error), it is not a refusal',
               'temperature expectation after an assignment: 1e-5 K (worst seen 1.4e-10 K)']
IDS = ('Water', 'Ethanol', 'Methanol', 'Octane', 'Acetone', 'Toluene')


def required(tier):
    return ['set-zero', 'mix-zero', 'mix', 'mix:single-inlet', 'mix:Q', 'mix:heat-object', 'mix:pressure', 'separate', 'set-H', 'set-h', 'set-S', 'set-current', 'multi-phase',
            'mix2:liquid+gas', 'mix2:multi-phase-inlet', 'mix2:multi-phase-receiver', 'mix2:stale-receiver', 'mix2:receiver-not-first-or-twice', 'mix2:conserve_phases', 'mix2:several-heat-objects',
            'mix2:Q-number-and-heat-objects', 'mix2:Q-with-only-the-receiver', 'mix2:form-sum', 'mix2:form-add', 'mix2:form-iadd', 'sep2:other-in-another-phase', 'sep2:multi-phase', 'sep2:self',
            'sep2:empty-other', 'sep2:isub', 'sep2:same-T-P', 'set-Hnet', 'set2:target-at-end-of-range', 'multi-phase2:empty-phase', 'multi-phase2:one-non-empty-phase', 'multi-phase2:one-phase', 'multi-phase2:L',
            # oracle audit 2: readings judged against the chemicals' own models, temperature expectations, outside-the-range decided from the inputs, entropy clauses judged
            'reading', 'set:T-expected', 'mix:judged/reachable-by-the-inputs', 'mix2:judged/reachable-by-the-inputs', 'separate:judged/reachable-by-the-inputs', 'sep2', 'set-S:judged-gas-only']


class Heat:
    """stands for a heat / power object among the inlets (mix_from adds its .heat)"""
    def __init__(self, heat): self.heat = heat
    def __bool__(self): return True


def Trange(phase):
    return (260., 440.) if phase == 'l' else (280., 500.)


def gen_inlet(rng, phase, n):
    lo, hi = Trange(phase)
    return {'phase': phase, 'T': round(rng.uniform(lo + 5, hi - 5), 2), 'P': round(10 ** rng.uniform(4, 7), 1),
            'flows': [0.0 if rng.random() < 0.35 else round(10 ** rng.uniform(-2, 3), 4) for _ in range(n)]}


def gen_case(rng):
    n = len(IDS)
    t = rng.choices(['mix', 'mix', 'sep', 'set', 'set', 'setm'], [4, 4, 2, 4, 4, 2])[0]
    phase = rng.choice('lg')
    if t == 'mix':
        k = rng.choice([1, 1, 2, 2, 3, 4])
        inlets = [gen_inlet(rng, phase, n) for _ in range(k)]
        for i in inlets:
            if not any(i['flows']): i['flows'][rng.randrange(n)] = 1.0
        if rng.random() < 0.3: inlets.append({'phase': phase, 'T': 300., 'P': 5e4, 'flows': [0.0] * n})     # an empty inlet: ignored also for the pressure
        q = rng.choice([0.0, 0.0, rng.uniform(-30, 30)])
        return {'t': 'mix', 'inlets': inlets, 'qK': round(q, 3), 'heat_obj': rng.random() < 0.3 and q != 0, 'recv_in': rng.random() < 0.2}
    if t == 'sep':
        a = gen_inlet(rng, phase, n); b = gen_inlet(rng, phase, n)
        if not any(a['flows']): a['flows'][0] = 5.0
        return {'t': 'sep', 'a': a, 'b': b}
    if t == 'set':
        s = gen_inlet(rng, phase, n)
        if not any(s['flows']): s['flows'][0] = 5.0
        return {'t': 'set', 's': s, 'which': rng.choice(['H', 'h', 'S', 'H', 'S']), 'f': round(rng.uniform(0.03, 0.97), 4), 'current': rng.random() < 0.25}
    s = {'T': round(rng.uniform(300, 400), 2), 'P': rng.choice([101325., 3e5]), 'l': [0.0 if rng.random() < 0.3 else round(10 ** rng.uniform(-1, 2), 4) for _ in range(n)],
         'g': [0.0 if rng.random() < 0.3 else round(10 ** rng.uniform(-1, 2), 4) for _ in range(n)]}
    if not any(s['l']): s['l'][0] = 3.0
    if not any(s['g']): s['g'][1] = 2.0
    return {'t': 'setm', 's': s, 'which': rng.choice(['H', 'h', 'S']), 'dT': round(rng.uniform(-25, 25), 3), 'current': rng.random() < 0.25}


def mk(th, d):
    s = tmo.Stream(None, phase=d['phase'], T=d['T'], P=d['P'], thermo=th)
    for i, v in zip(IDS, d['flows']):
        if v: s.imol[i] = v
    return s


# ---------------------------------------------------------------------------------------------------------------------
# independent reference (oracle audit 2, item 1): the enthalpy / heat-capacity / entropy flow of a stream is the molar-weighted sum of the chemicals' OWN
# models (model data: Chemical.H / .Cn / .S handles) over the RAW sparse rows of the stream - not read through Stream._get_property / Mixture.H / .xH /
# the mixture models / the property cache, which is the chain mix_from sums, separate_out subtracts and the temperature solvers iterate on. The package
# used here is the ideal mixture without excess energies, for which this sum IS the definition (agreement on the unchanged library: 6e-16 of sum |terms|).

REF_RTOL = 1e-13          # of the sum of the absolute terms (worst observed 6.6e-16 over 1.4 million readings)
T_TOL = 1e-5              # K: temperature after an assignment against the temperature at which the reference takes the assigned value (solver tolerance 1e-6 K)
_F = {'H': lambda c, ph, T, P: c.H(ph, T, P), 'C': lambda c, ph, T, P: c.Cn(ph, T), 'S': lambda c, ph, T, P: c.S(ph, T, P), 'Hf': lambda c, ph, T, P: c.Hf}


def rows_of(s):
    """[(phase label, {chemical index: flow})] from the raw sparse rows (not through isempty() / imol views / mol)"""
    data = s.imol.data
    if isinstance(data, SA): return [(ph, {i: v for i, v in r.dct.items() if v}) for ph, r in zip(s.phases, data.rows)]
    return [(s.phase, {i: v for i, v in data.dct.items() if v})]


def rows_d(d):
    """the same from a case description (first-generation descriptions carry no 'kind')"""
    if d.get('kind', 'S') == 'S': return [(d['phase'], {i: v for i, v in enumerate(d['flows']) if v})]
    return [(ph, {i: v for i, v in enumerate(d[ph]) if v}) for ph in 'gl']


def div(a, b):
    """a / b for messages and residuals; a heat-capacity flow of 0 (a result that holds nothing) must not turn a violation into a harness error"""
    return a / b if b else float('inf')


def held(rows):
    return any(row for _, row in rows)


def total(rows):
    return sum(v for _, row in rows for v in row.values())


def ref(th, rows, T, P, what):
    """(value, sum of absolute terms) of sum_phase sum_i n[phase, i] * chemical_i.<what>(phase, T, P); entropy: without the (temperature-independent) mixing term"""
    f = _F[what]; chems = th.chemicals.tuple
    tot = sc = 0.
    for ph, row in rows:
        for i, n in row.items():
            v = n * f(chems[i], ph, T, P); tot += v; sc += abs(v)
    return tot, sc


def ref_of(th, rows, T, P, which, M0=0.):
    """reference for the stream attribute `which` in (H, h, Hnet, C, Cn, S)"""
    if which in ('H', 'h', 'Hnet'):
        r, sc = ref(th, rows, T, P, 'H')
        if which == 'Hnet':
            f, fs = ref(th, rows, T, P, 'Hf'); r += f; sc += fs
        if which == 'h' and held(rows): n = total(rows); r /= n; sc /= n
    elif which in ('C', 'Cn'):
        r, sc = ref(th, rows, T, P, 'C')
        if which == 'Cn' and held(rows): n = total(rows); r /= n; sc /= n
    else:
        r, sc = ref(th, rows, T, P, 'S'); r += M0; sc += abs(M0)
    return r, sc


def rd(rec, th, s, which, where, ctx=None):
    """read an attribute through the stream (what the user sees, and what the balances below are evaluated on) and judge it against the reference at the
    stream's raw rows, T and P. Entropy: the mixing term is not modelled here (its formula is another property's matter); it is taken from the first reading
    of the stream in this case and must be the same at every other temperature (it is exactly 0 when no phase holds more than one chemical)."""
    val = getattr(s, which)
    rows = rows_of(s)
    kind = 'multi-phase' if isinstance(s, tmo.MultiStream) else 'single-phase'
    M0 = 0.
    if which == 'S' and any(len(row) > 1 for _, row in rows):
        key = ('M0', id(s))
        if ctx is None or key not in ctx:
            if ctx is not None: ctx[key] = val - ref(th, rows, s.T, s.P, 'S')[0]
            rec.hit('reading:S-mixing-term-taken')
            return val
        M0 = ctx[key]
    r, sc = ref_of(th, rows, s.T, s.P, which, M0)
    good = val is not None and val == val and abs(val - r) <= REF_RTOL * sc + 1e-300
    rec.check(good, 'reading', f'{which}/{kind}/{where}', f'{which} of a {kind} stream ({where}) reads {val!r}; the molar-weighted sum of the chemicals\' own models over its rows '
              f'{[(ph, sorted(row.items())) for ph, row in rows]} at T={s.T!r}, P={s.P!r} is {r!r} (sum of absolute terms {sc:.6g})', residual=abs(val - r) / sc if good and sc else None)
    return val


def T_expected(th, rows, P, which, target, lo, hi, M0=0.):
    """temperature in [lo-2, hi+2] at which the reference takes the value `target` (H, h, Hnet and S increase with T); None when the reference does not bracket it"""
    from scipy.optimize import brentq
    f = lambda T: ref_of(th, rows, T, P, which, M0)[0] - target
    fa, fb = f(lo - 2.), f(hi + 2.)
    if not (fa <= 0 <= fb): return None
    if fa == 0: return lo - 2.
    if fb == 0: return hi + 2.
    return brentq(f, lo - 2., hi + 2., xtol=1e-10, rtol=1e-15)


def judge_T(rec, th, rows, s, which, target, lo, hi, suffix, ctx=None):
    """independent expectation for the temperature after an assignment (oracle audit 2, item 3)"""
    M0 = 0.
    if which == 'S' and any(len(row) > 1 for _, row in rows):
        M0 = (ctx or {}).get(('M0', id(s)))
        if M0 is None: rec.refuse('entropy mixing term not available: temperature expectation not judged'); return
    Te = T_expected(th, rows, s.P, which, target, lo, hi, M0)
    if Te is None:
        rec.check(False, 'set-' + which, 'target-not-bracketed-by-the-reference' + suffix, f'{which} target {target!r} lies between the stream\'s readings at {lo} and {hi} K but not between the reference values at {lo - 2} and {hi + 2} K')
        return
    rec.check(abs(s.T - Te) <= T_TOL, 'set-' + which, 'T-expected' + suffix, f'{which} = {target!r}: T is {s.T!r}; the chemicals\' own models take this value at T = {Te!r} (difference {s.T - Te:.3g} K)', residual=abs(s.T - Te))
    rec.hit('set:T-expected')


# entropy clauses (oracle audit 2, item 4): the refusal is decided from the INPUTS. Frozen from the pristine data package: the liquid heat capacities of all six
# chemicals are HEOS_FIT polynomials whose integral over T (external package) cancels catastrophically (quantised at 2.4e-4 J/mol/K: finite differences of the
# integral are off by O(1)), at every temperature; every gas model integrates consistently at every temperature of the range. So 'liquid material present' is the
# refusal, and a gas model failing the live probe (or the probe raising) is not a refusal: it ends the case as a harness error (inconclusive) or a reported exception.
ILL_CONDITIONED = frozenset((i, 'l') for i in IDS)
_probe_cache = {}


def probe(c, ph, T, h=1e-3):
    """does the heat-capacity model of (chemical, phase) integrate consistently around T and from 298.15 K? (same arithmetic as c07.well_conditioned, no try/except)"""
    key = (c.ID, ph, T)
    ok = _probe_cache.get(key)
    if ok is None:
        model = getattr(c.Cn, ph)
        a = model.T_dependent_property_integral(T - h, T + h) / (2 * h)
        b = model.T_dependent_property_integral_over_T(T - h, T + h) / (2 * h)
        v = model(T)
        a2 = (model.T_dependent_property_integral(298.15, T + h) - model.T_dependent_property_integral(298.15, T - h)) / (2 * h)
        b2 = (model.T_dependent_property_integral_over_T(298.15, T + h) - model.T_dependent_property_integral_over_T(298.15, T - h)) / (2 * h)
        ok = _probe_cache[key] = all(abs(p - q) <= 1e-6 * abs(q) for p, q in ((a, v), (a2, v), (b, v / T), (b2, v / T)))
    return ok


class ProbeMismatch(Exception):
    """raised by the harness (no library frame): the run is inconclusive"""


def s_judged(rec, th, rows, T):
    """True: judge the entropy clauses of a stream with these rows; False: refusal (liquid material present, see ILL_CONDITIONED)"""
    chems = th.chemicals.tuple
    if any((chems[i].ID, ph.lower()) in ILL_CONDITIONED for ph, row in rows for i in row):
        rec.hit('set-S:refused-liquid-present'); return False
    for ph, row in rows:
        for i in row:
            if not probe(chems[i], ph.lower(), T):
                raise ProbeMismatch(f'the heat-capacity model of {chems[i].ID} ({ph}) fails the conditioning probe at {T} K although the frozen table lists it as well-conditioned')
    rec.hit('set-S:judged-gas-only')
    return True


def s_ok(s):
    """entropy of this stream is computed from well-conditioned heat-capacity integrals only (first form of the probe; kept for comparison runs, no longer used by the clauses)"""
    from vt.workloads.c07 import well_conditioned
    phases = s.phases if isinstance(s, tmo.MultiStream) else (s.phase,)
    for ph in phases:
        flows = s.imol[ph] if isinstance(s, tmo.MultiStream) else s.mol
        for c, v in zip(s.chemicals, flows.to_array() if hasattr(flows, 'to_array') else flows):
            if v and not well_conditioned(getattr(c.Cn, ph), s.T): return False
    return True


def run_case(case, rec):
    rec.begin_case(case)
    th = thermo_of(IDS)
    tmo.settings.set_thermo(th)
    t = case['t']
    R = lambda s, which, where, ctx=None: rd(rec, th, s, which, where, ctx)
    try:
        if t == 'mix':
            ins = [mk(th, d) for d in case['inlets']]
            live = [(s, d) for s, d in zip(ins, case['inlets']) if any(d['flows'])]       # non-empty by the case description, not by the library's isempty() (the filter mix_from itself applies)
            nonempty = [s for s, d in live]
            phase = case['inlets'][0]['phase']
            recv = ins[0] if case['recv_in'] else tmo.Stream(None, phase=phase, thermo=th)
            Hin = sum(R(s, 'H', 'mix-inlet') for s in nonempty); Cin = sum(R(s, 'C', 'mix-inlet') for s in nonempty)
            Q = case['qK'] * Cin
            Pmin = min(d['P'] for s, d in live)
            Ts = [d['T'] for s, d in live]
            others = list(ins)
            kw = {}
            if Q:
                if case['heat_obj']: others.append(Heat(Q)); rec.hit('mix:heat-object')
                else: kw['Q'] = Q
                rec.hit('mix:Q')
            recv.mix_from(others, energy_balance=True, **kw)
            Hout = R(recv, 'H', 'mix-receiver'); Cout = R(recv, 'C', 'mix-receiver')
            lo, hi = Trange(phase)
            tag = ('single-inlet' if len(nonempty) == 1 else 'multi-inlet') + ('/Q' if Q else '') + ('/heat-object' if Q and case['heat_obj'] else '') + ('/receiver-among-inlets' if case['recv_in'] else '')
            # outside the quantifier (result outside the model range) is decided from the INPUTS: the expected content (sum of the described flows, in the common phase) takes
            # the enthalpy sum H in + Q inside the window or not. Inlets are inside [lo+5, hi-5] and |Q| <= 30 K * C, so this is always so here: a result outside IS the violation
            comp = {}
            for s, d in live:
                for i, v in enumerate(d['flows']):
                    if v: comp[i] = comp.get(i, 0.) + v
            reachable = ref(th, [(phase, comp)], lo - 40, Pmin, 'H')[0] < Hin + Q < ref(th, [(phase, comp)], hi + 60, Pmin, 'H')[0]
            if not (lo - 40 < recv.T < hi + 60):
                if not reachable: rec.refuse('mixed temperature outside the model range'); return
                rec.check(False, 'mix', f'T-far-off/{tag}', f'mix_from: T out {recv.T!r} is outside ({lo - 40}, {hi + 60}) although the described content takes H in + Q = {Hin + Q!r} inside this window (T in {Ts}, Q {Q!r})')
                return
            rec.hit('mix:judged' + ('/reachable-by-the-inputs' if reachable else '/not-reachable-but-T-inside'))
            res = abs(Hout - (Hin + Q))
            rec.check(res <= 1e-5 * Cout, 'mix', f'enthalpy/{tag}', f'mix_from: H out {Hout!r} != sum H in {Hin!r} + Q {Q!r} (residual {res:.4g} kJ/hr = {div(res, Cout):.3g} K * C; T in {Ts}, T out {recv.T})', residual=div(res, Cout))
            rec.check(recv.P == Pmin, 'mix:pressure', tag, f'mix_from: P out {recv.P!r} != lowest pressure among the non-empty inlets {Pmin!r}')
            if len(nonempty) == 1: rec.hit('mix:single-inlet')
            # the inlets (other than the receiver) still report their own enthalpy and temperature, also when read again after the mix ...
            for s_in, d in zip(ins, case['inlets']):
                if s_in is recv or not any(d['flows']): continue
                tw = mk(th, d)
                Hi = R(s_in, 'H', 'mix-inlet-after'); Ht = R(tw, 'H', 'fresh-twin')
                rec.check(s_in.T == d['T'] and abs(Hi - Ht) <= 1e-9 * abs(Ht) + 1e-9, 'mix', f'inlet-changed/{tag}',
                          f'after mix_from an inlet reports H={Hi!r}, T={s_in.T!r}; a fresh stream in the same state has H={Ht!r}, T={d["T"]}')
            # ... and the unit can be run again on the same objects (outlets are re-used between runs)
            if not case['recv_in']:
                recv.mix_from(others, energy_balance=True, **kw)
                H2 = R(recv, 'H', 'mix-receiver-second-run'); C2 = R(recv, 'C', 'mix-receiver-second-run')
                Hin2 = sum(R(mk(th, d), 'H', 'fresh-twin') for d in case['inlets'] if any(d['flows']))
                rec.check(abs(H2 - (Hin2 + Q)) <= 1e-5 * C2, 'mix', f'second-run/{tag}', f'second mix_from on the same objects: H out {H2!r} != sum H in {Hin2!r} + Q {Q!r} (first run gave {Hout!r})',
                          residual=div(abs(H2 - (Hin2 + Q)), C2))
                # assigning an inlet its own enthalpy leaves its temperature alone
                for s_in, d in zip(ins, case['inlets']):
                    if not any(d['flows']): continue
                    s_in.H = R(s_in, 'H', 'mix-inlet-after')
                    rec.check(abs(s_in.T - d['T']) <= 1e-6, 'set-current', 'inlet-after-mix', f'after mixing, assigning an inlet its own H moved its T from {d["T"]} to {s_in.T!r}')
            nchem = len(comp)
            if nchem >= 2 and (max(Ts) - min(Ts) >= 5 or Q): rec.mark_nontrivial(case_hash(case))
        elif t == 'sep':
            a = mk(th, case['a']); b = mk(th, case['b'])
            m = tmo.Stream(None, phase=a.phase, thermo=th)
            m.mix_from([a, b], energy_balance=True)
            lo, hi = Trange(a.phase)
            H0 = R(m, 'H', 'separate-mixture'); Hb = R(b, 'H', 'separate-other')
            m.separate_out(b, energy_balance=True)
            # a holds material (>= 0.01 of a chemical, b <= 1000 of it): what remains is a's content and cannot be nothing
            if not rec.check(held(rows_of(m)), 'separate', 'nothing-left', f'separate_out with energy balance: nothing is left of a mixture of a ({case["a"]["flows"]}) and b after b is taken out'): return
            H1 = R(m, 'H', 'separate-remainder'); C1 = R(m, 'C', 'separate-remainder')
            # outside the quantifier is decided from the INPUTS: a's described content takes H before - H other inside the window or not (it does whenever the mixture held H a + H b: a is inside [lo+5, hi-5])
            ra = rows_d(case['a'])
            reachable = ref(th, ra, lo - 60, m.P, 'H')[0] < H0 - Hb < ref(th, ra, hi + 80, m.P, 'H')[0]
            if not (lo - 60 < m.T < hi + 80):
                if not reachable: rec.refuse('temperature after separation outside the model range'); return
                rec.check(False, 'separate', 'T-far-off', f'separate_out: T after {m.T!r} is outside ({lo - 60}, {hi + 80}) although a\'s content takes H before - H other = {H0 - Hb!r} inside this window')
                return
            rec.hit('separate:judged' + ('/reachable-by-the-inputs' if reachable else '/not-reachable-but-T-inside'))
            res = abs(H1 - (H0 - Hb))
            rec.check(res <= 1e-5 * C1 + 1e-12 * abs(H0), 'separate', 'enthalpy', f'separate_out: H after {H1!r} != H before {H0!r} - H other {Hb!r} (residual {res:.4g}, C {C1:.4g})', residual=div(res, C1))
            rec.mark_nontrivial(case_hash(case))
        elif t == 'set':
            s = mk(th, case['s']); which = case['which']; phase = s.phase
            lo, hi = Trange(phase)
            rows = rows_d(case['s']); ctx = {}
            if which == 'S':
                rec.hit('set-S:cases')
                if not s_judged(rec, th, rows, case['s']['T']): rec.refuse('ill-conditioned external heat-capacity integral: entropy clause not judged'); return
            T0 = s.T
            def at(T):
                s.T = T; return R(s, which, 'at-a-given-T', ctx)
            vlo, vhi = at(lo), at(hi); s.T = T0
            cur = R(s, which, 'at-a-given-T', ctx)
            if case['current']:
                setattr(s, which, cur)
                rec.check(abs(s.T - T0) <= 1e-6 and s.phase == phase, 'set-current', which, f'assigning the current {which} moved T by {s.T - T0!r} (phase {s.phase})', residual=abs(s.T - T0))
                return
            target = vlo + case['f'] * (vhi - vlo)
            setattr(s, which, target)
            back = R(s, which, 'after-assignment', ctx)
            C = R(s, 'C', 'after-assignment') if which != 'h' else R(s, 'Cn', 'after-assignment')
            bound = 1e-5 * C if which in ('H', 'h') else 1e-5 * C / s.T
            rec.check(abs(back - target) <= bound, 'set-' + which, 'read-back', f'{which} = {target!r} then reading gives {back!r} (T {T0} -> {s.T}; bound {bound:.3g})', residual=abs(back - target) / max(bound / 1e-5, 1e-300))
            rec.check(s.phase == phase, 'set-' + which, 'phase-changed', f'{which} assignment inside the single-phase range changed the phase label {phase} -> {s.phase}')
            rec.check(lo - 1e-3 <= s.T <= hi + 1e-3, 'set-' + which, 'T-range', f'{which} target between the end values gave T={s.T} outside [{lo},{hi}]')
            judge_T(rec, th, rows, s, which, target, lo, hi, '', ctx)
            if abs(s.T - T0) >= 1: rec.mark_nontrivial(case_hash(case))
        else:
            d = case['s']; which = case['which']
            s = tmo.MultiStream(None, phases=('g', 'l'), T=d['T'], P=d['P'], thermo=th)
            for ph in 'lg':
                for i, v in zip(IDS, d[ph]):
                    if v: s.imol[ph, i] = v
            rec.hit('multi-phase')
            rows = rows_d(dict(d, kind='M')); ctx = {}
            if which == 'S':
                rec.hit('set-S:cases')
                if not s_judged(rec, th, rows, d['T']): rec.refuse('ill-conditioned external heat-capacity integral: entropy clause not judged'); return
            T0 = s.T
            cur = R(s, which, 'at-a-given-T', ctx)
            if case['current']:
                setattr(s, which, cur)
                rec.check(abs(s.T - T0) <= 1e-6, 'set-current', which + '/multi', f'assigning the current {which} of a multi-phase stream moved T by {s.T - T0!r}', residual=abs(s.T - T0))
                return
            s.T = T0 + case['dT']; target = R(s, which, 'at-a-given-T', ctx); s.T = T0
            setattr(s, which, target)
            back = R(s, which, 'after-assignment', ctx)
            C = R(s, 'C', 'after-assignment') if which != 'h' else R(s, 'C', 'after-assignment') / total(rows)
            bound = 1e-5 * C if which in ('H', 'h') else 1e-5 * C / s.T
            rec.check(abs(back - target) <= bound, 'set-' + which, 'read-back/multi', f'multi-phase {which} = {target!r} then reading gives {back!r} (T {T0} -> {s.T})', residual=abs(back - target) / max(bound / 1e-5, 1e-300))
            rec.check(abs(s.T - (T0 + case['dT'])) <= 1e-4, 'set-' + which, 'T/multi', f'multi-phase {which} assignment: T {s.T} expected {T0 + case["dT"]}')
            judge_T(rec, th, rows, s, which, target, T0 - 27, T0 + 27, '/multi', ctx)
            if abs(case['dT']) >= 1: rec.mark_nontrivial(case_hash(case))
    except Exception as e:
        rec.exception(t, e, what=f'{t} case raised {type(e).__name__}: {str(e)[:160]}')


# ---------------------------------------------------------------------------
# second generation (coverage audit): inlet phases drawn independently, multi-phase inlets and receivers, receivers in any state and at any
# position among the inlets, heat split over Q= and several heat objects, conserve_phases, Stream.sum / + / += / -= forms, separating a stream
# of another phase / the stream itself / an empty stream, Hnet assignment, multi-phase streams with an empty or a single phase.

def gen_inlet2(rng, n, kind=None):
    kind = kind or rng.choice('SSSM')
    if kind == 'S': return dict(gen_inlet(rng, rng.choice('lg'), n), kind='S')
    T = round(rng.uniform(290, 430), 2)
    d = {'kind': 'M', 'T': T, 'P': round(10 ** rng.uniform(4, 7), 1)}
    for ph in 'lg':
        d[ph] = [0.0] * n if rng.random() < 0.2 else [0.0 if rng.random() < 0.4 else round(10 ** rng.uniform(-2, 3), 4) for _ in range(n)]
    return d


def nonempty_d(d):
    return any(d['flows']) if d['kind'] == 'S' else (any(d['l']) or any(d['g']))


def gen_case2(rng):
    n = len(IDS)
    t = rng.choices(['mix2', 'sep2', 'set2', 'setm2'], [6, 3, 2, 3])[0]
    if t == 'mix2':
        k = rng.choice([1, 1, 2, 2, 2, 3, 4])
        inlets = [gen_inlet2(rng, n) for _ in range(k)]
        for d in inlets:
            if not nonempty_d(d):
                if d['kind'] == 'S': d['flows'][rng.randrange(n)] = 1.0
                else: d[rng.choice('lg')][rng.randrange(n)] = 1.0
        if rng.random() < 0.2: inlets.insert(rng.randrange(len(inlets) + 1), {'kind': 'S', 'phase': rng.choice('lg'), 'T': 300., 'P': 2e4, 'flows': [0.0] * n})
        form = rng.choices(['mix_from', 'sum', 'add', 'iadd'], [8, 1, 1, 1])[0]
        r = rng.random()
        if form == 'iadd': recv = {'mode': 'inlet', 'i': 0, 'pos': [0]}
        elif form != 'mix_from': recv = None
        elif r < 0.3:
            # the receiver is one of the inlets, listed once or twice at any position
            i = rng.randrange(len(inlets)); npos = rng.choice([1, 1, 2])
            recv = {'mode': 'inlet', 'i': i, 'pos': sorted(rng.randrange(len(inlets) + 1) for _ in range(npos))}
        else:
            recv = {'mode': 'own', 'kind': rng.choice('SSM'), 'phase': rng.choice('lg'), 'T': round(rng.uniform(280, 420), 2), 'P': round(10 ** rng.uniform(4, 7), 1),
                    'stale': [0.0 if rng.random() < 0.5 else round(10 ** rng.uniform(-1, 2), 3) for _ in range(n)] if rng.random() < 0.5 else None}
        q = rng.choice([0.0, rng.uniform(-30, 30), rng.uniform(-30, 30)])
        nh = rng.choice([0, 0, 1, 2, 3]) if q else 0
        cuts = sorted(rng.random() for _ in range(nh))
        kwfrac = rng.choice([0.0, 1.0, round(rng.random(), 3)]) if nh else 1.0
        return {'t': 'mix2', 'inlets': inlets, 'recv': recv, 'form': form, 'qK': round(q, 3), 'kwfrac': kwfrac, 'heat_cuts': [round(c, 4) for c in cuts],
                'heat_pos': [rng.randrange(len(inlets) + 1) for _ in range(nh)], 'none_pos': rng.randrange(len(inlets) + 1) if rng.random() < 0.2 else None,
                'conserve': form == 'mix_from' and rng.random() < 0.3}
    if t == 'sep2':
        form = rng.choice(['other', 'other', 'other', 'self', 'empty-other', 'isub'])
        a = gen_inlet2(rng, n); b = gen_inlet2(rng, n)
        if not nonempty_d(a):
            if a['kind'] == 'S': a['flows'][0] = 5.0
            else: a['l'][0] = 5.0
        if form == 'empty-other':
            if b['kind'] == 'S': b['flows'] = [0.0] * n
            else: b['l'] = [0.0] * n; b['g'] = [0.0] * n
        mkind = rng.choice('SSM'); mphase = rng.choice('lg')
        if form in ('other', 'isub') and rng.random() < 0.4:
            # a small single-phase stream of the other phase is separated out of a single-phase mixture (the mixture stays inside the model range)
            a = gen_inlet2(rng, n, 'S'); b = gen_inlet2(rng, n, 'S')
            if not any(a['flows']): a['flows'][0] = 5.0
            b['phase'] = 'g' if a['phase'] == 'l' else 'l'
            lo, hi = Trange(b['phase']); b['T'] = min(max(b['T'], lo + 5), hi - 5)
            b['flows'] = [round(v * 0.02, 6) for v in b['flows']]
            mkind = 'S'; mphase = a['phase']
        return {'t': 'sep2', 'form': form, 'a': a, 'b': b, 'mkind': mkind, 'mphase': mphase, 'sameTP': rng.random() < 0.3}      # sameTP: the stream taken out is brought to the mixture's T and P first
    if t == 'set2':
        sd = gen_inlet2(rng, n)
        if not nonempty_d(sd):
            if sd['kind'] == 'S': sd['flows'][0] = 5.0
            else: sd['l'][0] = 5.0
        # Hnet assignment, and every assignment with targets at the very ends of the range (f = 0 and 1)
        which = rng.choice(['Hnet', 'Hnet', 'H', 'h', 'S'])
        f = rng.choice([0.0, 1.0]) if (which != 'Hnet' or rng.random() < 0.2) else round(rng.uniform(0.03, 0.97), 4)
        return {'t': 'set2', 's': sd, 'which': which, 'f': f, 'current': which == 'Hnet' and rng.random() < 0.25}
    phs = rng.choice(['gl', 'gl', 'l', 'g', 'lL', 'gL', 'glL'])
    rows = {ph: [0.0 if rng.random() < 0.3 else round(10 ** rng.uniform(-1, 2), 4) for _ in range(n)] for ph in phs}
    if len(phs) > 1 and rng.random() < 0.5: rows[rng.choice(phs)] = [0.0] * n         # a phase that holds nothing
    if not any(any(r) for r in rows.values()): rows[phs[0]][0] = 3.0
    return {'t': 'setm2', 'phases': phs, 'rows': rows, 'T': round(rng.uniform(300, 400), 2), 'P': rng.choice([101325., 3e5, 2e4]), 'which': rng.choice(['H', 'h', 'S', 'H', 'Hnet']),
            'f': rng.choice([0.0, 1.0]) if rng.random() < 0.12 else round(rng.uniform(0.03, 0.97), 4), 'current': rng.random() < 0.25}


def mk2(th, d):
    if d['kind'] == 'S': return mk(th, d)
    s = tmo.MultiStream(None, phases=('g', 'l'), T=d['T'], P=d['P'], thermo=th)
    for ph in 'lg':
        for i, v in zip(IDS, d[ph]):
            if v: s.imol[ph, i] = v
    return s


def phases_of(s):
    return tuple(s.phases) if isinstance(s, tmo.MultiStream) else (s.phase,)


def range_rows(rows):
    """temperature window in which every phase that holds material (by the raw rows) is inside its model range"""
    lo, hi = 250., 520.
    for ph, row in rows:
        if not row: continue
        l, h = Trange(ph.lower())
        lo, hi = max(lo, l), min(hi, h)
    return lo, hi


def range_of(s):
    return range_rows(rows_of(s))


def s_ok2(s):
    """first form of the probe (kept for comparison runs, no longer used by the clauses)"""
    from vt.workloads.c07 import well_conditioned
    for ph in phases_of(s):
        flows = s.imol[ph] if isinstance(s, tmo.MultiStream) else s.mol
        for c, v in zip(s.chemicals, flows.to_array() if hasattr(flows, 'to_array') else flows):
            if v and not well_conditioned(getattr(c.Cn, ph.lower()), s.T): return False
    return True


def run_case2(case, rec):
    rec.begin_case(case)
    th = thermo_of(IDS)
    tmo.settings.set_thermo(th)
    t = case['t']
    R = lambda s, which, where, ctx=None: rd(rec, th, s, which, where, ctx)
    try:
        if t == 'mix2':
            ins = [mk2(th, d) for d in case['inlets']]
            desc = {id(s): d for s, d in zip(ins, case['inlets'])}
            rc = case['recv']; form = case['form']
            others = list(ins)
            recv_in = False
            if rc is None: recv = None
            elif rc['mode'] == 'inlet':
                recv = ins[rc['i']]; recv_in = True
                if form == 'mix_from':
                    others = [o for o in ins if o is not recv]
                    for p in rc['pos']: others.insert(min(p, len(others)), recv)
            else:
                if rc['kind'] == 'S': recv = tmo.Stream(None, phase=rc['phase'], T=rc['T'], P=rc['P'], thermo=th)
                else: recv = tmo.MultiStream(None, phases=('g', 'l'), T=rc['T'], P=rc['P'], thermo=th)
                if rc['stale']:
                    for i, v in zip(IDS, rc['stale']):
                        if v:
                            if rc['kind'] == 'S': recv.imol[i] = v
                            else: recv.imol[rc['phase'], i] = v
            if form == 'iadd': others = [recv] + [o for o in ins if o is not recv][:1]
            if form == 'add': others = ins[:2]
            streams = [o for o in others if nonempty_d(desc[id(o)])]          # non-empty by the case description, not by the library's isempty() (the filter mix_from itself applies)
            if not streams: rec.refuse('no non-empty inlet'); return
            Hin = sum(R(o, 'H', 'mix-inlet') for o in streams); Cin = sum(R(o, 'C', 'mix-inlet') for o in streams)
            Q = case['qK'] * Cin
            Pmin = min(desc[id(o)]['P'] for o in streams)
            Ts = [desc[id(o)]['T'] for o in streams]
            kw = {}
            args = list(others)
            if form == 'mix_from':
                if Q:
                    cuts = [0.0] + case['heat_cuts'] + [1.0] if case['heat_cuts'] else []
                    Qkw = Q * case['kwfrac'] if case['heat_cuts'] else Q
                    shares = [(cuts[j + 1] - cuts[j]) for j in range(len(cuts) - 1)][:len(case['heat_cuts'])]
                    tot = sum(shares) or 1.0
                    heats = [(Q - Qkw) * x / tot for x in shares] if shares else []
                    if heats: heats[-1] = (Q - Qkw) - sum(heats[:-1])
                    for pos, h in zip(case['heat_pos'], heats): args.insert(min(pos, len(args)), Heat(h))
                    if Qkw: kw['Q'] = Qkw
                    Q = Qkw + sum(heats)
                    rec.hit('mix2:Q')
                    if len(heats) >= 2: rec.hit('mix2:several-heat-objects')
                    if heats and Qkw: rec.hit('mix2:Q-number-and-heat-objects')
                if case['none_pos'] is not None: args.insert(min(case['none_pos'], len(args)), None); rec.hit('mix2:None-among-inlets')
                if case['conserve']: kw['conserve_phases'] = True
            else:
                Q = 0.0
            in_phases = {ph.lower() for o in streams for ph, row in rows_d(desc[id(o)]) if row}
            if form == 'mix_from': recv.mix_from(args, energy_balance=True, **kw)
            elif form == 'sum': recv = tmo.Stream.sum(args, None, th)
            elif form == 'add': recv = (args[0] + args[1]) if len(args) > 1 else sum(args)      # one operand: 0 + a (__radd__)
            else: recv += args[1] if len(args) > 1 else args[0]
            if form == 'iadd' and len(args) == 1:
                Hin = 2 * Hin        # a += a mixes the stream with itself
            Hout = R(recv, 'H', 'mix-receiver'); Cout = R(recv, 'C', 'mix-receiver')
            rrows = rows_of(recv)
            lo, hi = range_rows(rrows)
            multi_in = any(desc[id(o)]['kind'] == 'M' for o in streams)
            tag = form + ('/single-inlet' if len(streams) == 1 else '/multi-inlet') + ('/liquid+gas' if len(in_phases) > 1 else '') + ('/multi-phase-inlet' if multi_in else '') + \
                  ('/multi-phase-receiver' if rc and rc.get('kind') == 'M' else '') + ('/Q' if Q else '') + ('/receiver-among-inlets' if recv_in else '') + ('/conserve_phases' if kw.get('conserve_phases') else '')
            # outside the quantifier (result outside the model range of the phases the material is held in) is decided from the INPUTS and the placement of the material (raw rows;
            # the material ledger is another property's matter), never from the temperature the call produced: the content takes H in + Q inside the window or it does not
            reachable = held(rrows) and ref(th, rrows, lo - 40, Pmin, 'H')[0] < Hin + Q < ref(th, rrows, hi + 60, Pmin, 'H')[0]
            if not (lo - 40 < recv.T < hi + 60):
                if not reachable: rec.refuse('mixed temperature outside the model range'); return
                rec.check(False, 'mix', f'T-far-off/{tag}', f'{form}: T out {recv.T!r} is outside ({lo - 40}, {hi + 60}) although the content of the result {[(ph, sorted(r.items())) for ph, r in rrows]} takes '
                          f'H in + Q = {Hin + Q!r} inside this window (T in {Ts}, Q {Q!r})')
                return
            rec.hit('mix2:judged' + ('/reachable-by-the-inputs' if reachable else '/not-reachable-but-T-inside'))
            res = abs(Hout - (Hin + Q))
            rec.check(res <= 1e-5 * Cout, 'mix', f'enthalpy/{tag}', f'{form}: H out {Hout!r} != sum H in {Hin!r} + Q {Q!r} (residual {res:.4g} kJ/hr = {div(res, Cout):.3g} K * C; T in {Ts}, T out {recv.T}, result {type(recv).__name__} {phases_of(recv)})', residual=div(res, Cout))
            rec.check(recv.P == Pmin, 'mix:pressure', tag, f'{form}: P out {recv.P!r} != lowest pressure among the non-empty inlets {Pmin!r}')
            for s_in, d in zip(ins, case['inlets']):
                if s_in is recv or not nonempty_d(d) or not any(s_in is o for o in others): continue
                tw = mk2(th, d)
                Hi = R(s_in, 'H', 'mix-inlet-after'); Ht = R(tw, 'H', 'fresh-twin')
                rec.check(s_in.T == d['T'] and abs(Hi - Ht) <= 1e-9 * abs(Ht) + 1e-9, 'mix', f'inlet-changed/{tag}',
                          f'after {form} an inlet reports H={Hi!r}, T={s_in.T!r}; a fresh stream in the same state has H={Ht!r}, T={d["T"]}')
            if form == 'mix_from' and not recv_in:
                # the unit is run again on the same objects: the receiver now holds the first result (possibly in another phase / as a multi-phase stream)
                recv.mix_from(args, energy_balance=True, **kw)
                H2 = R(recv, 'H', 'mix-receiver-second-run'); C2 = R(recv, 'C', 'mix-receiver-second-run')
                rec.check(abs(H2 - (Hin + Q)) <= 1e-5 * C2, 'mix', f'second-run/{tag}', f'second mix_from on the same objects: H out {H2!r} != sum H in {Hin!r} + Q {Q!r} (first run gave {Hout!r})',
                          residual=div(abs(H2 - (Hin + Q)), C2))
                rec.check(recv.P == Pmin, 'mix:pressure', 'second-run/' + tag, f'second mix_from: P out {recv.P!r} != lowest pressure among the non-empty inlets {Pmin!r}')
            rec.hit('mix2')
            if len(in_phases) > 1: rec.hit('mix2:liquid+gas')
            if multi_in: rec.hit('mix2:multi-phase-inlet')
            if rc and rc.get('kind') == 'M': rec.hit('mix2:multi-phase-receiver')
            if rc and rc.get('stale'): rec.hit('mix2:stale-receiver')
            if recv_in and form == 'mix_from' and (len(rc['pos']) > 1 or rc['pos'][0] > 0): rec.hit('mix2:receiver-not-first-or-twice')
            if kw.get('conserve_phases'): rec.hit('mix2:conserve_phases')
            if form != 'mix_from': rec.hit('mix2:form-' + form)
            if len(streams) == 1 and recv_in and Q: rec.hit('mix2:Q-with-only-the-receiver')
            if max(Ts) - min(Ts) >= 5 or Q: rec.mark_nontrivial(case_hash(case))
        elif t == 'sep2':
            form = case['form']
            a = mk2(th, case['a']); b = mk2(th, case['b'])
            if form == 'self':
                T0 = a.T; P0 = a.P
                a.separate_out(a, energy_balance=True)
                rec.check(a.isempty() and not held(rows_of(a)) and R(a, 'H', 'separate-self') == 0, 'separate', 'self', f'a.separate_out(a) with energy balance leaves F_mol={a.F_mol!r}, H={a.H!r}')
                rec.hit('sep2:self')
                return
            if case['mkind'] == 'S': m = tmo.Stream(None, phase=case['mphase'], thermo=th)
            else: m = tmo.MultiStream(None, phases=('g', 'l'), thermo=th)
            if form == 'empty-other':
                m.copy_like(a)
                H0 = R(m, 'H', 'separate-mixture'); T0 = m.T
                m.separate_out(b, energy_balance=True)
                lo, hi = range_of(m)
                H1 = R(m, 'H', 'separate-remainder'); C1 = R(m, 'C', 'separate-remainder')
                rec.check(abs(m.T - T0) <= 1e-6 and abs(H1 - H0) <= 1e-5 * C1, 'separate', 'empty-other', f'separating an empty stream out moved T {T0!r} -> {m.T!r}, H {H0!r} -> {H1!r}', residual=abs(m.T - T0))
                rec.hit('sep2:empty-other')
                return
            m.mix_from([a, b], energy_balance=True)
            lo, hi = range_of(m)
            if not (lo <= m.T <= hi): rec.refuse('the mixture to separate from is itself outside the model range of the phase it is held in'); return
            if case.get('sameTP'):
                # equal thermal conditions on both sides (a vapour taken off a liquid at flash conditions): the enthalpies still differ by the latent heat
                b.T = m.T; b.P = m.P
                lob, hib = range_of(b)
                if not (lob <= b.T <= hib): rec.refuse('the stream taken out is outside the model range of its phase at the mixture temperature'); return
                rec.hit('sep2:same-T-P')
            H0 = R(m, 'H', 'separate-mixture'); Hb = R(b, 'H', 'separate-other')
            tag = ('multi' if isinstance(m, tmo.MultiStream) else 'single') + '-phase-mixture/' + ('multi' if isinstance(b, tmo.MultiStream) else 'single') + '-phase-other' + ('/isub' if form == 'isub' else '')
            other_phase = not isinstance(m, tmo.MultiStream) and not isinstance(b, tmo.MultiStream) and b.phase != m.phase
            tag2 = tag + ('/other-in-another-phase' if other_phase else '') + ('/same-T-P' if case.get('sameTP') else '')
            # outside the quantifier: the enthalpy left over cannot be reached by what remains, in the phase(s) it is held in, inside the model range. Decided before the call from a twin
            # separated without the energy balance (placement of the material) and the reference enthalpy of its raw rows; a failure of the twin is reported, not refused.
            # a holds material and the mixture is a + b: what remains cannot be nothing
            rem = m.copy(); rem.separate_out(b, energy_balance=False)
            remrows = rows_of(rem)
            if not rec.check(held(remrows), 'separate', 'nothing-left/without-energy-balance/' + tag2, f'separate_out(energy_balance=False) leaves nothing of a mixture of a and b after b is taken out (a: {case["a"]})'): return
            lo, hi = range_rows(remrows)
            reachable = ref(th, remrows, lo - 60, m.P, 'H')[0] < H0 - Hb < ref(th, remrows, hi + 80, m.P, 'H')[0]
            if not reachable: rec.refuse('temperature after separation outside the model range'); return
            if form == 'isub': m -= b
            else: m.separate_out(b, energy_balance=True)
            if not rec.check(held(rows_of(m)), 'separate', 'nothing-left/' + tag2, f'separate_out with energy balance leaves nothing although the same call without the energy balance leaves {[(ph, sorted(r.items())) for ph, r in remrows]}'): return
            H1 = R(m, 'H', 'separate-remainder'); C1 = R(m, 'C', 'separate-remainder')
            lo, hi = range_of(m)
            if not rec.check(lo - 60 < m.T < hi + 80, 'separate', 'T-far-off/' + tag2, f'separate_out: T after {m.T!r} is outside ({lo - 60}, {hi + 80}) although what remains takes H before - H other = {H0 - Hb!r} inside this window'): return
            res = abs(H1 - (H0 - Hb))
            rec.check(res <= 1e-5 * C1 + 1e-12 * abs(H0), 'separate', 'enthalpy/' + tag2,
                      f'separate_out: H after {H1!r} != H before {H0!r} - H other {Hb!r} (residual {res:.4g}, C {C1:.4g})', residual=div(res, C1))
            rec.hit('sep2')
            if other_phase: rec.hit('sep2:other-in-another-phase')
            if isinstance(m, tmo.MultiStream) or isinstance(b, tmo.MultiStream): rec.hit('sep2:multi-phase')
            if form == 'isub': rec.hit('sep2:isub')
            rec.mark_nontrivial(case_hash(case))
        elif t == 'set2':
            s = mk2(th, case['s']); which = case['which']
            multi = isinstance(s, tmo.MultiStream)
            rows = rows_d(case['s']); ctx = {}
            lo, hi = range_rows(rows)
            T0 = s.T
            if not (lo <= case['s']['T'] <= hi): rec.refuse('start temperature outside the common model range of the phases present'); return
            if which == 'S':
                rec.hit('set-S:cases')
                if not s_judged(rec, th, rows, case['s']['T']): rec.refuse('ill-conditioned external heat-capacity integral: entropy clause not judged'); return
            def at(T):
                s.T = T; return R(s, which, 'at-a-given-T', ctx)
            vlo, vhi = at(lo), at(hi); s.T = T0
            cur = R(s, which, 'at-a-given-T', ctx)
            ph0 = phases_of(s)
            if case['f'] in (0.0, 1.0): rec.hit('set2:target-at-end-of-range')
            if which == 'Hnet': rec.hit('set2:Hnet')
            if case['current']:
                setattr(s, which, cur)
                rec.check(abs(s.T - T0) <= 1e-6 and phases_of(s) == ph0, 'set-current', which + ('/multi' if multi else ''), f'assigning the current {which} moved T by {s.T - T0!r} (phases {ph0} -> {phases_of(s)})', residual=abs(s.T - T0))
                rec.hit('set-Hnet-current'); return
            target = vlo + case['f'] * (vhi - vlo)
            setattr(s, which, target)
            back = R(s, which, 'after-assignment', ctx)
            C = (R(s, 'C', 'after-assignment') / total(rows) if multi else R(s, 'Cn', 'after-assignment')) if which == 'h' else R(s, 'C', 'after-assignment')
            bound = 1e-5 * C if which in ('H', 'h', 'Hnet') else 1e-5 * C / s.T
            rec.check(abs(back - target) <= bound, 'set-' + which, 'read-back' + ('/multi' if multi else '') + ('/end-of-range' if case['f'] in (0.0, 1.0) else ''), f'{which} = {target!r} then reading gives {back!r} (T {T0} -> {s.T}; bound {bound:.3g})', residual=abs(back - target) / max(bound / 1e-5, 1e-300))
            rec.check(phases_of(s) == ph0, 'set-' + which, 'phase-changed', f'{which} assignment inside the range changed the phases {ph0} -> {phases_of(s)}')
            rec.check(lo - 1e-3 <= s.T <= hi + 1e-3, 'set-' + which, 'T-range', f'{which} target between the end values gave T={s.T} outside [{lo},{hi}]')
            judge_T(rec, th, rows, s, which, target, lo, hi, ('/multi' if multi else '') + ('/end-of-range' if case['f'] in (0.0, 1.0) else ''), ctx)
            if abs(s.T - T0) >= 1: rec.mark_nontrivial(case_hash(case))
        else:
            which = case['which']
            s = tmo.MultiStream(None, phases=tuple(case['phases']), T=case['T'], P=case['P'], thermo=th)
            for ph, row in case['rows'].items():
                for i, v in zip(IDS, row):
                    if v: s.imol[ph, i] = v
            rows = [(ph, {i: v for i, v in enumerate(case['rows'][ph]) if v}) for ph in case['phases']]; ctx = {}
            nonempty = [ph for ph, row in rows if row]
            rec.hit('multi-phase2')
            if len(nonempty) < len(s.phases): rec.hit('multi-phase2:empty-phase')
            if len(nonempty) == 1: rec.hit('multi-phase2:one-non-empty-phase')
            if len(s.phases) == 1: rec.hit('multi-phase2:one-phase')
            if 'L' in nonempty: rec.hit('multi-phase2:L')
            if which == 'S':
                rec.hit('set-S:cases')
                if not s_judged(rec, th, rows, case['T']): rec.refuse('ill-conditioned external heat-capacity integral: entropy clause not judged'); return
            lo, hi = range_rows(rows)
            T0 = s.T
            if not (lo <= case['T'] <= hi): rec.refuse('start temperature outside the common model range of the phases present'); return
            def at(T):
                s.T = T; return R(s, which, 'at-a-given-T', ctx)
            vlo, vhi = at(lo), at(hi); s.T = T0
            cur = R(s, which, 'at-a-given-T', ctx)
            ph0 = tuple(s.phases)
            kind = 'multi/' + ('one-non-empty-phase' if len(nonempty) == 1 else 'several-phases')
            if case['f'] in (0.0, 1.0): rec.hit('set2:target-at-end-of-range')
            if case['current']:
                setattr(s, which, cur)
                rec.check(abs(s.T - T0) <= 1e-6, 'set-current', which + '/' + kind, f'assigning the current {which} of a multi-phase stream {ph0} (non-empty {nonempty}) moved T by {s.T - T0!r}', residual=abs(s.T - T0))
                return
            target = vlo + case['f'] * (vhi - vlo)
            setattr(s, which, target)
            back = R(s, which, 'after-assignment', ctx)
            C = R(s, 'C', 'after-assignment') if which != 'h' else R(s, 'C', 'after-assignment') / total(rows)
            bound = 1e-5 * C if which in ('H', 'h', 'Hnet') else 1e-5 * C / s.T
            rec.check(abs(back - target) <= bound, 'set-' + which, 'read-back/' + kind, f'multi-phase {ph0} (non-empty {nonempty}) {which} = {target!r} then reading gives {back!r} (T {T0} -> {s.T})', residual=abs(back - target) / max(bound / 1e-5, 1e-300))
            rec.check(lo - 1e-3 <= s.T <= hi + 1e-3, 'set-' + which, 'T-range/' + kind, f'multi-phase {which} target between the end values gave T={s.T} outside [{lo},{hi}]')
            rec.check(isinstance(s, tmo.MultiStream) and tuple(s.phases) == ph0, 'set-' + which, 'phase-changed/multi', f'{which} assignment changed the phases {ph0} -> {phases_of(s)}')
            judge_T(rec, th, rows, s, which, target, lo, hi, '/' + kind, ctx)
            if abs(s.T - T0) >= 1: rec.mark_nontrivial(case_hash(case))
    except Exception as e:
        rec.exception(t.rstrip('2') if t != 'setm2' else 'setm', e, what=f'{t} case raised {type(e).__name__}: {str(e)[:160]}')


# ---------------------------------------------------------------------------------------------------------------------
# third generation: the value 0 (the reference state is a legitimate target: every chemical here has a liquid reference phase, so a liquid stream has H = 0 at 298.15 K)

def gen_case3(rng):
    n = len(IDS)
    flows = [0.0 if rng.random() < 0.4 else round(10 ** rng.uniform(-1, 2), 4) for _ in range(n)]
    if not any(flows): flows[rng.randrange(n)] = 5.0
    t = rng.choice(['set0', 'set0', 'mix0'])
    c = {'t': t + '3', 'flows': flows, 'T': round(rng.uniform(280, 360), 2), 'P': rng.choice([101325., 5e4, 3e5]), 'which': rng.choice(['H', 'h']), 'multi': rng.random() < 0.4}
    if t == 'mix0':
        c['ins'] = [[0.0 if rng.random() < 0.4 else round(10 ** rng.uniform(-1, 2), 4) for _ in range(n)] for _ in range(rng.randrange(1, 4))]
        for f in c['ins']:
            if not any(f): f[rng.randrange(n)] = 3.0
        c['via'] = rng.choice(['mix_from', 'mix_from', 'Q-cancels'])
    return c


def run_case3(case, rec):
    rec.begin_case(case)
    th = thermo_of(IDS); tmo.settings.set_thermo(th)
    def liquid(flows, T, P, multi=False):
        if multi:
            st = tmo.MultiStream(None, phases=('g', 'l'), T=T, P=P, thermo=th)
            for i, v in zip(IDS, flows):
                if v: st.imol['l', i] = v
            return st
        st = tmo.Stream(None, phase='l', T=T, P=P, thermo=th)
        for i, v in zip(IDS, flows):
            if v: st.imol[i] = v
        return st
    with np.errstate(all='ignore'):
        if case['t'] == 'set03':
            st = liquid(case['flows'], case['T'], case['P'], case['multi'])
            which = case['which']; tag = which + ('/multi' if case['multi'] else '')
            try:
                setattr(st, which, 0.0)
                back = rd(rec, th, st, which, 'after-assignment/zero'); C = rd(rec, th, st, 'C', 'after-assignment/zero')
            except Exception as e:
                rec.exception('set-zero', e, what=f'{which} = 0 raised {type(e).__name__}: {str(e)[:120]}'); return
            rec.hit('set-zero')
            bound = 1e-5 * C if which == 'H' else 1e-5 * C / sum(case['flows'])
            rec.check(abs(back) <= bound, 'set-' + which, 'read-back/zero/' + tag, f'{which} = 0 on a liquid stream at T={case["T"]}: reading gives {back!r}, T is {st.T!r} (expected 298.15)', residual=abs(back) / max(bound / 1e-5, 1e-300))
            rec.check(abs(st.T - 298.15) <= 1e-4, 'set-' + which, 'T/zero/' + tag, f'{which} = 0: T = {st.T!r}, the reference temperature is 298.15 K')
            rec.mark_nontrivial(case_hash(case))
        else:
            ins = [liquid(f, 298.15, case['P']) for f in case['ins']]
            recv = liquid(case['flows'], case['T'], case['P'], case['multi'])     # stale content at another temperature
            try:
                if case['via'] == 'Q-cancels':
                    hot = liquid(case['ins'][0], min(case['T'] + 40, 370), case['P'])
                    Q = -rd(rec, th, hot, 'H', 'mix-inlet')
                    recv.mix_from([hot], Q=Q)
                    exp = 0.0
                else:
                    recv.mix_from(ins)
                    exp = 0.0
                H = rd(rec, th, recv, 'H', 'mix-receiver/zero-total'); C = rd(rec, th, recv, 'C', 'mix-receiver/zero-total')
            except Exception as e:
                rec.exception('mix-zero', e, what=f'mix_from with zero total enthalpy raised {type(e).__name__}: {str(e)[:120]}'); return
            rec.hit('mix-zero')
            rec.check(abs(H - exp) <= 1e-5 * C, 'mix', f'enthalpy/zero-total/{case["via"]}' + ('/multi-receiver' if case['multi'] else ''),
                      f'mix_from of inlets whose enthalpies (plus Q) add up to exactly 0 into a receiver that was at {case["T"]} K: H out = {H!r}, T out = {recv.T!r} (expected 298.15)', residual=abs(H - exp) / max(C, 1e-300))
            rec.mark_nontrivial(case_hash(case))


def replay(case, rec):
    (run_case3 if case['t'].endswith('3') else run_case2 if case['t'].endswith('2') else run_case)(case, rec)


def run(rec, rng, tier, shard, nshards):
    n = 1500 if tier == 'quick' else 12000
    for i in range(n):
        case = gen_case(rng)
        try:
            run_case(case, rec)
        except Exception as e:
            rec.exception('harness', e, what=f'harness error: {type(e).__name__}: {e}')
        if i % 101 == 0: rec.sample(case)
    # second generation: appended so that the cases above are the same as before
    n2 = 700 if tier == 'quick' else 6000
    for i in range(n2):
        case = gen_case2(rng)
        try:
            run_case2(case, rec)
        except Exception as e:
            rec.exception('harness', e, what=f'harness error: {type(e).__name__}: {e}')
        if i % 233 == 0: rec.sample(case)
    # third generation (appended): the value 0
    for i in range(200 if tier == 'quick' else 2000):
        case = gen_case3(rng)
        try:
            run_case3(case, rec)
        except Exception as e:
            rec.exception('harness', e, what=f'harness error: {type(e).__name__}: {e}')
