"""C11 — molar, mass and volumetric views and unit conversions of a stream always agree.

Monitor (FreshTwin for views): after every step of a random history on a real stream the mass and volumetric views and
totals are compared with mol*MW, mol*1000*V_i(phase,T,P) (V_i evaluated by the harness from the Chemical objects at
the stream's current phase/T/P) and their sums; set/get round trips and fixed unit factors are checked at write steps.
"""
import numpy as np
import thermosteam as tmo
from thermosteam.exceptions import DimensionError
from vt.core import case_hash
from vt.common import thermo_of, stream_invariant

PID = 'C11'
RULE = ('histories of 5-40 steps on one single- or multi-phase stream (5 chemicals, phases l/g/L) mixing view writes (imol/imass/ivol by key, set_flow in 8 units, F_mol/F_mass/F_vol, set_total_flow) '
        'with changes of T, P, phase, phases, link_with(all flag subsets)/unlink with a partner stream, copy_like, property-package reset, scale and mixing; the view relations are evaluated after every step. '
        'non-trivial = >=2 chemicals flowing at some check and >=1 structural change (T/P/phase/phases/link/unlink/package) in the history; distinct = hash of the history')
MIN_NONTRIVIAL = {'quick': 300, 'thorough': 10000}
ASSUMPTIONS = ['molar volumes are read from the Chemical objects (Chemical.V(phase, T, P)); the check judges the wiring of the views, not the volume models',
               'conversion factors come from a fixed table of exact factors written in the harness']
IDS = ('Water', 'Ethanol', 'Methanol', 'Octane', 'Acetone')
PERM = ('Octane', 'Water', 'Acetone', 'Ethanol', 'Methanol')
FACT = {'kmol/hr': ('mol', 1.0), 'mol/s': ('mol', 1000. / 3600.), 'kg/hr': ('mass', 1.0), 'lb/hr': ('mass', 1. / 0.45359237), 'g/min': ('mass', 1000. / 60.),
        'm3/hr': ('vol', 1.0), 'L/min': ('vol', 1000. / 60.), 'gal/min': ('vol', 1. / 0.003785411784 / 60.)}
BAD_UNITS = ('m', 'kg', 'K', 'm2/s', 'J/hr')


def required(tier):
    return ['mass-view', 'vol-view', 'totals', 'round-trip', 'unit-factor', 'total-keeps-composition', 'dimension-rejected', 'after:phase', 'after:phases', 'after:link', 'after:unlink',
            'after:package', 'after:copy_like', 'after:T', 'multi-phase']


def Vi(chem, phase, T, P):
    return 1000. * chem.V(phase.lower() if phase in 'LS' else phase, T, P) if False else 1000. * chem.V(phase, T, P)


def rows_of(s):
    """list of (phase, dense mol row)"""
    if isinstance(s, tmo.MultiStream):
        return [(p, r.to_array()) for p, r in zip(s.phases, s.imol.data.rows)]
    return [(s.phase, s.imol.data.to_array())]


def dense2(x):
    a = x.to_array() if hasattr(x, 'to_array') else np.asarray(x, float)
    return np.atleast_2d(a)


def check_views(s, rec, where):
    chems = s.chemicals
    MW = chems.MW
    rows = rows_of(s)
    mol = np.array([r for _, r in rows])
    T, P = s.T, s.P
    try:
        mass = dense2(s.imass.data); vol = dense2(s.ivol.data)
        mass1 = np.asarray(s.mass.to_array() if hasattr(s.mass, 'to_array') else s.mass, float)
        vol1 = np.asarray(s.vol.to_array() if hasattr(s.vol, 'to_array') else s.vol, float)
        Fmol, Fmass, Fvol = s.F_mol, s.F_mass, s.F_vol
    except Exception as e:
        rec.exception('views', e, what=f'reading the views after {where} raised {type(e).__name__}: {str(e)[:150]}'); return False
    ok = True
    if mass.shape != mol.shape or vol.shape != mol.shape:
        rec.check(False, 'mass-view', f'shape/after-{where}', f'after {where}: the mass/vol views have shape {mass.shape}/{vol.shape} but the molar data has shape {mol.shape}')
        return False
    emass = mol * MW
    ok &= rec.check(np.allclose(mass, emass, rtol=1e-12, atol=0), 'mass-view', f'after-{where}', f'after {where}: imass {mass.tolist()} != mol*MW {emass.tolist()}')
    ok &= rec.check(np.allclose(np.atleast_2d(mass1).sum(0) if mass1.ndim == 2 else mass1, emass.sum(0), rtol=1e-12, atol=0), 'mass-view', f'summed/after-{where}', f'after {where}: stream.mass {mass1.tolist()} != sum over phases of mol*MW {emass.sum(0).tolist()}')
    evol = np.zeros_like(mol)
    for k, (p, r) in enumerate(rows):
        for j, c in enumerate(chems):
            if r[j]: evol[k, j] = r[j] * 1000. * (c.V(p, T, P) if hasattr(c.V, 'l') else c.V(T, P))     # phase-locked chemicals carry a single-phase model
    ok &= rec.check(np.allclose(vol, evol, rtol=1e-11, atol=0), 'vol-view', f'after-{where}', f'after {where}: ivol {vol.tolist()} != mol*V_i(phase={"/".join(p for p, _ in rows)},T={T},P={P}) {evol.tolist()}')
    ok &= rec.check(abs(Fmol - mol.sum()) <= 1e-12 * mol.sum() and abs(Fmass - emass.sum()) <= 1e-12 * emass.sum() and abs(Fvol - evol.sum()) <= 1e-10 * evol.sum(), 'totals',
                    f'after-{where}', f'after {where}: F_mol,F_mass,F_vol = {Fmol},{Fmass},{Fvol} but sums of the views are {mol.sum()},{emass.sum()},{evol.sum()}')
    return ok


def gen_case(rng):
    multi = rng.random() < 0.4
    n = len(IDS)
    def flows(): return [0.0 if rng.random() < 0.3 else round(10 ** rng.uniform(-2, 3), 4) for _ in range(n)]
    start = {'multi': multi, 'T': round(rng.uniform(290, 360), 2), 'P': rng.choice([101325., 5e4, 3e5]),
             'phase': rng.choice('lg'), 'phases': rng.choice(['lg', 'lL', 'glL']), 'flows': [flows() for _ in range(3)]}
    steps = []
    for _ in range(rng.randrange(5, 41)):
        t = rng.choices(['imol', 'imass', 'ivol', 'set_flow', 'F', 'set_total', 'T', 'P', 'phase', 'phases', 'link', 'unlink', 'copy_like', 'package', 'scale', 'mix', 'baddim', 'partner-write'],
                        [3, 4, 4, 5, 3, 3, 3, 2, 3, 2, 3, 2, 1, 1, 1, 1, 1, 2])[0]
        st = {'t': t, 'i': rng.randrange(n), 'k': rng.randrange(100), 'v': round(10 ** rng.uniform(-2, 3), 4)}
        if t == 'set_flow': st['units'] = rng.choice(list(FACT)); st['read'] = rng.choice(list(FACT)); st['key'] = rng.choice(['one', 'all', 'two'])
        if t == 'F': st['which'] = rng.choice(['F_mol', 'F_mass', 'F_vol'])
        if t == 'set_total': st['units'] = rng.choice(list(FACT))
        if t == 'T': st['v'] = round(rng.uniform(290, 360), 2)
        if t == 'P': st['v'] = rng.choice([101325., 5e4, 3e5, 2e5])
        if t == 'phase': st['v'] = rng.choice('lg')
        if t == 'phases': st['v'] = rng.choice(['lg', 'lL', 'glL', 'gL'])
        if t == 'link': st['flags'] = [rng.random() < 0.6, rng.random() < 0.6, rng.random() < 0.6]
        if t == 'baddim': st['units'] = rng.choice(BAD_UNITS)
        steps.append(st)
    return {'start': start, 'steps': steps}


def build(start, th, which=0):
    if start['multi']:
        s = tmo.MultiStream(None, phases=tuple(start['phases']), T=start['T'], P=start['P'], thermo=th)
        for p, row in zip(s.phases, start['flows']):
            for i, v in zip(IDS, row):
                if v and (which == 0): s.imol[p, i] = v
                elif v: s.imol[p, i] = v * 0.5
    else:
        s = tmo.Stream(None, phase=start['phase'], T=start['T'], P=start['P'], thermo=th)
        for i, v in zip(IDS, start['flows'][which]):
            if v: s.imol[i] = v
    return s


def run_case(case, rec):
    rec.begin_case(case)
    th = thermo_of(IDS); th2 = thermo_of(PERM)
    s = build(case['start'], th); partner = build(case['start'], th, 1)
    linked = False
    structural = 0; flowing2 = False
    if not check_views(s, rec, 'construction'): return
    for k, st in enumerate(case['steps']):
        t = st['t']
        multi = isinstance(s, tmo.MultiStream)
        ids = s.chemicals.IDs
        i = IDS[st['i']]
        ph = s.phases[st['k'] % len(s.phases)] if multi else None
        where = t
        try:
            if t in ('imol', 'imass', 'ivol'):
                idx = getattr(s, t)
                if t == 'ivol' and st['v'] == 0: pass
                if multi: idx[ph, i] = st['v']; back = idx[ph, i]
                else: idx[i] = st['v']; back = idx[i]
                rec.check(abs(back - st['v']) <= 1e-12 * st['v'], 'round-trip', f'{t}/{"multi" if multi else "single"}', f'step {k}: wrote {st["v"]} through {t}[{i}] and read back {back}')
            elif t == 'set_flow':
                name, f = FACT[st['units']]
                key = i if st['key'] == 'one' else (... if st['key'] == 'all' else (i, IDS[(st['i'] + 1) % len(IDS)]))
                n = 1 if st['key'] == 'one' else (len(ids) if st['key'] == 'all' else 2)
                data = st['v'] if n == 1 else [st['v'] * (m + 1) for m in range(n)]
                if multi:
                    if st['key'] == 'all': continue
                    s.set_flow(data, st['units'], (ph, key)); back = s.get_flow(st['units'], (ph, key))
                else:
                    s.set_flow(data, st['units'], key); back = s.get_flow(st['units'], key)
                back = np.asarray(back.to_array() if hasattr(back, 'to_array') else back, float)
                rec.check(np.allclose(back, data, rtol=1e-12, atol=0), 'round-trip', f'set_flow/{name}', f'step {k}: set_flow({data}, {st["units"]}) then get_flow gives {back.tolist()}')
                # reading in another unit of the same dimension = value x fixed factor ratio
                name2, f2 = FACT[st['read']]
                if name2 == name:
                    other = s.get_flow(st['read'], (ph, key)) if multi else s.get_flow(st['read'], key)
                    other = np.asarray(other.to_array() if hasattr(other, 'to_array') else other, float)
                    rec.check(np.allclose(other, np.asarray(data, float) * (f2 / f), rtol=1e-9, atol=0), 'unit-factor', f'{st["units"]}->{st["read"]}',
                              f'step {k}: {data} {st["units"]} read as {other.tolist()} {st["read"]} (expected factor {f2 / f})')
                    tot = s.get_total_flow(st['read']); tot0 = s.get_total_flow(st['units'])
                    rec.check(abs(tot - tot0 * f2 / f) <= 1e-9 * abs(tot), 'unit-factor', f'total/{st["units"]}->{st["read"]}', f'step {k}: total {tot0} {st["units"]} = {tot} {st["read"]}')
            elif t == 'F':
                if s.F_mol == 0: continue
                comp = np.array([r for _, r in rows_of(s)]); comp = comp / comp.sum()
                setattr(s, st['which'], st['v'])
                back = getattr(s, st['which'])
                rec.check(abs(back - st['v']) <= 1e-10 * st['v'], 'round-trip', st['which'], f'step {k}: set {st["which"]}={st["v"]} read back {back}')
                comp2 = np.array([r for _, r in rows_of(s)]); comp2 = comp2 / comp2.sum()
                rec.check(np.allclose(comp, comp2, rtol=1e-12, atol=1e-300), 'total-keeps-composition', st['which'], f'step {k}: setting {st["which"]} changed the composition')
            elif t == 'set_total':
                if s.F_mol == 0: continue
                comp = np.array([r for _, r in rows_of(s)]); comp = comp / comp.sum()
                s.set_total_flow(st['v'], st['units'])
                back = s.get_total_flow(st['units'])
                rec.check(abs(back - st['v']) <= 1e-10 * st['v'], 'round-trip', f'set_total_flow/{FACT[st["units"]][0]}', f'step {k}: set_total_flow({st["v"]}, {st["units"]}) read back {back}')
                comp2 = np.array([r for _, r in rows_of(s)]); comp2 = comp2 / comp2.sum()
                rec.check(np.allclose(comp, comp2, rtol=1e-12, atol=1e-300), 'total-keeps-composition', 'set_total_flow', f'step {k}: set_total_flow changed the composition')
            elif t == 'T': s.T = st['v']; structural += 1; rec.hit('after:T')
            elif t == 'P': s.P = st['v']; structural += 1
            elif t == 'phase':
                if multi: continue
                s.phase = st['v']; structural += 1; rec.hit('after:phase')
            elif t == 'phases':
                have = {p for p, r in rows_of(s) if r.any()}
                target = set(st['v']) | have
                if linked: continue      # class-changing conversion on one side of a link belongs to C12/C13 exclusions
                s.phases = tuple(target); structural += 1; rec.hit('after:phases')
            elif t == 'link':
                if type(partner) is not type(s) or (multi and partner.phases != s.phases) or partner.chemicals is not s.chemicals: continue
                s.link_with(partner, *st['flags']); linked = True; structural += 1; rec.hit('after:link')
            elif t == 'unlink':
                s.unlink(); linked = False; structural += 1; rec.hit('after:unlink')
            elif t == 'partner-write':
                pm = isinstance(partner, tmo.MultiStream)
                if pm: partner.imass[partner.phases[st['k'] % len(partner.phases)], i] = st['v']
                else: partner.imass[i] = st['v']
                partner.T = 300 + st['k'] / 3.
            elif t == 'copy_like':
                if linked: continue
                s.copy_like(partner); structural += 1; rec.hit('after:copy_like')
            elif t == 'package':
                if linked: continue
                s._reset_thermo(th2 if s._thermo is th else th); structural += 1; rec.hit('after:package')
            elif t == 'scale': s.scale(st['v'] / 100.)
            elif t == 'mix':
                if linked: continue
                s.mix_from([s, partner], energy_balance=False)
            elif t == 'baddim':
                try:
                    s.get_total_flow(st['units'])
                    rec.check(False, 'dimension-rejected', st['units'], f'step {k}: get_total_flow({st["units"]!r}) was accepted')
                except DimensionError:
                    rec.ok('dimension-rejected')
                except Exception as e:
                    if 'dimension' in str(e).lower() or 'unit' in type(e).__name__.lower() or 'Undefined' in type(e).__name__: rec.ok('dimension-rejected'); rec.refuse(f'rejected through {type(e).__name__}')
                    else: raise
                continue
        except AttributeError as e:
            if 'undefined composition' in str(e): rec.refuse('undefined composition'); continue
            rec.exception(t, e, what=f'step {k} {st} raised AttributeError: {str(e)[:150]}'); return
        except Exception as e:
            rec.exception(t, e, what=f'step {k} {st} raised {type(e).__name__}: {str(e)[:150]}'); return
        if isinstance(s, tmo.MultiStream): rec.hit('multi-phase')
        if not check_views(s, rec, where): return
        if not check_views(partner, rec, f'{t}(partner)'): return
        e = stream_invariant(s)
        if e: rec.check(False, 'invariant', t, f'step {k}: {e}'); return
        if sum(1 for _, r in rows_of(s) for v in r if v) >= 2: flowing2 = True
    if structural >= 1 and flowing2: rec.mark_nontrivial(case_hash(case))


def replay(case, rec):
    run_case(case, rec)


def run(rec, rng, tier, shard, nshards):
    n = 700 if tier == 'quick' else 10000
    for i in range(n):
        case = gen_case(rng)
        try:
            run_case(case, rec)
        except Exception as e:
            rec.exception('harness', e, what=f'harness error: {type(e).__name__}: {e}')
        if i % 101 == 0: rec.sample({'start': case['start'], 'steps': case['steps'][:6], 'n_steps': len(case['steps'])})
