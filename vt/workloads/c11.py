"""C11 — molar, mass and volumetric views and unit conversions of a stream always agree.

Monitor (FreshTwin for views): after every step of a random history on a real stream the mass and volumetric views and
totals are compared with mol*MW, mol*1000*V_i(phase,T,P) (V_i evaluated by the harness from the Chemical objects at
the stream's current phase/T/P) and their sums; set/get round trips and fixed unit factors are checked at write steps.
"""
import numpy as np
import thermosteam as tmo
from thermosteam.exceptions import DimensionError
from vt.core import case_hash
from vt.common import thermo_of, stream_invariant

PID = 'C11'
RULE = ('histories of 5-40 steps on one single- or multi-phase stream (5 chemicals, phases l/g/L) mixing view writes (imol/imass/ivol by key, set_flow in 8 units, F_mol/F_mass/F_vol, set_total_flow) '
        'with changes of T, P, phase, phases, link_with(all flag subsets)/unlink with a partner stream, copy_like, property-package reset, scale and mixing; the view relations are evaluated after every step. '
        'Added: start streams built through the constructors in a random unit (chemical flows, flow=array, total_flow), an optional phase-locked sixth chemical (N2 locked to gas), solid phases, '
        'Indexer.get_data/set_data in units (one key, key tuple, whole array), writes through the array views mol/mass/vol (item, slice, property setter; through a phase view on multi-phase streams), '
        'key forms (ID tuple, ellipsis, phase only, (phase, IDs), ID only on a multi-phase stream = documented refusal on write and phase-summed read), zero values in every write and totals set to 0 / set on an empty stream, '
        'multi->single collapse (phase=, one-letter phases=, as_stream, reduce_phases), a third observer (proxy / flow_proxy / phase view / copy) checked and written through, reverse-direction links, copy_flow, '
        'get_data/set_data, temporary() and temporary_phase() contexts, reset_flow in units, and dimension rejection through get_flow/set_flow/set_total_flow/constructor/reset_flow/Indexer.get_data/set_data with near-miss units. '
        'Round 5: stoichiometric reactions applied to the stream (Reaction / ParallelReaction / SeriesReaction / ReactionSystem, basis mol or wt, built directly or through copy(basis=)), defined on the stream\'s own Chemicals object, '
        'on a permuted / same-order-clone / superset / subset Chemicals object (the reaction temporarily re-bases the molar indexer and puts the container back), through __call__ / force_reaction / the read-only conversion() and reactant_flux() queries, '
        'on the stream, a phase view, a proxy/flow proxy/copy observer, the (possibly linked) partner, a multi-phase stream (reactions with phases) and directly on the array views mol/mass/vol; optionally as the very first operation on a '
        'fresh stream and followed by a write through one view; refused reactions (conversion over 100%, reaction chemicals lacking a flowing chemical) are counted and the views judged afterwards unless negative flows were left; '
        'observer kind copy(thermo=other package). '
        'Oracle audit (round 6): every write in a unit of measure (set_flow, set_total_flow, constructors, reset_flow, Indexer.set_data) is also read back WITHOUT units (plain indexer read / F_mol, F_mass, F_vol) and compared with '
        'value / factor from the harness table (clause unit-base), Stream.get_flow and Indexer.get_data are compared with each other (unit-paths); the molar volume reference picks the model of the phase itself (l/L -> .l, s/S -> .s, g -> .g); '
        'refusals are granted only where the harness sees the reason in the inputs: undefined composition only for a total written to a stream whose molar data is all zero, a missing chemical only when the dropped chemical flows, '
        'conversion over 100% only when the harness stoichiometric model leaves negative flows, a volumetric from-view write only when a molar volume model evaluated by the harness is undefined; anything else is reported. '
        'All relative bounds are 1e-12 (worst residual of any clause over 28000 histories and the repository test suite: 9.4e-16; the residuals are recorded in the evidence). '
        'non-trivial = >=2 chemicals flowing at some check and >=1 structural change (T/P/phase/phases/link/unlink/package) in the history; distinct = hash of the history')
MIN_NONTRIVIAL = {'quick': 300, 'thorough': 10000}
ASSUMPTIONS = ['molar volumes are read from the Chemical objects (Chemical.V(phase, T, P)); the check judges the wiring of the views, not the volume models',
               'conversion factors come from a fixed table of exact factors written in the harness',
               'the base units of the unit-less data are kmol/hr, kg/hr and m3/hr (documented on Stream.imol/imass/ivol and F_mol/F_mass/F_vol); the mass base is tied to the molar base by mol*MW and the volumetric base by mol*1000*V_i in check_views',
               'whether a stoichiometric reaction converts over 100% is predicted by a small model in the harness (extent = X * reactant amount in the basis of definition); within 1e-9 of exact exhaustion either answer of the library is accepted']
IDS = ('Water', 'Ethanol', 'Methanol', 'Octane', 'Acetone')
PERM = ('Octane', 'Water', 'Acetone', 'Ethanol', 'Methanol')
FACT = {'kmol/hr': ('mol', 1.0), 'mol/s': ('mol', 1000. / 3600.), 'kg/hr': ('mass', 1.0), 'lb/hr': ('mass', 1. / 0.45359237), 'g/min': ('mass', 1000. / 60.),
        'm3/hr': ('vol', 1.0), 'L/min': ('vol', 1000. / 60.), 'gal/min': ('vol', 1. / 0.003785411784 / 60.)}
BAD_UNITS = ('m', 'kg', 'K', 'm2/s', 'J/hr')
# near misses: the amount without the time, the time without the amount, a flux, a density
NEAR_MISS = ('kmol', 'mol', 'm3', 'L', 'lb', 'kg/m3', 'kmol/hr/m2', 'hr', '1/hr', 'kmol/m3', 'kg*hr', 'm3/hr**2')
BAD_FORMS = ('get_total_flow', 'get_flow', 'set_flow', 'set_total_flow', 'ctor', 'reset_flow', 'idx-get', 'idx-set', 'view-get', 'view-set')
IDS6 = IDS + ('N2',)
PERM6 = ('Octane', 'N2', 'Water', 'Acetone', 'Ethanol', 'Methanol')
UNITS_OF = {'mol': [u for u, (n, f) in FACT.items() if n == 'mol'], 'mass': [u for u, (n, f) in FACT.items() if n == 'mass'], 'vol': [u for u, (n, f) in FACT.items() if n == 'vol']}
_locked = {}


def thermo_locked(ids):
    """Thermo over ids where N2 is locked to the gas phase (single-phase volume model: the non-PhaseHandle branch of the volumetric view)."""
    key = tuple(ids)
    th = _locked.get(key)
    if th is None:
        chems = [tmo.Chemical('N2', phase='g', cache=True) if i == 'N2' else tmo.Chemical(i, cache=True) for i in ids]
        th = tmo.Thermo(tmo.Chemicals(chems))
        _locked[key] = th
    return th


def required(tier):
    return ['mass-view', 'vol-view', 'totals', 'round-trip', 'unit-factor', 'total-keeps-composition', 'dimension-rejected', 'after:phase', 'after:phases', 'after:link', 'after:unlink',
            'after:package', 'after:copy_like', 'after:T', 'multi-phase',
            # added branches
            'ctor:units', 'ctor:total', 'locked-chemical', 'idx-units:one', 'idx-units:tuple', 'idx-units:whole', 'arr:item', 'arr:slice', 'arr:setter', 'arr:from-view', 'arr:phase-view',
            'key:tuple', 'key:ellipsis', 'key:phase-only', 'key:id-only-read', 'zero-write', 'total:zero', 'total:on-empty', 'after:collapse', 'phase:solid',
            'observer:proxy', 'observer:flow_proxy', 'observer:view', 'observer:copy', 'observer-write', 'after:rlink', 'after:copy_flow', 'after:set_data', 'after:temporary', 'after:reset_flow',
            'baddim:get_flow', 'baddim:set_flow', 'baddim:set_total_flow', 'baddim:ctor', 'baddim:idx-get', 'baddim:idx-set', 'baddim:view-get', 'baddim:view-set', 'baddim:near-miss',
            # round 5: reactions (temporary re-basing of the molar indexer) and re-based copies
            'react', 'react:wt', 'react:mol', 'react:other-chemicals', 'react:wt-other-chemicals', 'react:multi-phase', 'react:phase-view', 'react:array', 'react:observer', 'react:partner', 'react:linked', 'react:set',
            'react:query', 'react:force', 'react:first', 'react:post-write', 'react:chems:perm', 'react:chems:clone', 'react:chems:superset', 'react:chems:subset', 'react:refused:infeasible', 'react:refused:missing-chemical',
            'observer:copy-thermo',
            # oracle audit (round 6): base data behind every write in units, the two conversion paths, per-view from-view writes, refusals seen by the harness itself
            'unit-base', 'unit-paths', 'unit-base:set_flow', 'unit-base:get_total_flow', 'unit-base:set_total_flow', 'unit-base:ctor', 'unit-base:ctor-total/single', 'unit-base:ctor-total/multi',
            'unit-base:Indexer.set_data', 'unit-base:reset_flow', 'unit-base:reset_flow-total', 'arr:from-view:mol', 'arr:from-view:mass', 'arr:from-view:vol',
            'refused:undefined-composition:F-empty', 'react:applied:subset', 'react:accepted:infeasible-flag', 'react:refused:infeasible:warranted', 'react:refused:missing-chemical:on-target']


def Vi(chem, phase, T, P):
    return 1000. * chem.V(phase.lower() if phase in 'LS' else phase, T, P) if False else 1000. * chem.V(phase, T, P)


# audit item 5: the harness resolves the phase letter itself ('L' second liquid and 'S' second solid use the liquid / solid model) and calls the model of that
# phase directly; PhaseHandle.__call__ / .L / .S (the aliases the volumetric view of the library goes through) are not on the reference path
PHASE_MODEL = {'l': 'l', 'L': 'l', 's': 's', 'S': 's', 'g': 'g'}


def Vmodel(chem, phase):
    """the molar volume model [m3/mol as f(T, P)] of one chemical in one phase, picked by the harness"""
    V = chem.V
    if hasattr(V, 'l'): return getattr(V, PHASE_MODEL[phase])
    return V            # phase-locked chemicals carry a single-phase model


def relerr(a, b):
    """largest |a-b|/|b| over the entries (0 where a == b, inf where b == 0 != a, nan where undefined): `relerr(a, b) <= rtol` is np.allclose(a, b, rtol, atol=0)"""
    a = np.asarray(a, float); b = np.asarray(b, float)
    if a.shape != b.shape: return float('inf')
    if not a.size: return 0.0
    with np.errstate(all='ignore'):
        e = np.where(a == b, 0.0, np.abs(a - b) / np.abs(b))
    return float(e.max())


def rows_of(s):
    """list of (phase, dense mol row)"""
    if isinstance(s, tmo.MultiStream):
        return [(p, r.to_array()) for p, r in zip(s.phases, s.imol.data.rows)]
    return [(s.phase, s.imol.data.to_array())]


def dense2(x):
    a = x.to_array() if hasattr(x, 'to_array') else np.asarray(x, float)
    return np.atleast_2d(a)


def check_views(s, rec, where):
    # NB: also called by the ambient monitor (vt/ambient.py) with a forwarding recorder that only offers check() and exception()
    chems = s.chemicals
    MW = chems.MW
    rows = rows_of(s)
    mol = np.array([r for _, r in rows])
    T, P = s.T, s.P
    try:
        mass = dense2(s.imass.data); vol = dense2(s.ivol.data)
        mass1 = np.asarray(s.mass.to_array() if hasattr(s.mass, 'to_array') else s.mass, float)
        vol1 = np.asarray(s.vol.to_array() if hasattr(s.vol, 'to_array') else s.vol, float)
        mol1 = np.asarray(s.mol.to_array() if hasattr(s.mol, 'to_array') else s.mol, float)
        Fmol, Fmass, Fvol = s.F_mol, s.F_mass, s.F_vol
    except Exception as e:
        rec.exception('views', e, what=f'reading the views after {where} raised {type(e).__name__}: {str(e)[:150]}'); return False
    ok = True
    if mass.shape != mol.shape or vol.shape != mol.shape:
        rec.check(False, 'mass-view', f'shape/after-{where}', f'after {where}: the mass/vol views have shape {mass.shape}/{vol.shape} but the molar data has shape {mol.shape}')
        return False
    emass = mol * MW
    r = relerr(mass, emass)
    ok &= rec.check(r <= 1e-12, 'mass-view', f'after-{where}', f'after {where}: imass {mass.tolist()} != mol*MW {emass.tolist()}', residual=r)
    r = relerr(np.atleast_2d(mass1).sum(0) if mass1.ndim == 2 else mass1, emass.sum(0))
    ok &= rec.check(r <= 1e-12, 'mass-view', f'summed/after-{where}', f'after {where}: stream.mass {mass1.tolist()} != sum over phases of mol*MW {emass.sum(0).tolist()}', residual=r)
    evol = np.zeros_like(mol)
    for k, (p, row) in enumerate(rows):
        for j, c in enumerate(chems):
            if row[j]: evol[k, j] = row[j] * 1000. * Vmodel(c, p)(T, P)
    r = relerr(vol, evol)
    ok &= rec.check(r <= 1e-12, 'vol-view', f'after-{where}', f'after {where}: ivol {vol.tolist()} != mol*V_i(phase={"/".join(p for p, _ in rows)},T={T},P={P}) {evol.tolist()}', residual=r)
    # added: the array views stream.vol and stream.mol (per chemical, summed over the phases on a multi-phase stream)
    r = relerr(np.atleast_2d(vol1).sum(0) if vol1.ndim == 2 else vol1, evol.sum(0)) if vol1.shape[-1:] == evol.shape[-1:] else float('inf')
    ok &= rec.check(r <= 1e-12, 'vol-view', f'summed/after-{where}', f'after {where}: stream.vol {vol1.tolist()} != sum over phases of mol*V_i {evol.sum(0).tolist()}', residual=r)
    r = relerr(np.atleast_2d(mol1).sum(0) if mol1.ndim == 2 else mol1, mol.sum(0)) if mol1.shape[-1:] == mol.shape[-1:] else float('inf')
    ok &= rec.check(r <= 1e-12, 'mol-view', f'summed/after-{where}', f'after {where}: stream.mol {mol1.tolist()} != sum over phases of the molar data {mol.sum(0).tolist()}', residual=r)
    rt = max(relerr(Fmol, mol.sum()), relerr(Fmass, emass.sum()), relerr(Fvol, evol.sum()))
    ok &= rec.check(abs(Fmol - mol.sum()) <= 1e-12 * mol.sum() and abs(Fmass - emass.sum()) <= 1e-12 * emass.sum() and abs(Fvol - evol.sum()) <= 1e-12 * evol.sum(), 'totals',
                    f'after-{where}', f'after {where}: F_mol,F_mass,F_vol = {Fmol},{Fmass},{Fvol} but sums of the views are {mol.sum()},{emass.sum()},{evol.sum()}', residual=rt)
    return ok


def gen_react(rng):
    """round 5: the parameters of one reaction step."""
    return {'rk': rng.choice(['single', 'single', 'parallel', 'series', 'system']), 'basis': rng.choice(['mol', 'wt']),
            'chems': rng.choice(['same', 'perm', 'perm', 'clone', 'superset', 'subset']), 'form': rng.choice(['call', 'call', 'call', 'force', 'query']),
            'target': rng.choice(['stream', 'stream', 'stream', 'phase-view', 'array', 'observer', 'partner']), 'X': round(rng.uniform(0.05, 0.95), 3),
            'c': [rng.choice([1, 2, 0.5]), rng.choice([1, 0.5, 0.25])], 'made': rng.choice(['ctor', 'ctor', 'copy']), 'infeasible': rng.random() < 0.08,
            'post': rng.choice([None, 'imol', 'imol', 'imass', 'ivol']), 'view': rng.choice(['mol', 'mass', 'mass', 'vol'])}


def gen_case(rng):
    multi = rng.random() < 0.4
    n = len(IDS)
    def flows(): return [0.0 if rng.random() < 0.3 else round(10 ** rng.uniform(-2, 3), 4) for _ in range(n)]
    start = {'multi': multi, 'T': round(rng.uniform(290, 360), 2), 'P': rng.choice([101325., 5e4, 3e5]),
             'phase': rng.choice('lg'), 'phases': rng.choice(['lg', 'lL', 'glL']), 'flows': [flows() for _ in range(3)]}
    # added: phase-locked sixth chemical, solid phases, construction through the constructors in a unit of measure
    start['locked'] = rng.random() < 0.3
    start['flows6'] = [0.0 if rng.random() < 0.4 else round(10 ** rng.uniform(-2, 3), 4) for _ in range(3)]
    if rng.random() < 0.15: start['phase'] = 's'
    if rng.random() < 0.15: start['phases'] = rng.choice(['ls', 'gls', 'lgsL'])
    start['ctor'] = rng.choice(list(FACT)) if rng.random() < 0.5 else None
    start['ctor_form'] = rng.choice(['kw', 'kw', 'flow'])
    start['ctor_total'] = round(10 ** rng.uniform(-2, 3), 4) if rng.random() < 0.35 else None
    nn = n + 1
    # round 5: a reaction as the very first operation on the fresh stream (no view was ever built)
    start['react0'] = dict(gen_react(rng), i=rng.randrange(n), k=rng.randrange(100), v=round(10 ** rng.uniform(-2, 3), 4), target='stream') if rng.random() < 0.12 else None
    steps = []
    for _ in range(rng.randrange(5, 41)):
        t = rng.choices(['imol', 'imass', 'ivol', 'set_flow', 'F', 'set_total', 'T', 'P', 'phase', 'phases', 'link', 'unlink', 'copy_like', 'package', 'scale', 'mix', 'baddim', 'partner-write',
                         'idx-units', 'arr', 'keyed', 'F0', 'F-empty', 'collapse', 'observer', 'obs-write', 'rlink', 'copy_flow', 'data', 'temporary', 'reset_flow', 'react'],
                        [3, 4, 4, 5, 3, 3, 3, 2, 3, 2, 3, 2, 1, 1, 1, 1, 2, 2,
                         4, 4, 4, 0.5, 0.3, 0.7, 1.5, 1.5, 1, 1, 0.7, 0.7, 0.7, 4])[0]
        st = {'t': t, 'i': rng.randrange(n), 'k': rng.randrange(100), 'v': round(10 ** rng.uniform(-2, 3), 4)}
        if start['locked'] and rng.random() < 0.25: st['i'] = n          # the locked chemical
        if t in ('imol', 'imass', 'ivol', 'set_flow', 'idx-units', 'arr', 'keyed', 'obs-write') and rng.random() < 0.1: st['v'] = 0.0     # boundary: the entry must vanish through the view
        if t == 'set_flow': st['units'] = rng.choice(list(FACT)); st['read'] = rng.choice(list(FACT)); st['key'] = rng.choice(['one', 'all', 'two', 'phase'])
        if t == 'F': st['which'] = rng.choice(['F_mol', 'F_mass', 'F_vol'])
        if t == 'set_total': st['units'] = rng.choice(list(FACT))
        if t == 'T': st['v'] = round(rng.uniform(290, 360), 2)
        if t == 'P': st['v'] = rng.choice([101325., 5e4, 3e5, 2e5])
        if t == 'phase': st['v'] = rng.choice('lgls')
        if t == 'phases': st['v'] = rng.choice(['lg', 'lL', 'glL', 'gL', 'ls', 'gs'])
        if t == 'link': st['flags'] = [rng.random() < 0.6, rng.random() < 0.6, rng.random() < 0.6]
        if t == 'rlink': st['flags'] = [rng.random() < 0.6, rng.random() < 0.6, rng.random() < 0.6]
        if t == 'baddim':
            st['form'] = rng.choice(BAD_FORMS)
            if st['form'] in ('view-get', 'view-set'):
                # a proper flow unit of another dimension than the view it is offered to
                st['view'] = rng.choice(['imol', 'imass', 'ivol'])
                dim = {'imol': 'mol', 'imass': 'mass', 'ivol': 'vol'}[st['view']]
                st['units'] = rng.choice([u for u, (nm, f) in FACT.items() if nm != dim])
            else:
                st['units'] = rng.choice(BAD_UNITS + NEAR_MISS)
                st['view'] = rng.choice(['imol', 'imass', 'ivol'])
        if t == 'idx-units':
            st['view'] = rng.choice(['imol', 'imass', 'ivol']); dim = {'imol': 'mol', 'imass': 'mass', 'ivol': 'vol'}[st['view']]
            st['units'] = rng.choice(UNITS_OF[dim]); st['read'] = rng.choice(UNITS_OF[dim]); st['form'] = rng.choice(['one', 'tuple', 'whole'])
        if t == 'arr':
            st['view'] = rng.choice(['mol', 'mass', 'vol']); st['form'] = rng.choice(['item', 'item', 'slice', 'setter', 'from-view', 'from-view'])
            st['how'] = rng.choice(['slice', 'setter', 'copy_like']); st['dT'] = rng.choice([0.0, 25.0, -20.0]); st['dph'] = rng.random() < 0.5
        if t == 'keyed':
            st['view'] = rng.choice(['imol', 'imass', 'ivol']); st['form'] = rng.choice(['tuple', 'ellipsis', 'phase', 'id-only'])
        if t in ('F0', 'F-empty'):
            st['which'] = rng.choice(['F_mol', 'F_mass', 'F_vol', 'set_total']); st['units'] = rng.choice(list(FACT))
        if t == 'collapse': st['form'] = rng.choice(['phase=', 'phases=1', 'as_stream', 'reduce_phases']); st['p'] = rng.choice('lgs')
        if t == 'observer': st['kind'] = rng.choice(['proxy', 'flow_proxy', 'view', 'copy', 'copy-thermo'])
        if t == 'react': st.update(gen_react(rng))
        if t == 'obs-write': st['view'] = rng.choice(['imol', 'imass', 'ivol'])
        if t == 'copy_flow': st['form'] = rng.choice(['all', 'one', 'exclude'])
        if t == 'temporary': st['T'] = round(rng.uniform(290, 360), 2)
        if t == 'reset_flow': st['units'] = rng.choice(list(FACT)); st['total'] = rng.random() < 0.4; st['p'] = rng.choice(['l', 'g', None])
        steps.append(st)
    if rng.random() < 0.04:
        steps.append({'t': 'tmp-phase', 'i': 0, 'k': 0, 'v': 1.0, 'p': rng.choice('lg')})
    return {'start': start, 'steps': steps}


def build(start, th, which=0):
    if start['multi']:
        s = tmo.MultiStream(None, phases=tuple(start['phases']), T=start['T'], P=start['P'], thermo=th)
        for p, row in zip(s.phases, start['flows']):
            for i, v in zip(IDS, row):
                if v and (which == 0): s.imol[p, i] = v
                elif v: s.imol[p, i] = v * 0.5
    else:
        s = tmo.Stream(None, phase=start['phase'], T=start['T'], P=start['P'], thermo=th)
        for i, v in zip(IDS, start['flows'][which]):
            if v: s.imol[i] = v
    if start.get('locked'):
        # the phase-locked chemical
        v = start['flows6'][which]
        if v and start['multi']: s.imol[s.phases[-1], 'N2'] = v
        elif v: s.imol['N2'] = v
    return s


def build_in_units(start, th, rec):
    """added: the start stream built through the public constructors in a unit of measure; what was written is read back in the same unit."""
    u = start['ctor']; dim, f = FACT[u]
    tot = start.get('ctor_total')
    cids = th.chemicals.IDs
    kind = 'multi' if start['multi'] else 'single'
    if start['multi']:
        order = tmo.MultiStream(None, phases=tuple(start['phases']), thermo=th).phases
        given = {}
        for p, row in zip(order, start['flows']):
            items = [(i, v) for i, v in zip(IDS, row) if v]
            if items: given[p] = items
        if start.get('locked') and start['flows6'][0]: given.setdefault(order[-1], []).append(('N2', start['flows6'][0]))
        if not given: tot = None
        s = tmo.MultiStream(None, phases=tuple(start['phases']), T=start['T'], P=start['P'], thermo=th, units=u, total_flow=tot, **given)
        wrote = {(p, i): v for p, items in given.items() for i, v in items}
        read = {key: s.get_flow(u, key) for key in wrote}
    else:
        row = [v for v in start['flows'][0]] + ([start['flows6'][0]] if start.get('locked') else [])
        full = dict(zip(IDS6, row))
        given = {i: v for i, v in full.items() if v}
        if not given: tot = None
        if start.get('ctor_form') == 'flow':
            s = tmo.Stream(None, flow=[full.get(i, 0.0) for i in cids], phase=start['phase'], T=start['T'], P=start['P'], thermo=th, units=u, total_flow=tot)
            kind = 'single-flow-array'
        else:
            s = tmo.Stream(None, phase=start['phase'], T=start['T'], P=start['P'], thermo=th, units=u, total_flow=tot, **given)
        wrote = dict(given)
        read = {key: s.get_flow(u, key) for key in wrote}
    rec.hit('ctor:units')
    # audit item 1: the unit-less base data (plain indexer read, no unit on the path) against the harness's factor table
    idx = getattr(s, 'i' + dim)
    base = {key: float(idx[key]) for key in wrote}
    if tot is None:
        bad = {str(k): (v, read[k]) for k, v in wrote.items() if abs(read[k] - v) > 1e-12 * v}
        rec.check(not bad, 'round-trip', f'ctor/{dim}/{kind}', f'constructor given flows in {u} reads back (written, read) {bad}', residual=max([relerr(read[k], v) for k, v in wrote.items()], default=0.0))
        badb = {str(k): (v / f, base[k]) for k, v in wrote.items() if not abs(base[k] - v / f) <= 1e-12 * (v / f)}
        rec.check(not badb, 'unit-base', f'ctor/{dim}/{u}/{kind}', f'constructor given flows in {u}: the base data i{dim} (no units) is not the given flows / {f} (expected, read) {badb}',
                  residual=max([relerr(base[k], v / f) for k, v in wrote.items()], default=0.0))
        rec.hit('unit-base:ctor')
    else:
        rec.hit('ctor:total')
        back = s.get_total_flow(u)
        rec.check(abs(back - tot) <= 1e-12 * tot, 'round-trip', f'ctor-total/{dim}/{kind}', f'constructor given total_flow={tot} with units={u!r} has get_total_flow({u!r}) = {back}', residual=relerr(back, tot))
        sm = sum(wrote.values()); sr = sum(read.values())
        bad = {str(k): (v / sm, read[k] / sr) for k, v in wrote.items() if abs(read[k] / sr - v / sm) > 1e-12 * abs(v / sm)} if sr else {'all': 'no flow'}
        rec.check(not bad, 'total-keeps-composition', f'ctor-total/{dim}/{kind}', f'constructor given total_flow={tot} {u}: the fractions of the flows in {u} are not the given proportions (expected, read) {bad}')
        check_base_total(rec, s, dim, tot, u, f'ctor-total/{kind}', f'constructor given total_flow={tot} with units={u!r}')
        sb = sum(base.values())
        badb = {str(k): (v / sm, base[k] / sb) for k, v in wrote.items() if not abs(base[k] / sb - v / sm) <= 1e-12 * abs(v / sm)} if sb else {'all': 'no flow'}
        rec.check(not badb, 'total-keeps-composition', f'ctor-total-base/{dim}/{kind}', f'constructor given total_flow={tot} {u}: the fractions of the base data i{dim} (no units) are not the given proportions (expected, read) {badb}')
    return s


def dense(x):
    return np.asarray(x.to_array() if hasattr(x, 'to_array') else x, float)


def vol_models_defined(flows_of, at):
    """audit item 3: the harness's own look at the molar volume models: every chemical flowing in `flows_of` has a positive finite molar volume at the phase, T, P of `at`."""
    try:
        row = rows_of(flows_of)[0][1]; chems = flows_of.chemicals.tuple
        for j in np.flatnonzero(row):
            v = Vmodel(chems[j], at.phase)(at.T, at.P)
            if not (v > 0 and np.isfinite(v)): return False
    except Exception:
        return False
    return True


def check_base(rec, s, dim, key, data, u, op, what):
    """audit item 1: a value written in the unit u is tied to the unit-less base data (kmol/hr, kg/hr, m3/hr) through the harness's own factor table:
    the plain indexer read stream.i<dim>[key] (no unit anywhere on the path) must be data / FACT[u]. The base data itself is tied to mol*MW / mol*V_i by
    check_views, so a conversion error common to a whole dimension (wrong base unit, inverted factor) no longer cancels between a write and a read in units."""
    f = FACT[u][1]
    idx = getattr(s, 'i' + dim)
    got = dense(idx.data if key is None else idx[key]); exp = np.asarray(data, float) / f
    r = relerr(got, exp)
    rec.hit('unit-base:' + op)
    return rec.check(r <= 1e-12, 'unit-base', f'{op}/{dim}/{u}', f'{what}: the base data i{dim}[{key}] (no units) is {got.tolist()} but {np.asarray(data).tolist()} {u} is {exp.tolist()} in the base unit '
                     f'(harness factor {f} {u} per base unit)', residual=r)


def check_base_total(rec, s, dim, value, u, op, what, rtol=1e-12):
    """audit item 1: a total written / read in the unit u against the unit-less total F_<dim> through the harness's factor table."""
    f = FACT[u][1]
    got = float(getattr(s, 'F_' + dim)); exp = value / f
    r = relerr(got, exp)
    rec.hit('unit-base:' + op)
    return rec.check(r <= rtol, 'unit-base', f'{op}/{dim}/{u}', f'{what}: the total F_{dim} (no units) is {got} but {value} {u} is {exp} in the base unit (harness factor {f} {u} per base unit)', residual=r)


def expect_rejected(rec, k, form, units, call, s):
    """added: a dimensionally inconsistent unit offered to `call` must be rejected; a rejected write leaves the flows as they were."""
    before = [r.copy() for _, r in rows_of(s)]
    try:
        call()
        rec.check(False, 'dimension-rejected', f'{form}/{units}', f'step {k}: {form} with units {units!r} was accepted')
    except DimensionError:
        rec.ok('dimension-rejected')
    except Exception as e:
        if 'Dimension' in type(e).__name__: rec.ok('dimension-rejected')
        elif 'Undefined' in type(e).__name__: rec.ok('dimension-rejected'); rec.refuse(f'rejected through {type(e).__name__}')
        else: raise
    after = [r for _, r in rows_of(s)]
    same = len(before) == len(after) and all(np.array_equal(x, y) for x, y in zip(before, after))
    rec.check(same, 'dimension-rejected', f'state-changed/{form}', f'step {k}: {form} with units {units!r} changed the flows from {[x.tolist() for x in before]} to {[y.tolist() for y in after]}')
    rec.hit('baddim:' + form)
    if units in NEAR_MISS: rec.hit('baddim:near-miss')


_rx_chems = {}


def rx_chemicals(how, chems, th, th2, locked6, drop):
    """round 5: the Chemicals object a reaction is defined on, relative to the chemicals of the stream it will be applied to."""
    if how == 'same': return chems
    if how == 'perm' or (how == 'superset' and locked6): return th2.chemicals if chems is th.chemicals else th.chemicals
    if how == 'superset': return thermo_locked(PERM6 if chems is th.chemicals else IDS6).chemicals       # one more chemical (N2) and another order
    key = (how, tuple(chems.IDs), bool(locked6), drop if how == 'subset' else None)
    c = _rx_chems.get(key)
    if c is None:
        c = tmo.Chemicals([x for x in chems if not (how == 'subset' and x.ID == drop)]); c.compile()
        _rx_chems[key] = c
    return c


def negative_left(*streams):
    return any((r < 0).any() for x in streams if x is not None for _, r in rows_of(x))


def predict_negative(T, prims, defbasis, basis):
    """audit item 4: the harness's own stoichiometric model of a reaction (set) applied to the flows of T, to decide from the inputs whether 'conversion over 100%' can be
    claimed. prims = nested list: a tuple (reactant, X, {key: coefficient}) is one reaction, a list is a parallel set (all extents taken from the same state), the outer
    list runs in series; key = (row, column) in rows_of(T). The coefficients are in the basis the reaction was DEFINED on (defbasis: mol or wt; a reaction converted with
    copy(basis=) describes the same change). Returns (neg, near): neg = the sum of the negative entries of the reacted flows expressed in the basis the reaction is APPLIED
    on (kmol/hr or kg/hr; the library refuses when that sum is below -1e-12), near = some entry ends within rounding (1e-9 of the amounts added and removed) of zero, so
    that the sign the library computes is not decided by the inputs."""
    MW = np.asarray(T.chemicals.MW, float)
    W = np.array([r for _, r in rows_of(T)], float)
    if defbasis == 'wt': W = W * MW
    W0 = W.copy(); M = np.abs(W)
    def delta(Wc, prim):
        r, X, nu = prim
        ext = X * Wc[r] / abs(nu[r])
        d = np.zeros_like(Wc)
        for key, c in nu.items(): d[key] += c * ext
        return d
    for stage in prims:
        ds = [delta(W, q) for q in stage] if isinstance(stage, list) else [delta(W, stage)]
        for d in ds: W = W + d; M = M + np.abs(d)
    near = bool(((np.abs(W) <= 1e-9 * M) & (W != W0)).any())
    if defbasis != basis: W = W / MW if defbasis == 'wt' else W * MW
    return float(W[W < 0].sum()), near


def do_react(st, k, s, partner, obs, obs_kind, linked, CIDS, th, th2, locked6, rec, first=False):
    """round 5: apply a stoichiometric reaction to the stream (or to a phase view / observer / partner / array view of it).

    A reaction defined on another Chemicals object than the stream's re-bases the stream's molar indexer onto the reaction's chemicals, reacts, and puts the
    original data container (and its cached mass / volumetric views) back: the view relations are judged afterwards like after any other step.
    Returns (where, end_case)."""
    multi = isinstance(s, tmo.MultiStream)
    n = len(CIDS)
    a, b, c, d = (CIDS[(st['i'] + m) % n] for m in range(4))
    basis = st['basis']; how = st['chems']; form = st['form']; target = st['target']; rk = st['rk']
    ph = s.phases[st['k'] % len(s.phases)] if multi else None
    if target == 'phase-view' and not multi: target = 'stream'
    if target == 'observer' and obs is None: target = 'stream'
    if target == 'array':
        T = s[ph] if multi else s
        if how not in ('same', 'clone'): how = 'clone'        # an array carries no chemicals: the reaction has to be defined in the same order
    elif target == 'phase-view': T = s[ph]
    elif target == 'observer': T = obs
    elif target == 'partner': T = partner
    else: T = s
    Tm = isinstance(T, tmo.MultiStream)
    chems = rx_chemicals(how, T.chemicals, th, th2, locked6, d)
    if how == 'superset' and locked6: how = 'perm'
    phases = T.phases if Tm else None
    infeasible = bool(st.get('infeasible')) and form == 'call' and target != 'array'
    if Tm:
        p = T.phases[st['k'] % len(T.phases)]; p2 = T.phases[(st['k'] + 1) % len(T.phases)]
        tag = lambda x, q: f'{x},{q}'
    else:
        p = p2 = None
        tag = lambda x, q: x
    c1, c2 = st['c']; X = st['X']; X2 = round(1. - X, 3)
    made = st['made']
    def R(eq, reactant, x):
        if made == 'copy':        # defined on the other basis and converted
            return tmo.Reaction(eq, reactant=reactant, X=x, chemicals=chems, basis='mol' if basis == 'wt' else 'wt', phases=phases).copy(basis=basis)
        return tmo.Reaction(eq, reactant=reactant, X=x, chemicals=chems, basis=basis, phases=phases)
    if infeasible: r1 = R(f'{tag(a, p)} + 50 {tag(c, p)} -> {c1} {tag(b, p2)}', a, X)       # needs 50 X c per a: refused (conversion over 100%) unless c is plentiful
    else: r1 = R(f'{tag(a, p)} -> {c1} {tag(b, p2)} + {c2} {tag(c, p)}', a, X)
    if rk == 'single': rx = r1
    elif rk == 'parallel': rx = tmo.ParallelReaction([r1, R(f'{tag(c, p)} -> {c2} {tag(b, p)}', c, X2)])
    elif rk == 'series': rx = tmo.SeriesReaction([r1, R(f'{tag(b, p2)} -> {c2} {tag(c, p2)}', b, X2)])
    else: rx = tmo.ReactionSystem(r1, tmo.ParallelReaction([R(f'{tag(b, p2)} -> {c2} {tag(c, p)}', b, X2), R(f'{tag(c, p)} -> {tag(b, p)}', c, 0.5 * X2)]))
    def model():
        """audit item 4: the same reaction(s) written down for the harness's own model (predict_negative), positions taken from rows_of(T) / T.chemicals"""
        col = T.chemicals.IDs.index
        row = (lambda q: T.phases.index(q)) if Tm else (lambda q: 0)
        K = lambda x, q: (row(q), col(x))
        m1 = (K(a, p), X, {K(a, p): -1., K(c, p): -50., K(b, p2): float(c1)}) if infeasible else (K(a, p), X, {K(a, p): -1., K(b, p2): float(c1), K(c, p): float(c2)})
        if rk == 'single': return [m1]
        if rk == 'parallel': return [[m1, (K(c, p), X2, {K(c, p): -1., K(b, p): float(c2)})]]
        if rk == 'series': return [m1, (K(b, p2), X2, {K(b, p2): -1., K(c, p2): float(c2)})]
        return [m1, [(K(b, p2), X2, {K(b, p2): -1., K(c, p): float(c2)}), (K(c, p), 0.5 * X2, {K(c, p): -1., K(b, p): 1.})]]
    defbasis = basis if made != 'copy' else ('mol' if basis == 'wt' else 'wt')
    material = getattr(T, st['view']) if target == 'array' else T
    label = f'{basis}/{"same-chemicals" if how == "same" else "other-chemicals"}/{target}'        # which other Chemicals object (permuted, clone, superset, subset) is in the reach counters and the witness
    if target == 'array': label += ':' + st['view']
    rec.hit('react'); rec.hit('react:' + basis); rec.hit('react:chems:' + how); rec.hit('react:kind:' + rk)
    if how != 'same':
        rec.hit('react:other-chemicals')
        if basis == 'wt' and target != 'array': rec.hit('react:wt-other-chemicals')
    if Tm: rec.hit('react:multi-phase')
    if target in ('phase-view', 'array', 'observer', 'partner'): rec.hit('react:' + target)
    if target == 'observer': rec.hit('react:observer:' + str(obs_kind))
    if linked: rec.hit('react:linked')
    if rk != 'single': rec.hit('react:set')
    if first: rec.hit('react:first')
    if form == 'query' and not (hasattr(rx, 'conversion') or (hasattr(rx, 'reactant_flux') and target != 'array')): form = 'call'
    if form != 'call': rec.hit('react:' + form)
    def apply(material):
        if form == 'force': rx.force_reaction(material)
        elif form == 'query' and hasattr(rx, 'conversion'): rx.conversion(material)         # read-only query: re-bases and restores like a reaction
        elif form == 'query': rx.reactant_flux(material, 0)
        else: rx(material)
    if (infeasible or how == 'subset') and target != 'array':
        # an input the library may refuse (conversion over 100% / the reaction's chemicals lack a chemical that flows): the refusal itself is counted, not judged.
        # What is judged is the state the refusal leaves behind: the stream still has to satisfy the view relations. It is offered to a copy of the target first so
        # that the history of the stream under test goes on undisturbed (a refusal that leaves negative flows behind is outside the quantifier and is not judged).
        # audit item 4: a refusal is granted only when the harness sees in the inputs that it is warranted: the chemical the reaction's chemicals lack (d) flows in the
        # target / the harness's own stoichiometric model leaves negative flows. A refusal the inputs do not warrant is raised on (reported as C11/react/exception/<type>@<site>).
        jd = T.chemicals.IDs.index(d)
        d_flows = how == 'subset' and any(r[jd] != 0 for _, r in rows_of(T))
        neg, near = predict_negative(T, model(), defbasis, basis) if (infeasible and not d_flows) else (0.0, False)
        probe = T.copy()
        try: apply(probe)
        except Exception as e:
            nm = type(e).__name__
            if nm == 'InfeasibleRegion' and infeasible and not d_flows:
                reason = 'infeasible'
                if neg > -1e-15 and not near:
                    rec.hit('react:unwarranted-refusal:infeasible'); raise        # the harness's model leaves no negative flow: nothing is converted over 100%
                if neg > -1e-9 or near: rec.hit('react:refused:infeasible:borderline')     # within rounding of the library's threshold (-1e-12): either answer is accepted
                else: rec.hit('react:refused:infeasible:warranted')
            elif nm.startswith('UndefinedChemical') and how == 'subset':
                reason = 'missing-chemical'
                if not d_flows:
                    rec.hit('react:unwarranted-refusal:missing-chemical'); raise    # every flowing chemical is defined in the reaction's chemicals
            else: raise
            rec.refuse('reaction refused: ' + reason); rec.hit('react:refused:' + reason)
            where = f'react-refused:{reason}/{basis}'
            if negative_left(probe): rec.refuse('refused reaction left negative flows behind: not judged'); return where, False
            width = {len(r) for _, r in rows_of(probe)}
            if width != {len(probe.chemicals.MW)}:
                rec.check(False, 'mass-view', f'shape/after-{where}', f'after a refused reaction ({reason}; reaction chemicals {chems.IDs}) the molar data of the stream has {sorted(width)} columns but its chemicals {probe.chemicals.IDs} has {len(probe.chemicals.MW)}')
                return where, False
            check_views(probe, rec, where)
            if reason == 'missing-chemical':
                # the refusal for a missing chemical comes before any change (documented in reset_chemicals): the same reaction offered to the real target (with its links,
                # observers and cached views) has to be refused the same way and leave the flows as they were; the views of all streams are judged after it by the caller
                before = [r.copy() for _, r in rows_of(T)]
                try: apply(material)
                except Exception as e2:
                    if not type(e2).__name__.startswith('UndefinedChemical'): raise
                else:
                    rec.hit('react:refused-on-copy-accepted-on-target')      # not judged: the copy and the target differ in nothing the reaction may look at
                after = [r for _, r in rows_of(T)]
                width = {len(r) for r in after}
                if width != {len(T.chemicals.MW)}:
                    rec.check(False, 'mass-view', f'shape/after-{where}', f'after a refused reaction ({reason}; reaction chemicals {chems.IDs}) the molar data of the target has {sorted(width)} columns but its chemicals {T.chemicals.IDs} has {len(T.chemicals.MW)}')
                    return where, True
                if not (len(before) == len(after) and all(np.array_equal(x, y) for x, y in zip(before, after))): rec.hit('react:refused:missing-chemical:target-flows-changed')   # counted, not a clause of this property
                rec.hit('react:refused:missing-chemical:on-target')
                if T is not s and T is not partner and T is not obs and not check_views(T, rec, where + '(target)'): return where, True
            return where, False
        if how == 'subset': rec.hit('react:accepted:subset')
        if infeasible: rec.hit('react:accepted:infeasible-flag')
        if infeasible and neg < -1e-9 and not near: rec.hit('react:model-negative-but-accepted')      # counted (validates the harness model from the other side), not a clause of this property
    apply(material)
    if how == 'subset' and target != 'array': rec.hit('react:applied:subset')        # the re-basing onto fewer chemicals and back was carried out on the real target
    where = 'react:' + label
    if st.get('post'):
        # a write through one view right after the reaction: it has to be seen by the other views
        W = T; post = st['post']; idx = getattr(W, post)
        key = (p, a) if Tm else a
        idx[key] = st['v']; back = idx[key]
        rec.check(abs(back - st['v']) <= 1e-12 * st['v'], 'round-trip', f'{post}/after-{where}', f'step {k}: after the reaction wrote {st["v"]} through {post}[{key}] and read back {back}')
        rec.hit('react:post-write')
    if T is not s and T is not partner and T is not obs and not check_views(T, rec, where + '(target)'): return where, True
    return where, False


def run_case(case, rec):
    rec.begin_case(case)
    start = case['start']
    locked6 = bool(start.get('locked'))
    if locked6: th = thermo_locked(IDS6); th2 = thermo_locked(PERM6); rec.hit('locked-chemical')
    else: th = thermo_of(IDS); th2 = thermo_of(PERM)
    CIDS = IDS6 if locked6 else IDS
    try:
        s = build_in_units(start, th, rec) if start.get('ctor') else build(start, th)
    except Exception as e:
        rec.exception('ctor', e, what=f'constructing the start stream {start} raised {type(e).__name__}: {str(e)[:150]}'); return
    partner = build(start, th, 1)
    linked = False; rlinked = False
    obs = None; obs_kind = None
    structural = 0; flowing2 = False
    if start.get('phase') == 's' or 's' in start.get('phases', ''): rec.hit('phase:solid')
    if start.get('react0'):
        # round 5: the reaction is the first thing that happens to the fresh stream
        try:
            where0, end = do_react(start['react0'], -1, s, partner, None, None, False, CIDS, th, th2, locked6, rec, first=True)
        except Exception as e:
            rec.exception('react', e, what=f'the first reaction {start["react0"]} raised {type(e).__name__}: {str(e)[:150]}'); return
        if end: return
        if not check_views(s, rec, where0.replace('react', 'react-first', 1)): return
    elif not check_views(s, rec, 'construction'): return
    for k, st in enumerate(case['steps']):
        t = st['t']
        multi = isinstance(s, tmo.MultiStream)
        kind = 'multi' if multi else 'single'
        ids = s.chemicals.IDs
        i = CIDS[st['i'] % len(CIDS)]
        i2 = CIDS[(st['i'] + 1) % len(CIDS)]
        ph = s.phases[st['k'] % len(s.phases)] if multi else None
        where = t
        if st.get('v') == 0 and t in ('imol', 'imass', 'ivol', 'set_flow', 'idx-units', 'arr', 'keyed', 'obs-write'): rec.hit('zero-write')
        if obs_kind == 'flow_proxy' and t in ('phases', 'copy_like', 'mix', 'collapse', 'data', 'temporary', 'reset_flow', 'copy_flow', 'package', 'link', 'unlink'):
            obs = None; obs_kind = None     # a flow proxy shares the data array but keeps its own phase set: a change of the phase set / data array on one side is the same exclusion as for links
        # audit item 2: 'undefined composition' is a documented refusal only for a total written to a stream that carries no flow; the harness looks at the molar data itself
        no_flow = t in ('F', 'set_total', 'F0', 'F-empty') and not any(r.any() for _, r in rows_of(s))
        try:
            if t in ('imol', 'imass', 'ivol'):
                idx = getattr(s, t)
                if t == 'ivol' and st['v'] == 0: pass
                if multi: idx[ph, i] = st['v']; back = idx[ph, i]
                else: idx[i] = st['v']; back = idx[i]
                rec.check(abs(back - st['v']) <= 1e-12 * st['v'], 'round-trip', f'{t}/{"multi" if multi else "single"}', f'step {k}: wrote {st["v"]} through {t}[{i}] and read back {back}')
            elif t == 'set_flow':
                name, f = FACT[st['units']]
                kk = st['key']
                if kk == 'phase' and not multi: kk = 'all'
                key = i if kk == 'one' else (... if kk in ('all', 'phase') else (i, i2))
                n = 1 if kk == 'one' else (len(ids) if kk in ('all', 'phase') else 2)
                data = st['v'] if n == 1 else [st['v'] * (m + 1) for m in range(n)]
                if multi:
                    if kk == 'all':
                        # added: a write without a phase key on a multi-phase stream is a documented refusal
                        try: s.set_flow(data, st['units'])
                        except IndexError as e:
                            if 'phase' not in str(e): raise
                            rec.refuse('multi-phase write without a phase key')
                        continue
                    mkey = ph if kk == 'phase' else (ph, key)
                    if kk == 'phase': rec.hit('key:phase-only')
                    s.set_flow(data, st['units'], mkey); back = s.get_flow(st['units'], mkey)
                else:
                    s.set_flow(data, st['units'], key); back = s.get_flow(st['units'], key)
                back = np.asarray(back.to_array() if hasattr(back, 'to_array') else back, float)
                r = relerr(back, data)
                rec.check(r <= 1e-12, 'round-trip', f'set_flow/{name}', f'step {k}: set_flow({data}, {st["units"]}) then get_flow gives {back.tolist()}', residual=r)
                # audit item 1: what was written in units, against the unit-less base data; the two conversion paths (Stream.get_flow / Indexer.get_data) against each other;
                # the total read in units against the unit-less total
                bkey = mkey if multi else key
                check_base(rec, s, name, bkey, data, st['units'], 'set_flow', f'step {k}: set_flow({data}, {st["units"]!r}, {bkey})')
                gd_args = ((ph,) if kk == 'phase' else (ph, key)) if multi else (key,)
                via_idx = dense(getattr(s, 'i' + name).get_data(st['units'], *gd_args))
                r = relerr(via_idx, back)
                rec.check(r <= 1e-12, 'unit-paths', f'get_flow-vs-Indexer.get_data/{name}/{st["units"]}', f'step {k}: get_flow({st["units"]!r}, {bkey}) = {back.tolist()} but i{name}.get_data({st["units"]!r}, {gd_args}) = {via_idx.tolist()}', residual=r)
                rec.hit('unit-paths')
                check_base_total(rec, s, name, s.get_total_flow(st['units']), st['units'], 'get_total_flow', f'step {k}: get_total_flow({st["units"]!r})', rtol=1e-12)
                # reading in another unit of the same dimension = value x fixed factor ratio
                name2, f2 = FACT[st['read']]
                if name2 == name:
                    other = s.get_flow(st['read'], mkey) if multi else s.get_flow(st['read'], key)
                    other = np.asarray(other.to_array() if hasattr(other, 'to_array') else other, float)
                    r = relerr(other, np.asarray(data, float) * (f2 / f))
                    rec.check(r <= 1e-12, 'unit-factor', f'{st["units"]}->{st["read"]}',
                              f'step {k}: {data} {st["units"]} read as {other.tolist()} {st["read"]} (expected factor {f2 / f})', residual=r)
                    tot = s.get_total_flow(st['read']); tot0 = s.get_total_flow(st['units'])
                    rec.check(abs(tot - tot0 * f2 / f) <= 1e-12 * abs(tot), 'unit-factor', f'total/{st["units"]}->{st["read"]}', f'step {k}: total {tot0} {st["units"]} = {tot} {st["read"]}', residual=relerr(tot, tot0 * f2 / f))
                if multi:
                    # added: get_flow(units, IDs) without a phase on a multi-phase stream is the sum over the phases
                    got = dense(s.get_flow(st['units'], key)); exp = sum(dense(s.get_flow(st['units'], (p, key))) for p in s.phases)
                    rec.check(np.allclose(got, exp, rtol=1e-12, atol=0), 'phase-summed-read', f'get_flow/{name}', f'step {k}: get_flow({st["units"]}, {key}) = {got.tolist()} but the phases add up to {np.asarray(exp).tolist()}')
                    rec.hit('key:id-only-read')
            elif t == 'F':
                if s.F_mol == 0: continue
                comp = np.array([r for _, r in rows_of(s)]); comp = comp / comp.sum()
                setattr(s, st['which'], st['v'])
                back = getattr(s, st['which'])
                rec.check(abs(back - st['v']) <= 1e-12 * st['v'], 'round-trip', st['which'], f'step {k}: set {st["which"]}={st["v"]} read back {back}', residual=relerr(back, st['v']))
                comp2 = np.array([r for _, r in rows_of(s)]); comp2 = comp2 / comp2.sum()
                rec.check(np.allclose(comp, comp2, rtol=1e-12, atol=1e-300), 'total-keeps-composition', st['which'], f'step {k}: setting {st["which"]} changed the composition')
            elif t == 'set_total':
                if s.F_mol == 0: continue
                comp = np.array([r for _, r in rows_of(s)]); comp = comp / comp.sum()
                s.set_total_flow(st['v'], st['units'])
                back = s.get_total_flow(st['units'])
                rec.check(abs(back - st['v']) <= 1e-12 * st['v'], 'round-trip', f'set_total_flow/{FACT[st["units"]][0]}', f'step {k}: set_total_flow({st["v"]}, {st["units"]}) read back {back}', residual=relerr(back, st['v']))
                check_base_total(rec, s, FACT[st['units']][0], st['v'], st['units'], 'set_total_flow', f'step {k}: set_total_flow({st["v"]}, {st["units"]!r})')
                comp2 = np.array([r for _, r in rows_of(s)]); comp2 = comp2 / comp2.sum()
                rec.check(np.allclose(comp, comp2, rtol=1e-12, atol=1e-300), 'total-keeps-composition', 'set_total_flow', f'step {k}: set_total_flow changed the composition')
            elif t == 'T': s.T = st['v']; structural += 1; rec.hit('after:T')
            elif t == 'P': s.P = st['v']; structural += 1
            elif t == 'phase':
                if multi: continue
                s.phase = st['v']; structural += 1; rec.hit('after:phase')
                if st['v'] == 's': rec.hit('phase:solid')
            elif t == 'phases':
                have = {p for p, r in rows_of(s) if r.any()}
                target = set(st['v']) | have
                if linked or rlinked: continue      # class-changing conversion on one side of a link belongs to C12/C13 exclusions
                s.phases = tuple(target); structural += 1; rec.hit('after:phases')
                if 's' in target: rec.hit('phase:solid')
            elif t == 'link':
                if type(partner) is not type(s) or (multi and partner.phases != s.phases) or partner.chemicals is not s.chemicals: continue
                s.link_with(partner, *st['flags']); linked = True; structural += 1; rec.hit('after:link')
            elif t == 'rlink':
                # added: the link in the other direction (the partner borrows the data of the stream under test)
                if type(partner) is not type(s) or (multi and partner.phases != s.phases) or partner.chemicals is not s.chemicals: continue
                partner.link_with(s, *st['flags']); rlinked = True; structural += 1; rec.hit('after:rlink')
            elif t == 'unlink':
                s.unlink(); linked = False; structural += 1; rec.hit('after:unlink')
                if rlinked: partner.unlink(); rlinked = False
            elif t == 'partner-write':
                pm = isinstance(partner, tmo.MultiStream)
                if pm: partner.imass[partner.phases[st['k'] % len(partner.phases)], i] = st['v']
                else: partner.imass[i] = st['v']
                partner.T = 300 + st['k'] / 3.
            elif t == 'copy_like':
                if linked or rlinked: continue
                s.copy_like(partner); structural += 1; rec.hit('after:copy_like')
            elif t == 'package':
                if linked or rlinked: continue
                s._reset_thermo(th2 if s._thermo is th else th); structural += 1; rec.hit('after:package')
                obs = None     # an observer sharing the indexer of a stream whose package is reset is outside the documented use
            elif t == 'scale': s.scale(st['v'] / 100.)
            elif t == 'mix':
                if linked or rlinked: continue
                s.mix_from([s, partner], energy_balance=False)
            elif t == 'baddim' and st.get('form', 'get_total_flow') != 'get_total_flow':
                form = st['form']; u = st['units']
                mk = (ph, i) if multi else (i,)
                if form == 'get_flow': call = lambda: s.get_flow(u, mk if multi else i)
                elif form == 'set_flow': call = lambda: s.set_flow(1.0, u, mk if multi else i)
                elif form == 'set_total_flow': call = lambda: s.set_total_flow(1.0, u)
                elif form == 'ctor':
                    if multi: call = lambda: tmo.MultiStream(None, l=[('Water', 1.0)], units=u, thermo=s._thermo)
                    else: call = lambda: tmo.Stream(None, Water=1.0, units=u, thermo=s._thermo)
                elif form == 'reset_flow':
                    c = s.copy()       # reset_flow empties before it converts: judged on a copy, only the rejection
                    if multi: call = lambda: c.reset_flow(units=u, l=[('Water', 1.0)])
                    else: call = lambda: c.reset_flow(units=u, Water=1.0)
                elif form in ('idx-get', 'view-get'): call = lambda: getattr(s, st['view']).get_data(u, *mk)
                elif form in ('idx-set', 'view-set'): call = lambda: getattr(s, st['view']).set_data(np.float64(1.0), u, *mk)
                else: raise ValueError(form)
                expect_rejected(rec, k, form, u, call, s)
                continue
            elif t == 'baddim':
                try:
                    s.get_total_flow(st['units'])
                    rec.check(False, 'dimension-rejected', st['units'], f'step {k}: get_total_flow({st["units"]!r}) was accepted')
                except DimensionError:
                    rec.ok('dimension-rejected')
                except Exception as e:
                    if 'dimension' in str(e).lower() or 'unit' in type(e).__name__.lower() or 'Undefined' in type(e).__name__: rec.ok('dimension-rejected'); rec.refuse(f'rejected through {type(e).__name__}')
                    else: raise
                if st['units'] in NEAR_MISS: rec.hit('baddim:near-miss')
                continue
            # ---------------- added steps
            elif t == 'idx-units':
                view = st['view']; idx = getattr(s, view); u, u2 = st['units'], st['read']; f = FACT[u][1]; f2 = FACT[u2][1]
                form = st['form']
                if form == 'one': args = (ph, i) if multi else (i,); data = np.float64(st['v'])
                elif form == 'tuple': args = (ph, (i, i2)) if multi else ((i, i2),); data = np.array([st['v'], 2 * st['v']])
                else:
                    args = ()
                    shape = (len(s.phases), len(ids)) if multi else (len(ids),)
                    data = np.array([st['v'] * (m % 3) for m in range(int(np.prod(shape)))], float).reshape(shape)
                idx.set_data(data, u, *args)
                back = dense(idx.get_data(u, *args)); other = dense(idx.get_data(u2, *args))
                r = relerr(back, data)
                rec.check(r <= 1e-12, 'round-trip', f'Indexer.set_data/{view}/{form}/{kind}',
                          f'step {k}: {view}.set_data({np.asarray(data).tolist()}, {u!r}, {args}) then get_data gives {back.tolist()}', residual=r)
                r = relerr(other, np.asarray(data) * (f2 / f))
                rec.check(r <= 1e-12, 'unit-factor', f'Indexer.get_data/{u}->{u2}',
                          f'step {k}: {np.asarray(data).tolist()} {u} read through {view}.get_data as {other.tolist()} {u2} (expected factor {f2 / f})', residual=r)
                # audit item 1: the unit-less base data behind the write in units; Stream.get_flow against Indexer.get_data
                dimv = view[1:]
                check_base(rec, s, dimv, None if form == 'whole' else (args if multi else args[0]), data, u, 'Indexer.set_data', f'step {k}: {view}.set_data({np.asarray(data).tolist()}, {u!r}, {args})')
                if form != 'whole':
                    via_s = dense(s.get_flow(u, args if multi else args[0]))
                    r = relerr(via_s, back)
                    rec.check(r <= 1e-12, 'unit-paths', f'Indexer.get_data-vs-get_flow/{dimv}/{u}', f'step {k}: {view}.get_data({u!r}, {args}) = {back.tolist()} but get_flow({u!r}, {args}) = {via_s.tolist()}', residual=r)
                    rec.hit('unit-paths')
                rec.hit('idx-units:' + form)
            elif t == 'arr':
                A = s[ph] if multi else s
                if multi: rec.hit('arr:phase-view')
                view = st['view']; form = st['form']
                j = A.chemicals.index(i)
                nA = len(A.chemicals.IDs)
                if form == 'from-view':
                    # the value written is itself the view vector of ANOTHER stream (other T / phase): what is written is that stream's flows in this view's unit
                    dphase = A.phase if not st.get('dph') else ('g' if A.phase == 'l' else 'l')
                    donor = tmo.Stream(None, phase=dphase, T=max(260., A.T + st.get('dT', 0.0)), P=A.P, thermo=A._thermo)
                    for m, cid in enumerate(A.chemicals.IDs[:5]):
                        if (m + st['k']) % 2: donor.imol[cid] = max(st['v'], 0.5) * (m + 1)
                    try:
                        data = dense(getattr(donor, view)).copy()
                        if st.get('how') == 'slice': getattr(A, view)[:] = getattr(donor, view)
                        elif st.get('how') == 'copy_like': getattr(A, view).copy_like(getattr(donor, view))
                        else: setattr(A, view, getattr(donor, view))
                    except Exception as e:
                        # audit item 3: 'the volume model is outside its domain' is granted only when the harness, evaluating the molar volume models of the chemicals that flow
                        # in the donor itself (at the donor's and at the target's phase, T, P), finds one that raises or is not a positive finite number; any other
                        # RuntimeError / ValueError of a volumetric write (shape, sparse conversion, ...) is reported
                        if isinstance(e, (RuntimeError, ValueError)) and view == 'vol' and not (vol_models_defined(donor, donor) and vol_models_defined(donor, A)):
                            rec.refuse('volumetric view of the donor / target not available (model domain)'); rec.hit('arr:from-view:refused:vol'); continue
                        raise
                    back = dense(getattr(A, view))
                    rr = relerr(back, data)
                    okrt = rr <= 1e-12
                    rec.hit('arr:from-view'); rec.hit('arr:from-view:' + view)
                    form = 'from-view/' + st.get('how', 'setter') + ('/other-phase' if st.get('dph') else '') + ('/other-T' if st.get('dT') else '')
                elif form == 'item':
                    getattr(A, view)[j] = st['v']; back = float(getattr(A, view)[j]); data = st['v']
                    okrt = abs(back - data) <= 1e-12 * data; rr = relerr(back, data)
                else:
                    data = np.array([st['v'] * (m + 1) if (m + st['k']) % 2 else 0.0 for m in range(nA)])
                    if form == 'slice': getattr(A, view)[:] = data
                    else: setattr(A, view, data)
                    back = dense(getattr(A, view))
                    rr = relerr(back, data)
                    okrt = rr <= 1e-12
                rec.check(okrt, 'round-trip', f'array-view/{view}/{form}/{"phase-view" if multi else "single"}', f'step {k}: wrote {np.asarray(data).tolist()} through stream.{view} ({form}) and read back {np.asarray(back).tolist()}', residual=rr)
                rec.hit('arr:' + form)
                if multi and not check_views(A, rec, f'{t}(phase-view)'): return
            elif t == 'keyed':
                view = st['view']; idx = getattr(s, view); form = st['form']
                if form == 'id-only' and multi:
                    try:
                        idx[i] = st['v']
                    except IndexError as e:
                        if 'phase' not in str(e): raise
                        rec.refuse('multi-phase write without a phase key')
                    got = dense(idx[i, i2]); exp = sum(dense(idx[p, (i, i2)]) for p in s.phases)
                    rec.check(np.allclose(got, exp, rtol=1e-12, atol=0), 'phase-summed-read', f'{view}', f'step {k}: {view}[{i}, {i2}] = {got.tolist()} but the phases add up to {np.asarray(exp).tolist()}')
                    one = float(idx[i]); exp1 = float(sum(idx[p, i] for p in s.phases))
                    rec.check(abs(one - exp1) <= 1e-12 * abs(exp1), 'phase-summed-read', f'{view}/one', f'step {k}: {view}[{i}] = {one} but the phases add up to {exp1}')
                    rec.hit('key:id-only-read')
                else:
                    if form == 'phase' and not multi: form = 'ellipsis'
                    if form == 'id-only': form = 'tuple'
                    if form == 'tuple': key = (ph, (i, i2)) if multi else (i, i2); data = np.array([st['v'], 2 * st['v']])
                    elif form == 'ellipsis': key = (ph, ...) if multi else ...; data = np.array([st['v'] * ((m + st['k']) % 3) for m in range(len(ids))], float)
                    else: key = ph; data = np.array([st['v'] * ((m + st['k']) % 3) for m in range(len(ids))], float)
                    idx[key] = data
                    back = dense(idx[key])
                    rec.check(back.shape == data.shape and np.allclose(back, data, rtol=1e-12, atol=0), 'round-trip', f'{view}/key-{form}/{kind}', f'step {k}: wrote {data.tolist()} through {view}[{key}] and read back {back.tolist()}')
                    rec.hit({'tuple': 'key:tuple', 'ellipsis': 'key:ellipsis', 'phase': 'key:phase-only'}[form])
            elif t == 'F0':
                which = st['which']
                if which == 'set_total': s.set_total_flow(0.0, st['units']); back = s.get_total_flow(st['units'])
                else: setattr(s, which, 0.0); back = getattr(s, which)
                left = [v for _, r in rows_of(s) for v in r if v]
                rec.check(back == 0 and not left, 'round-trip', f'{which}/zero', f'step {k}: total set to 0 through {which} reads back {back} and leaves flows {left}')
                rec.hit('total:zero')
            elif t == 'F-empty':
                s.empty()
                if not check_views(s, rec, 'empty'): return
                rec.hit('total:on-empty')
                no_flow = not any(r.any() for _, r in rows_of(s))       # seen by the harness in the molar data (not through isempty / F_mol)
                if not no_flow: rec.hit('empty:flows-left')      # counted (what empty() does is not a clause of this property): a refusal of the total below is then not granted
                which = st['which']
                # a positive total on an empty stream has no composition to scale: documented refusal (AttributeError 'undefined composition', counted below)
                if which == 'set_total': s.set_total_flow(st['v'], st['units'])
                else: setattr(s, which, st['v'])
            elif t == 'collapse':
                if not multi or linked or rlinked: continue
                form = st['form']
                if form == 'phase=': s.phase = st['p']
                elif form == 'phases=1': s.phases = (st['p'],)
                elif form == 'as_stream':
                    try: s.as_stream()
                    except RuntimeError as e:
                        if 'multiple phases' not in str(e): raise
                        rec.refuse('as_stream with several phases present'); continue
                else: s.reduce_phases()
                structural += 1
                if not isinstance(s, tmo.MultiStream): rec.hit('after:collapse')
                where = f'collapse:{form}'
            elif t == 'observer':
                okind = st['kind']
                if okind == 'view' and not multi: okind = 'proxy'
                if okind == 'proxy': obs = s.proxy()
                elif okind == 'flow_proxy': obs = s.flow_proxy()
                elif okind == 'copy': obs = s.copy()
                elif okind == 'copy-thermo': obs = s.copy(thermo=th2 if s._thermo is th else th)      # round 5: a copy re-based onto the other property package
                else: obs = s[ph]
                obs_kind = okind
                rec.hit('observer:' + okind)
            elif t == 'obs-write':
                if obs is None: continue
                view = st['view']; idx = getattr(obs, view)
                if isinstance(obs, tmo.MultiStream):
                    op = obs.phases[st['k'] % len(obs.phases)]
                    idx[op, i] = st['v']; back = idx[op, i]
                else: idx[i] = st['v']; back = idx[i]
                rec.check(abs(back - st['v']) <= 1e-12 * st['v'], 'round-trip', f'{view}/observer:{obs_kind}', f'step {k}: wrote {st["v"]} through {obs_kind}.{view}[{i}] and read back {back}')
                rec.hit('observer-write')
            elif t == 'copy_flow':
                if linked or rlinked: continue
                form = st['form']
                if multi:
                    # MultiStream.copy_flow indexes the other stream by this stream's phases: only offered sources whose phases it holds
                    pm = isinstance(partner, tmo.MultiStream)
                    if (pm and partner.phases != s.phases) or (not pm and partner.phase not in s.phases): continue
                try:
                    if form == 'all': s.copy_flow(partner)
                    elif form == 'one': s.copy_flow(partner, IDs=i)
                    else: s.copy_flow(partner, IDs=i, exclude=True)
                except ValueError as e:
                    if 'same chemicals' not in str(e): raise
                    rec.refuse('copy_flow between property packages (multi-phase)'); continue
                rec.hit('after:copy_flow')
            elif t == 'data':
                if linked or rlinked: continue
                d = s.get_data()
                s.T = s.T + 7.
                if multi: s.imass[ph, i] = st['v']
                else: s.imass[i] = st['v']
                if not check_views(s, rec, 'get_data'): return
                s.set_data(d)
                structural += 1; rec.hit('after:set_data'); where = 'set_data'
            elif t == 'temporary':
                if linked or rlinked: continue
                with s.temporary(T=st['T']):
                    if not check_views(s, rec, 'temporary(inside)'): return
                structural += 1; rec.hit('after:temporary')
            elif t == 'tmp-phase':
                if multi: continue
                with s.temporary_phase(st['p']):
                    rec.check(s.phase == st['p'], 'views', 'temporary_phase/phase', f'step {k}: inside temporary_phase({st["p"]!r}) the phase is {s.phase!r}')
                    if not check_views(s, rec, 'temporary_phase(inside)'): return
                structural += 1; rec.hit('after:temporary_phase')
            elif t == 'reset_flow':
                if linked or rlinked: continue
                u = st['units']; dim = FACT[u][0]
                if i2 == i: continue
                tot = 3.5 * st['v'] if st['total'] else None
                if multi:
                    s.reset_flow(units=u, total_flow=tot, **{ph: [(i, st['v']), (i2, 2 * st['v'])]})
                    back = dense(s.get_flow(u, (ph, (i, i2))))
                else:
                    kw = {'phase': st['p']} if st['p'] else {}
                    s.reset_flow(units=u, total_flow=tot, **kw, **{i: st['v'], i2: 2 * st['v']})
                    back = dense(s.get_flow(u, (i, i2)))
                exp = np.array([st['v'], 2 * st['v']]) * (1.0 if tot is None else tot / (3 * st['v']))
                r = relerr(back, exp)
                rec.check(r <= 1e-12, 'round-trip', f'reset_flow{"-total" if tot else ""}/{dim}/{kind}', f'step {k}: reset_flow(units={u!r}, total_flow={tot}, {i}={st["v"]}, {i2}={2 * st["v"]}) reads back {back.tolist()} {u}, expected {exp.tolist()}', residual=r)
                # audit item 1: the unit-less base data behind reset_flow(units=...)
                rkey = (ph, (i, i2)) if multi else (i, i2)
                fb = FACT[u][1]
                got = dense(getattr(s, 'i' + dim)[rkey]); r = relerr(got, exp / fb)
                rec.check(r <= 1e-12, 'unit-base', f'reset_flow{"-total" if tot else ""}/{dim}/{u}', f'step {k}: reset_flow(units={u!r}, total_flow={tot}, {i}={st["v"]}, {i2}={2 * st["v"]}): the base data i{dim}[{rkey}] (no units) is {got.tolist()}, expected {(exp / fb).tolist()} '
                          f'(harness factor {fb} {u} per base unit)', residual=r)
                rec.hit('unit-base:reset_flow')
                if tot is not None:
                    bt = s.get_total_flow(u)
                    rec.check(abs(bt - tot) <= 1e-12 * tot, 'round-trip', f'reset_flow-total/{dim}/{kind}/total', f'step {k}: reset_flow(total_flow={tot}, units={u!r}) has total {bt} {u}', residual=relerr(bt, tot))
                    check_base_total(rec, s, dim, tot, u, 'reset_flow-total', f'step {k}: reset_flow(total_flow={tot}, units={u!r})')
                structural += 1; rec.hit('after:reset_flow')
            elif t == 'react':
                where, end = do_react(st, k, s, partner, obs, obs_kind, linked or rlinked, CIDS, th, th2, locked6, rec)
                if end: return
                structural += 1
        except AttributeError as e:
            if 'undefined composition' in str(e):
                # audit item 2: granted only where the harness saw a stream without any flow before a total was written (steps F-empty / F0 on an empty stream); on a stream
                # that carries flow the total has a composition to scale and the write must be carried out. The views are judged after the refused write all the same.
                wh = st.get('which') or FACT.get(st.get('units'), ('?',))[0]
                if not no_flow:
                    rec.check(False, 'round-trip', f'undefined-composition-on-stream-with-flow/{t}/{wh}', f'step {k} {st}: writing a total on a stream that carries flow {[r.tolist() for _, r in rows_of(s)]} '
                              f'was refused with AttributeError: {str(e)[:150]}')
                    return
                rec.refuse('undefined composition'); rec.hit('refused:undefined-composition:' + t)
            else:
                rec.exception(t, e, what=f'step {k} {st} raised AttributeError: {str(e)[:150]}'); return
        except Exception as e:
            rec.exception(t, e, what=f'step {k} {st} raised {type(e).__name__}: {str(e)[:150]}'); return
        if isinstance(s, tmo.MultiStream): rec.hit('multi-phase')
        if not check_views(s, rec, where): return
        lab = where if t == 'react' else t        # round 5: a reaction step names its mechanism (basis / chemicals relation / target, or the refusal) in the keys of all streams checked after it
        if not check_views(partner, rec, f'{lab}(partner)'): return
        if obs is not None and not check_views(obs, rec, f'{lab}(observer:{obs_kind})'): return
        e = stream_invariant(s)
        if e: rec.check(False, 'invariant', t, f'step {k}: {e}'); return
        if sum(1 for _, r in rows_of(s) for v in r if v) >= 2: flowing2 = True
    if structural >= 1 and flowing2: rec.mark_nontrivial(case_hash(case))


def replay(case, rec):
    run_case(case, rec)


def run(rec, rng, tier, shard, nshards):
    n = 700 if tier == 'quick' else 10000
    for i in range(n):
        case = gen_case(rng)
        try:
            run_case(case, rec)
        except Exception as e:
            rec.exception('harness', e, what=f'harness error: {type(e).__name__}: {e}')
        if i % 101 == 0: rec.sample({'start': case['start'], 'steps': case['steps'][:6], 'n_steps': len(case['steps'])})
