"""C01 — mixing, splitting, separating, moving and scaling streams conserve every chemical.

Monitor: a dense CAS-keyed ledger of every participating stream is taken before and after the real call
(mix_from / split_to / separate_out / copy_flow(remove=True) / scale / Stream.sum) and compared with the
DenseFlows model; sparse-representation invariants are asserted on every stream touched.
"""
import numpy as np
import thermosteam as tmo
from vt.core import case_hash
from vt.common import (thermo_of, build_stream, ledger, phase_ledger, ledger_add, ledger_diff,
                       stream_invariant, describe)

PID = 'C01'
RULE = ('random cases over operations mix_from (0-4 inlets, Stream/MultiStream inlets and receivers, receiver among the inlets once/twice, duplicates, '
        'foreign property packages listing subsets in other orders, all-zero inlets, stale receiver content), split_to (scalar / per-chemical split incl. exact 0 and 1, '
        'fresh/stale/foreign-package outlets, multi-phase feeds), separate_out, copy_flow(remove=True) with IDs/exclude forms, scale/rescale/*, Stream.sum; '
        'flows from {0, exact repeats, 10^U(-3,3)}. non-trivial = >=2 non-empty inlets or a split strictly inside (0,1) or a partial move, with >=2 chemicals flowing; '
        'distinct = hash of the serialised case')
MIN_NONTRIVIAL = {'quick': 500, 'thorough': 20000}
ASSUMPTIONS = ['receiver package lists every chemical of the inlets (the quantifier of C01)',
               'energy balance is switched on only for liquid/gas streams at 280-400 K (energy itself is C02)',
               'multi-phase split_to outlets hold stale content only in phases of the feed']

PKGS = [
    ('Water', 'Ethanol', 'Methanol', 'Glycerol', 'Octane', 'CO2'),
    ('Ethanol', 'Water'),
    ('CO2', 'Octane', 'Methanol'),
    ('Glycerol', 'Water', 'Octane', 'Ethanol'),
    ('Methanol',),
    ('Octane', 'CO2', 'Water', 'Methanol', 'Ethanol', 'Glycerol'),
]
FULL = (0, 5)
PHASES = 'slgSL'


def required(tier):
    return ['mix', 'split', 'separate', 'move', 'scale', 'sum', 'mix:multi-receiver', 'mix:foreign-package', 'mix:receiver-among-inlets',
            'split:multi-phase', 'split:foreign-outlet', 'move:multi-phase']


UNDEF = (tmo.exceptions.UndefinedPhase, tmo.exceptions.UndefinedChemicalAlias) if hasattr(tmo, 'exceptions') else ()

# ---------------------------------------------------------------------------
# generators

def gflow(rng, rep):
    r = rng.random()
    if r < 0.3: return 0.0
    if r < 0.45: return rep
    return round(10 ** rng.uniform(-3, 3), rng.choice([2, 6, 12]))


def gen_stream(rng, pkg=None, kind=None, rep=1.5, empty_p=0.08, phases_from=PHASES, thermal=False):
    pkg = rng.randrange(len(PKGS)) if pkg is None else pkg
    n = len(PKGS[pkg])
    kind = kind or rng.choice('SSM')
    allzero = rng.random() < empty_p
    T = rng.uniform(290, 380) if thermal else 298.15
    P = rng.choice([101325., 2e5, 5e4]) if thermal else 101325.
    if kind == 'S':
        return {'kind': 'S', 'pkg': pkg, 'phase': rng.choice(phases_from), 'T': T, 'P': P,
                'flows': [0.0] * n if allzero else [gflow(rng, rep) for _ in range(n)]}
    k = rng.randrange(2, min(4, len(phases_from)) + 1) if len(phases_from) >= 2 else 1
    phs = rng.sample(list(phases_from), k)
    flows = {}
    for ph in phs:
        flows[ph] = [0.0] * n if (allzero or rng.random() < 0.3) else [gflow(rng, rep) for _ in range(n)]
    return {'kind': 'M', 'pkg': pkg, 'phases': ''.join(phs), 'T': T, 'P': P, 'flows': flows}


def gen_mix(rng):
    eb = rng.random() < 0.25
    phases_from = 'lg' if eb else PHASES
    recv = gen_stream(rng, pkg=rng.choice(FULL), rep=2.5, phases_from=phases_from, thermal=eb)
    n = rng.choice([0, 1, 1, 2, 2, 2, 3, 3, 4])
    inlets = []
    for _ in range(n):
        r = rng.random()
        if r < 0.15: inlets.append('R')
        elif r < 0.22 and inlets and any(i != 'R' for i in inlets): inlets.append({'dup': rng.choice([k for k, i in enumerate(inlets) if i != 'R'])})
        else:
            pkg = recv['pkg'] if rng.random() < 0.5 else None
            inlets.append(gen_stream(rng, pkg=pkg, rep=2.5, phases_from=phases_from, thermal=eb))
    return {'t': 'mix', 'recv': recv, 'inlets': inlets, 'eb': eb}


def gen_split(rng):
    multi = rng.random() < 0.35
    eb = rng.random() < 0.5
    pkg = rng.randrange(len(PKGS))
    feed = gen_stream(rng, pkg=pkg, kind='M' if multi else 'S', empty_p=0.05)
    n = len(PKGS[pkg])
    r = rng.random()
    if r < 0.3: split = rng.choice([0.0, 1.0, 0.5, round(rng.random(), 3)])
    else: split = [rng.choice([0.0, 1.0, 0.25, round(rng.random(), 6)]) for _ in range(n)]
    outs = []
    for _ in range(2):
        r = rng.random()
        if multi:
            # outlets: fresh Stream, fresh MultiStream with the feed's phases, or stale content in the feed's phases
            if r < 0.4: o = {'kind': 'S', 'pkg': pkg, 'phase': 'l', 'flows': [0.0] * n}
            else:
                o = {'kind': 'M', 'pkg': pkg, 'phases': feed['phases'], 'flows': {ph: ([gflow(rng, 1.5) for _ in range(n)] if r > 0.7 else [0.0] * n) for ph in feed['phases']}}
        else:
            if r < 0.4: o = {'kind': 'S', 'pkg': pkg, 'phase': rng.choice(PHASES), 'flows': [0.0] * n}
            elif r < 0.7: o = gen_stream(rng, pkg=pkg, kind='S')                    # stale content
            else:
                # foreign package that lists every chemical of the feed
                cands = [k for k in range(len(PKGS)) if set(PKGS[pkg]) <= set(PKGS[k]) and k != pkg]
                if cands: o = gen_stream(rng, pkg=rng.choice(cands), kind='S')
                else: o = gen_stream(rng, pkg=pkg, kind='S')
        outs.append(o)
    return {'t': 'split', 'feed': feed, 's1': outs[0], 's2': outs[1], 'split': split, 'eb': eb}


def gen_separate(rng):
    pkg = rng.choice(FULL)
    a = gen_stream(rng, pkg=pkg, kind='S', empty_p=0.05)
    b = gen_stream(rng, pkg=pkg if rng.random() < 0.5 else None, kind=rng.choice('SSM'), empty_p=0.1)
    return {'t': 'sep', 'a': a, 'b': b}


def gen_move(rng):
    multi = rng.random() < 0.4
    pkg = rng.randrange(len(PKGS))
    ids = PKGS[pkg]
    if multi:
        phs = ''.join(rng.sample(list(PHASES), rng.randrange(2, 4)))
        n = len(ids)
        def ms(stale):
            return {'kind': 'M', 'pkg': pkg, 'phases': phs, 'flows': {ph: ([gflow(rng, 1.5) for _ in range(n)] if stale else [0.0] * n) for ph in phs}}
        src = ms(True)
        if rng.random() < 0.3: src = {'kind': 'S', 'pkg': pkg, 'phase': rng.choice(phs), 'flows': [gflow(rng, 1.5) for _ in range(n)]}
        dst = ms(rng.random() < 0.5)
        phase = rng.choice([None, None, rng.choice(phs)])
    else:
        src = gen_stream(rng, pkg=pkg, kind=rng.choice('SSSM'), empty_p=0.05)
        cands = [k for k in range(len(PKGS)) if set(ids) <= set(PKGS[k])]
        dst = gen_stream(rng, pkg=rng.choice(cands) if rng.random() < 0.4 else pkg, kind='S')
        phase = None
    r = rng.random()
    if r < 0.4: IDs = None
    elif r < 0.6: IDs = rng.choice(ids)
    else: IDs = rng.sample(list(ids), rng.randrange(1, len(ids) + 1))
    exclude = IDs is not None and rng.random() < 0.3
    return {'t': 'move', 'src': src, 'dst': dst, 'IDs': IDs, 'exclude': exclude, 'phase': phase}


def gen_scale(rng):
    s = gen_stream(rng, empty_p=0.05)
    return {'t': 'scale', 's': s, 'k': rng.choice([0.0, 1.0, 2.0, 0.5, round(10 ** rng.uniform(-3, 3), 6)]), 'how': rng.choice(['scale', 'rescale', 'mul', 'rmul', 'imul', 'truediv'])}


def gen_sum(rng):
    pkg = rng.choice(FULL)
    n = rng.randrange(1, 4)
    return {'t': 'sum', 'pkg': pkg, 'streams': [gen_stream(rng, pkg=pkg if rng.random() < 0.6 else None, kind='S', phases_from='l') for _ in range(n)]}

# ---------------------------------------------------------------------------
# executors

def nflowing(l):
    return sum(1 for v in l.values() if v)


def check_inv(rec, streams, where):
    for s in streams:
        e = stream_invariant(s)
        rec.check(e is None, 'invariant', where, f'sparse invariant broken after {where}: {e}')


def run_mix(case, rec):
    recv = build_stream(case['recv'], PKGS)
    objs = []
    for d in case['inlets']:
        if d == 'R': objs.append(recv)
        elif 'dup' in d: objs.append(objs[d['dup']])
        else: objs.append(build_stream(d, PKGS))
    before = [ledger(o) for o in objs]
    expected = ledger_add(*before) if objs else {}
    foreign = any(o.chemicals is not recv.chemicals for o in objs)
    multi_recv = isinstance(recv, tmo.MultiStream)
    n_among = sum(1 for o in objs if o is recv)
    tag = ('multi' if multi_recv else 'single') + '-receiver/' + ('foreign' if foreign else 'same') + '-package'
    try:
        recv.mix_from(objs, energy_balance=case['eb'])
    except Exception as e:
        rec.exception('mix', e, what=f'mix_from({len(objs)} inlets, {tag}, energy_balance={case["eb"]}) raised {type(e).__name__}: {str(e)[:150]}')
        return
    got = ledger(recv)
    bad, worst = ledger_diff(got, expected, rel=1e-12)
    n_nonempty = sum(1 for b in before if b)
    mech = tag + ('/receiver-among-inlets' if n_among else '') + ('/single-nonempty-inlet' if n_nonempty == 1 else '')
    rec.check(not bad, 'mix', f'sum/{mech}', f'mix_from: per-chemical totals differ from the sum of the inlets: {bad[:4]}', residual=worst,
              detail={'expected': expected, 'got': got})
    for o, b in zip(objs, before):
        if o is recv: continue
        bb, _ = ledger_diff(ledger(o), b, rel=0)
        rec.check(not bb, 'mix', f'inlet-changed/{tag}', f'mix_from changed an inlet: {bb[:3]}')
    check_inv(rec, [recv] + objs, 'mix')
    if multi_recv: rec.hit('mix:multi-receiver')
    if foreign: rec.hit('mix:foreign-package')
    if n_among: rec.hit('mix:receiver-among-inlets')
    if n_nonempty >= 2 and nflowing(expected) >= 2: rec.mark_nontrivial(case_hash(case))


def run_split(case, rec):
    feed = build_stream(case['feed'], PKGS); s1 = build_stream(case['s1'], PKGS); s2 = build_stream(case['s2'], PKGS)
    split = case['split']
    ids = feed.chemicals.IDs; cas = feed.chemicals.CASs
    sp_arr = np.array(split, dtype=float) if isinstance(split, list) else split
    fb = phase_ledger(feed)
    multi = isinstance(feed, tmo.MultiStream)
    foreign = s1.chemicals is not feed.chemicals or s2.chemicals is not feed.chemicals
    tag = ('multi-phase' if multi else 'single-phase') + ('/foreign-outlet' if foreign else '')
    try:
        feed.split_to(s1, s2, sp_arr, energy_balance=case['eb'])
    except Exception as e:
        if foreign and not any(fb.values()):
            rec.refuse('split of an empty feed into a foreign-package outlet');
        rec.exception('split', e, what=f'split_to({tag}, energy_balance={case["eb"]}) raised {type(e).__name__}: {str(e)[:150]}')
        return
    # expected per (phase, CAS); single-phase outlets carry the phase-summed values
    def sp_of(c):
        return split[cas.index(c)] if isinstance(split, list) else split
    e1 = {}; e2 = {}
    for (ph, c), v in fb.items():
        a = v * sp_of(c)
        e1[(ph, c)] = a; e2[(ph, c)] = v - a
    def collapse(l):
        out = {}
        for (ph, c), v in l.items(): out[c] = out.get(c, 0.0) + v
        return out
    for name, s, e in (('s1', s1, e1), ('s2', s2, e2)):
        if isinstance(s, tmo.MultiStream) and multi:
            got = phase_ledger(s); exp = e
        else:
            got = ledger(s); exp = collapse(e)
        bad, worst = ledger_diff(got, exp, rel=1e-12, abs_=0.0)
        rec.check(not bad, 'split', f'{name}/{tag}', f'split_to: {name} differs from {"split*feed" if name == "s1" else "feed-split*feed"}: {bad[:4]}', residual=worst,
                  detail={'expected': {str(k): v for k, v in exp.items()}, 'got': {str(k): v for k, v in got.items()}})
    bb, _ = ledger_diff({str(k): v for k, v in phase_ledger(feed).items()}, {str(k): v for k, v in fb.items()}, rel=0)
    rec.check(not bb, 'split', f'feed-changed/{tag}', f'split_to changed the feed: {bb[:3]}')
    check_inv(rec, [feed, s1, s2], 'split')
    if multi: rec.hit('split:multi-phase')
    if foreign: rec.hit('split:foreign-outlet')
    inside = (isinstance(split, list) and any(0 < x < 1 for x in split)) or (not isinstance(split, list) and 0 < split < 1)
    if inside and nflowing(collapse(fb)) >= 2: rec.mark_nontrivial(case_hash(case))


def run_separate(case, rec):
    a = build_stream(case['a'], PKGS); b = build_stream(case['b'], PKGS)
    la, lb = ledger(a), ledger(b)
    total = ledger_add(la, lb)
    m = build_stream(case['a'], PKGS)
    idx = {c: i for i, c in enumerate(m.chemicals.CASs)}
    for c, v in total.items():
        m.imol.data[idx[c]] = v
    foreign = b.chemicals is not m.chemicals
    tag = ('multi-phase-other' if isinstance(b, tmo.MultiStream) else 'single-phase-other') + ('/foreign' if foreign else '/same') + '-package'
    try:
        m.separate_out(b, energy_balance=False)
    except Exception as e:
        rec.exception('separate', e, what=f'separate_out({tag}) raised {type(e).__name__}: {str(e)[:150]}'); return
    got = ledger(m)
    scale = max([abs(v) for v in total.values()] + [0.0])
    bad, worst = ledger_diff(got, la, rel=0.0, abs_=1e-9 * scale)
    rec.check(not bad, 'separate', f'remainder/{tag}', f'(a+b).separate_out(b) != a: {bad[:4]}', residual=(max([abs(got.get(k, 0) - la.get(k, 0)) for k in set(got) | set(la)] + [0]) / scale if scale else 0),
              detail={'a': la, 'b': lb, 'got': got})
    bb, _ = ledger_diff(ledger(b), lb, rel=0)
    rec.check(not bb, 'separate', f'other-changed/{tag}', 'separate_out changed the stream that was separated out')
    check_inv(rec, [m, b], 'separate')
    if la and lb and nflowing(total) >= 2: rec.mark_nontrivial(case_hash(case))


def run_move(case, rec):
    src = build_stream(case['src'], PKGS); dst = build_stream(case['dst'], PKGS)
    IDs = case['IDs']; exclude = case['exclude']; phase = case['phase']
    multi_dst = isinstance(dst, tmo.MultiStream)
    sb, db = phase_ledger(src), phase_ledger(dst)
    kw = {'remove': True}
    if exclude: kw['exclude'] = True
    ids_arg = ... if IDs is None else (IDs if isinstance(IDs, str) else tuple(IDs))
    tag = ('multi' if multi_dst else 'single') + '-dest/' + ('multi' if isinstance(src, tmo.MultiStream) else 'single') + '-source/' + \
          ('all' if IDs is None else ('exclude' if exclude else 'IDs')) + ('/phase' if phase else '') + ('/foreign' if dst.chemicals is not src.chemicals else '')
    try:
        if multi_dst:
            dst.copy_flow(src, ... if phase is None else phase, ids_arg, **kw)
        else:
            dst.copy_flow(src, ids_arg, **kw)
    except Exception as e:
        rec.exception('move', e, what=f'copy_flow({tag}) raised {type(e).__name__}: {str(e)[:150]}'); return
    sa, da = phase_ledger(src), phase_ledger(dst)
    cas_of = {i: c for i, c in zip(src.chemicals.IDs, src.chemicals.CASs)}
    all_cas = set(src.chemicals.CASs)
    named = all_cas if IDs is None else {cas_of[i] for i in ([IDs] if isinstance(IDs, str) else IDs)}
    def tot(l, c, ph=None):
        return sum(v for (p, cc), v in l.items() if cc == c and (ph is None or p == ph))
    problems = []
    src_phases = set(src.phases) if isinstance(src, tmo.MultiStream) else {src.phase}
    moved_cas = (all_cas - named) if exclude else named
    for c in all_cas | set(dst.chemicals.CASs):
        if multi_dst:
            # judged phase by phase.  selection = (phase or all) x named; exclude moves the complement of the selection
            for ph in set(dst.phases) | src_phases:
                selected = (phase is None or ph == phase) and c in named
                moved = (not selected) if exclude else selected
                s0, s1_, d0, d1 = tot(sb, c, ph), tot(sa, c, ph), tot(db, c, ph), tot(da, c, ph)
                if moved and ph in src_phases and c in all_cas:
                    if not (d1 == s0 and s1_ == 0): problems.append(('moved-entry', ph, c, s0, s1_, d0, d1))
                else:
                    if s1_ != s0: problems.append(('source-untouched-entry-changed', ph, c, s0, s1_, d0, d1))
        else:
            s0, s1_, d0, d1 = tot(sb, c), tot(sa, c), tot(db, c), tot(da, c)
            if c in moved_cas:
                if not (abs(d1 - s0) <= 1e-12 * abs(s0) and s1_ == 0): problems.append(('moved-entry', c, s0, s1_, d0, d1))
            else:
                if s1_ != s0: problems.append(('source-untouched-entry-changed', c, s0, s1_, d0, d1))
    rec.check(not problems, 'move', f'{tag}', f'copy_flow(remove=True): material duplicated or lost: {problems[:4]}',
              detail={'src_before': {str(k): v for k, v in sb.items()}, 'dst_before': {str(k): v for k, v in db.items()},
                      'src_after': {str(k): v for k, v in sa.items()}, 'dst_after': {str(k): v for k, v in da.items()}})
    check_inv(rec, [src, dst], 'move')
    if multi_dst or isinstance(src, tmo.MultiStream): rec.hit('move:multi-phase')
    if len([c for c in moved_cas if tot(sb, c)]) >= 1 and nflowing({c: tot(sb, c) for c in all_cas}) >= 2: rec.mark_nontrivial(case_hash(case))


def run_scale(case, rec):
    s = build_stream(case['s'], PKGS); k = case['k']; how = case['how']
    b = phase_ledger(s)
    try:
        if how == 'scale': s.scale(k); r = s
        elif how == 'rescale': s.rescale(k); r = s
        elif how == 'mul': r = s * k
        elif how == 'rmul': r = k * s
        elif how == 'imul': s *= k; r = s
        else:
            if k == 0: rec.refuse('division by zero'); return
            r = s / k
    except Exception as e:
        rec.exception('scale', e, what=f'{how}({k}) raised {type(e).__name__}: {str(e)[:150]}'); return
    exp = {kk: (v / k if how == 'truediv' else v * k) for kk, v in b.items()}
    exp = {kk: v for kk, v in exp.items() if v}
    got = phase_ledger(r)
    bad, worst = ledger_diff({str(a): v for a, v in got.items()}, {str(a): v for a, v in exp.items()}, rel=1e-15)
    rec.check(not bad, 'scale', f'{how}/{"multi" if isinstance(s, tmo.MultiStream) else "single"}', f'{how} by {k}: flows are not k times the original: {bad[:4]}', residual=worst)
    if r is not s:
        bb, _ = ledger_diff({str(a): v for a, v in phase_ledger(s).items()}, {str(a): v for a, v in b.items()}, rel=0)
        rec.check(not bb, 'scale', f'{how}/operand-changed', f'{how} changed its operand')
    check_inv(rec, [s, r], 'scale')
    if k not in (0.0, 1.0) and len(b) >= 2: rec.mark_nontrivial(case_hash(case))


def run_sum(case, rec):
    streams = [build_stream(d, PKGS) for d in case['streams']]
    before = [ledger(s) for s in streams]
    try:
        new = tmo.Stream.sum(streams, None, thermo_of(PKGS[case['pkg']]), energy_balance=False)
    except Exception as e:
        rec.exception('sum', e, what=f'Stream.sum raised {type(e).__name__}: {str(e)[:150]}'); return
    bad, worst = ledger_diff(ledger(new), ledger_add(*before), rel=1e-12)
    foreign = any(s.chemicals is not new.chemicals for s in streams)
    rec.check(not bad, 'sum', 'foreign-package' if foreign else 'same-package', f'Stream.sum differs from the sum of the streams: {bad[:4]}', residual=worst)
    check_inv(rec, [new] + streams, 'sum')
    if sum(1 for b in before if b) >= 2: rec.mark_nontrivial(case_hash(case))


RUNNERS = {'mix': run_mix, 'split': run_split, 'sep': run_separate, 'move': run_move, 'scale': run_scale, 'sum': run_sum}
GENS = [(gen_mix, 0.4), (gen_split, 0.2), (gen_separate, 0.1), (gen_move, 0.17), (gen_scale, 0.07), (gen_sum, 0.06)]


def run_case(case, rec):
    rec.begin_case(case)
    try:
        RUNNERS[case['t']](case, rec)
    except Exception as e:
        rec.exception('harness', e, what=f'harness error in case type {case["t"]}: {type(e).__name__}: {e}')


def replay(case, rec):
    run_case(case, rec)


def run(rec, rng, tier, shard, nshards):
    n = 6000 if tier == 'quick' else 60000
    names, weights = zip(*GENS)
    for i in range(n):
        case = rng.choices(names, weights)[0](rng)
        run_case(case, rec)
        if i % 401 == 0: rec.sample(case)
