"""C01 — mixing, splitting, separating, moving and scaling streams conserve every chemical.

Monitor: a dense CAS-keyed ledger of every participating stream is taken before and after the real call
(mix_from / split_to / separate_out / copy_flow(remove=True) / scale / Stream.sum) and compared with the
DenseFlows model; sparse-representation invariants are asserted on every stream touched.
"""
import numpy as np
import thermosteam as tmo
from vt.core import case_hash
from vt.common import (thermo_of, build_stream, ledger, phase_ledger, ledger_add, ledger_diff,
                       stream_invariant, describe)

PID = 'C01'
RULE = ('random cases over operations mix_from (0-4 inlets, Stream/MultiStream inlets and receivers, receiver among the inlets once/twice, duplicates, '
        'foreign property packages listing subsets in other orders, all-zero inlets, stale receiver content), split_to (scalar / per-chemical split incl. exact 0 and 1, '
        'fresh/stale/foreign-package outlets, multi-phase feeds), separate_out, copy_flow(remove=True) with IDs/exclude forms, scale/rescale/*, Stream.sum; '
        'flows from {0, exact repeats, 10^U(-3,3)}. non-trivial = >=2 non-empty inlets or a split strictly inside (0,1) or a partial move, with >=2 chemicals flowing; '
        'distinct = hash of the serialised case. Second generation (appended cases): separate_out from a multi-phase mixture (single-/multi-phase other with equal or subset phases, other-case label, own/foreign '
        'package, the mixture itself, -= form), copy_flow(remove=True) with IDs the source does not list, onto multi-phase destinations of an equal-IDs-but-distinct / foreign package, between different phase sets, '
        'operator forms a+b, sum([..]), a+=b, (a+b)-=b, -a, a/=k, mix_from(conserve_phases=True / vle=True), phase views of the receiver among the inlets, multi-phase split_to into foreign-package outlets, '
        'single-phase split_to into multi-phase outlets, Stream.sum over 0-4 streams of any kind and phase, MultiStream.from_streams. '
        'Third generation (appended cases): HISTORIES of one subject stream (multi- or single-phase, built by the constructor or from_streams) through 3-12 steps: state is handed out / cached first '
        '(phase views ms[p], iteration, an earlier split, streams linked to a view or to the stream, proxy, flow_proxy, the mass indexer), the subject then receives content (copy_like, mix_from with exactly one '
        'non-empty inlet among empties / several inlets / itself / its own views, energy balance on and off, copy_flow in and out with removal, separate_out of a part, scale, imol assignments, phases extension, '
        'being an outlet of another split, writes through a view: mix_from / copy_flow(remove) / scale / copy_like on ms[p]; optionally made on a proxy / flow_proxy / linked stream), and is then judged '
        'THROUGH the handed-out state: MultiStream.split_to into kept (stale) or fresh outlets, views / linked / given streams as inlets of mix_from and Stream.sum, as source of copy_flow(remove=True), as feed of '
        'split_to, flows read through imass; every expectation comes from a dense ledger of the subject\'s own flow data taken just before the call; a history ends at its first violated step. '
        'Oracle audit 2: copy_flow(remove=True) is also judged on the DESTINATION side of every entry that was not selected (kept exactly; the two call forms that clear the destination first may '
        'leave exactly 0); a numerical raise of the temperature / equilibrium solver behind mix_from, +=, -= is a refusal only when a solver runs at all (>= 2 non-empty inlets) and the flows the '
        'failed call left behind are judged all the same, with a bound on the number of such raises per shard; the separate_out remainder is bounded per (phase, chemical) entry by 32 ulps of '
        '|a|+|b| of that entry; vle totals to 1e-12; in a history a step may void the handed-out views / linked streams (rebuild the subject on other phases) only if its inputs call for it')
MIN_NONTRIVIAL = {'quick': 500, 'thorough': 20000}
ASSUMPTIONS = ['receiver package lists every chemical of the inlets (the quantifier of C01)',
               'energy balance is switched on only for liquid/gas streams at 280-400 K (energy itself is C02)',
               'multi-phase split_to outlets hold stale content only in phases of the feed',
               'copy_flow(remove=True) of EVERYTHING into a single-phase stream, and of a single-phase source into a multi-phase destination without exclude, clear the destination first '
               '(documented copy semantics): entries that were not selected may there be exactly 0 instead of what they were',
               'after a numerical raise of the solver behind vle=True the per-chemical totals are judged to 1e-9 (no such raise could be observed on the pinned library to measure the resolution)']

PKGS = [
    ('Water', 'Ethanol', 'Methanol', 'Glycerol', 'Octane', 'CO2'),
    ('Ethanol', 'Water'),
    ('CO2', 'Octane', 'Methanol'),
    ('Glycerol', 'Water', 'Octane', 'Ethanol'),
    ('Methanol',),
    ('Octane', 'CO2', 'Water', 'Methanol', 'Ethanol', 'Glycerol'),
]
FULL = (0, 5)
PHASES = 'slgSL'
EPS = 2.220446049250313e-16
# separate_out: the remainder (a+b)-b of ONE (phase, chemical) entry is a rounded sum and a rounded difference: exact to 1 ulp of a+b (a few more where the
# phases of b are summed first).  Bound per entry = SEP_ULPS * EPS * (|a| + |b|) of THAT entry; worst observed over >10 quick-sized runs: see sep_diff.
SEP_ULPS = 32


def required(tier):
    return ['mix', 'split', 'separate', 'move', 'scale', 'sum', 'mix:multi-receiver', 'mix:foreign-package', 'mix:receiver-among-inlets',
            'split:multi-phase', 'split:foreign-outlet', 'move:multi-phase',
            'separate:multi-phase-mixture', 'separate:multi-phase-mixture/multi-other', 'separate:multi-phase-mixture/foreign', 'separate:self', 'separate:isub',
            'move:ids-not-in-source', 'move:twin', 'move:phase-sets', 'mix:operator-add', 'mix:operator-builtin-sum', 'mix:operator-iadd', 'mix:conserve', 'mix:conserve/energy-balance',
            'mix:vle', 'mix:rview', 'split:multi-phase/foreign-outlet', 'split:single-to-multi', 'sum:no-streams', 'sum:multi-phase-inlets', 'sum:from_streams', 'scale:neg', 'scale:itruediv',
            'hist', 'hist:from_streams', 'hist:touch/views', 'hist:touch/split', 'hist:touch/link', 'hist:touch/proxy', 'hist:touch/flow_proxy', 'hist:touch/imass',
            'hist:receive/copy_like', 'hist:receive/mix', 'hist:receive/mix-single-nonempty-inlet/energy-balance', 'hist:receive/move', 'hist:receive/drain', 'hist:receive/scale', 'hist:receive/sep',
            'hist:receive/outlet', 'hist:receive/phases', 'hist:receive/view-write-judged', 'hist:receive-on-alias',
            'hist:judge-after-receive/split', 'hist:judge-after-receive/via-mix', 'hist:judge-after-receive/via-move', 'hist:judge-after-receive/via-split', 'hist:judge-after-receive/via-sum',
            'hist:judge-after-receive/mass', 'hist:via-view', 'hist:via-linked', 'hist:via-proxy', 'hist:via-flow_proxy', 'hist:via-given',
            'hist:views-cached/received-from-same-phases-stream/judged-through-views',
            # oracle audit 2: destination side of entries copy_flow(remove=True) did not select; cases in which a solver runs behind the mixing are judged
            # (also after the solver raised); hand-outs voided only by steps whose inputs call for it
            'move:dest-not-selected/judged', 'move:dest-not-selected/source-kept-material', 'move:dest-not-selected/dest-held-material/must-be-kept',
            'mix:vle/solver-ran/judged', 'mix:vle/energy-balance/solver-ran/judged', 'mix:conserve/energy-balance/solver-ran/judged', 'mix:operator/energy-balance/judged',
            'hist:receive/mix/energy-balance/solver-ran/judged', 'hist:judge/via-mix/energy-balance/solver-ran/judged',
            'hist:subject-rebuilt', 'hist:aliases-voided/warranted:phases', 'hist:aliases-voided/warranted:copy_like', 'hist:aliases-voided/warranted:mix']


UNDEF = (tmo.exceptions.UndefinedPhase, tmo.exceptions.UndefinedChemicalAlias) if hasattr(tmo, 'exceptions') else ()

# ---------------------------------------------------------------------------
# generators

def gflow(rng, rep):
    r = rng.random()
    if r < 0.3: return 0.0
    if r < 0.45: return rep
    return round(10 ** rng.uniform(-3, 3), rng.choice([2, 6, 12]))


def gen_stream(rng, pkg=None, kind=None, rep=1.5, empty_p=0.08, phases_from=PHASES, thermal=False):
    pkg = rng.randrange(len(PKGS)) if pkg is None else pkg
    n = len(PKGS[pkg])
    kind = kind or rng.choice('SSM')
    allzero = rng.random() < empty_p
    T = rng.uniform(290, 380) if thermal else 298.15
    P = rng.choice([101325., 2e5, 5e4]) if thermal else 101325.
    if kind == 'S':
        return {'kind': 'S', 'pkg': pkg, 'phase': rng.choice(phases_from), 'T': T, 'P': P,
                'flows': [0.0] * n if allzero else [gflow(rng, rep) for _ in range(n)]}
    k = rng.randrange(2, min(4, len(phases_from)) + 1) if len(phases_from) >= 2 else 1
    phs = rng.sample(list(phases_from), k)
    flows = {}
    for ph in phs:
        flows[ph] = [0.0] * n if (allzero or rng.random() < 0.3) else [gflow(rng, rep) for _ in range(n)]
    return {'kind': 'M', 'pkg': pkg, 'phases': ''.join(phs), 'T': T, 'P': P, 'flows': flows}


def gen_mix(rng):
    eb = rng.random() < 0.25
    phases_from = 'lg' if eb else PHASES
    recv = gen_stream(rng, pkg=rng.choice(FULL), rep=2.5, phases_from=phases_from, thermal=eb)
    n = rng.choice([0, 1, 1, 2, 2, 2, 3, 3, 4])
    inlets = []
    for _ in range(n):
        r = rng.random()
        if r < 0.15: inlets.append('R')
        elif r < 0.22 and inlets and any(i != 'R' for i in inlets): inlets.append({'dup': rng.choice([k for k, i in enumerate(inlets) if i != 'R'])})
        else:
            pkg = recv['pkg'] if rng.random() < 0.5 else None
            inlets.append(gen_stream(rng, pkg=pkg, rep=2.5, phases_from=phases_from, thermal=eb))
    return {'t': 'mix', 'recv': recv, 'inlets': inlets, 'eb': eb}


def gen_split(rng):
    multi = rng.random() < 0.35
    eb = rng.random() < 0.5
    pkg = rng.randrange(len(PKGS))
    feed = gen_stream(rng, pkg=pkg, kind='M' if multi else 'S', empty_p=0.05)
    n = len(PKGS[pkg])
    r = rng.random()
    if r < 0.3: split = rng.choice([0.0, 1.0, 0.5, round(rng.random(), 3)])
    else: split = [rng.choice([0.0, 1.0, 0.25, round(rng.random(), 6)]) for _ in range(n)]
    outs = []
    for _ in range(2):
        r = rng.random()
        if multi:
            # outlets: fresh Stream, fresh MultiStream with the feed's phases, or stale content in the feed's phases
            if r < 0.4: o = {'kind': 'S', 'pkg': pkg, 'phase': 'l', 'flows': [0.0] * n}
            else:
                o = {'kind': 'M', 'pkg': pkg, 'phases': feed['phases'], 'flows': {ph: ([gflow(rng, 1.5) for _ in range(n)] if r > 0.7 else [0.0] * n) for ph in feed['phases']}}
        else:
            if r < 0.4: o = {'kind': 'S', 'pkg': pkg, 'phase': rng.choice(PHASES), 'flows': [0.0] * n}
            elif r < 0.7: o = gen_stream(rng, pkg=pkg, kind='S')                    # stale content
            else:
                # foreign package that lists every chemical of the feed
                cands = [k for k in range(len(PKGS)) if set(PKGS[pkg]) <= set(PKGS[k]) and k != pkg]
                if cands: o = gen_stream(rng, pkg=rng.choice(cands), kind='S')
                else: o = gen_stream(rng, pkg=pkg, kind='S')
        outs.append(o)
    return {'t': 'split', 'feed': feed, 's1': outs[0], 's2': outs[1], 'split': split, 'eb': eb}


def gen_separate(rng):
    pkg = rng.choice(FULL)
    a = gen_stream(rng, pkg=pkg, kind='S', empty_p=0.05)
    b = gen_stream(rng, pkg=pkg if rng.random() < 0.5 else None, kind=rng.choice('SSM'), empty_p=0.1)
    return {'t': 'sep', 'a': a, 'b': b}


def gen_move(rng):
    multi = rng.random() < 0.4
    pkg = rng.randrange(len(PKGS))
    ids = PKGS[pkg]
    if multi:
        phs = ''.join(rng.sample(list(PHASES), rng.randrange(2, 4)))
        n = len(ids)
        def ms(stale):
            return {'kind': 'M', 'pkg': pkg, 'phases': phs, 'flows': {ph: ([gflow(rng, 1.5) for _ in range(n)] if stale else [0.0] * n) for ph in phs}}
        src = ms(True)
        if rng.random() < 0.3: src = {'kind': 'S', 'pkg': pkg, 'phase': rng.choice(phs), 'flows': [gflow(rng, 1.5) for _ in range(n)]}
        dst = ms(rng.random() < 0.5)
        phase = rng.choice([None, None, rng.choice(phs)])
    else:
        src = gen_stream(rng, pkg=pkg, kind=rng.choice('SSSM'), empty_p=0.05)
        cands = [k for k in range(len(PKGS)) if set(ids) <= set(PKGS[k])]
        dst = gen_stream(rng, pkg=rng.choice(cands) if rng.random() < 0.4 else pkg, kind='S')
        phase = None
    r = rng.random()
    if r < 0.4: IDs = None
    elif r < 0.6: IDs = rng.choice(ids)
    else: IDs = rng.sample(list(ids), rng.randrange(1, len(ids) + 1))
    exclude = IDs is not None and rng.random() < 0.3
    return {'t': 'move', 'src': src, 'dst': dst, 'IDs': IDs, 'exclude': exclude, 'phase': phase}


def gen_scale(rng):
    s = gen_stream(rng, empty_p=0.05)
    return {'t': 'scale', 's': s, 'k': rng.choice([0.0, 1.0, 2.0, 0.5, round(10 ** rng.uniform(-3, 3), 6)]), 'how': rng.choice(['scale', 'rescale', 'mul', 'rmul', 'imul', 'truediv'])}


def gen_sum(rng):
    pkg = rng.choice(FULL)
    n = rng.randrange(1, 4)
    return {'t': 'sum', 'pkg': pkg, 'streams': [gen_stream(rng, pkg=pkg if rng.random() < 0.6 else None, kind='S', phases_from='l') for _ in range(n)]}

# ---------------------------------------------------------------------------
# executors

def ledger_diff(a, b, rel=1e-12, abs_=0.0):
    """vt.common.ledger_diff with one difference: an entry that is not a number is a discrepancy (nan compares False with every bound, so a nan flow
    used to pass every 'd > tol' test).  Returns the offending entries and the largest relative discrepancy."""
    bad = []; worst = 0.0
    for k in set(a) | set(b):
        x, y = a.get(k, 0.0), b.get(k, 0.0)
        d = abs(x - y)
        if not d <= abs_ + rel * max(abs(x), abs(y)): bad.append((k, x, y))
        m = max(abs(x), abs(y))
        if m and d == d: worst = max(worst, d / m)
    return bad, worst


def nflowing(l):
    return sum(1 for v in l.values() if v)


def check_inv(rec, streams, where):
    for s in streams:
        e = stream_invariant(s)
        rec.check(e is None, 'invariant', where, f'sparse invariant broken after {where}: {e}')


def run_mix(case, rec):
    recv = build_stream(case['recv'], PKGS)
    objs = []
    for d in case['inlets']:
        if d == 'R': objs.append(recv)
        elif 'dup' in d: objs.append(objs[d['dup']])
        else: objs.append(build_stream(d, PKGS))
    before = [ledger(o) for o in objs]
    expected = ledger_add(*before) if objs else {}
    foreign = any(o.chemicals is not recv.chemicals for o in objs)
    multi_recv = isinstance(recv, tmo.MultiStream)
    n_among = sum(1 for o in objs if o is recv)
    tag = ('multi' if multi_recv else 'single') + '-receiver/' + ('foreign' if foreign else 'same') + '-package'
    try:
        recv.mix_from(objs, energy_balance=case['eb'])
    except Exception as e:
        rec.exception('mix', e, what=f'mix_from({len(objs)} inlets, {tag}, energy_balance={case["eb"]}) raised {type(e).__name__}: {str(e)[:150]}')
        return
    got = ledger(recv)
    bad, worst = ledger_diff(got, expected, rel=1e-12)
    n_nonempty = sum(1 for b in before if b)
    mech = tag + ('/receiver-among-inlets' if n_among else '') + ('/single-nonempty-inlet' if n_nonempty == 1 else '')
    rec.check(not bad, 'mix', f'sum/{mech}', f'mix_from: per-chemical totals differ from the sum of the inlets: {bad[:4]}', residual=worst,
              detail={'expected': expected, 'got': got})
    for o, b in zip(objs, before):
        if o is recv: continue
        bb, _ = ledger_diff(ledger(o), b, rel=0)
        rec.check(not bb, 'mix', f'inlet-changed/{tag}', f'mix_from changed an inlet: {bb[:3]}')
    check_inv(rec, [recv] + objs, 'mix')
    if multi_recv: rec.hit('mix:multi-receiver')
    if foreign: rec.hit('mix:foreign-package')
    if n_among: rec.hit('mix:receiver-among-inlets')
    if n_nonempty >= 2 and nflowing(expected) >= 2: rec.mark_nontrivial(case_hash(case))


def run_split(case, rec):
    feed = build_stream(case['feed'], PKGS); s1 = build_stream(case['s1'], PKGS); s2 = build_stream(case['s2'], PKGS)
    split = case['split']
    ids = feed.chemicals.IDs; cas = feed.chemicals.CASs
    sp_arr = np.array(split, dtype=float) if isinstance(split, list) else split
    fb = phase_ledger(feed)
    multi = isinstance(feed, tmo.MultiStream)
    foreign = s1.chemicals is not feed.chemicals or s2.chemicals is not feed.chemicals
    tag = ('multi-phase' if multi else 'single-phase') + ('/foreign-outlet' if foreign else '')
    try:
        feed.split_to(s1, s2, sp_arr, energy_balance=case['eb'])
    except Exception as e:
        if foreign and not any(fb.values()):
            rec.refuse('split of an empty feed into a foreign-package outlet');
        rec.exception('split', e, what=f'split_to({tag}, energy_balance={case["eb"]}) raised {type(e).__name__}: {str(e)[:150]}')
        return
    # expected per (phase, CAS); single-phase outlets carry the phase-summed values
    def sp_of(c):
        return split[cas.index(c)] if isinstance(split, list) else split
    e1 = {}; e2 = {}
    for (ph, c), v in fb.items():
        a = v * sp_of(c)
        e1[(ph, c)] = a; e2[(ph, c)] = v - a
    def collapse(l):
        out = {}
        for (ph, c), v in l.items(): out[c] = out.get(c, 0.0) + v
        return out
    for name, s, e in (('s1', s1, e1), ('s2', s2, e2)):
        if isinstance(s, tmo.MultiStream) and multi:
            got = phase_ledger(s); exp = e
        else:
            got = ledger(s); exp = collapse(e)
        bad, worst = ledger_diff(got, exp, rel=1e-12, abs_=0.0)
        if bad:
            # feed - split*feed cancels when split is close to 1: both orders of evaluation (per phase then summed, or summed then split) are exact to a few
            # ulps of the FEED of that chemical, which is the floor of what can be asked of the remainder
            fc = collapse(fb)
            bad = [(k_, x_, y_) for k_, x_, y_ in bad if not abs(x_ - y_) <= 1e-12 * max(abs(x_), abs(y_)) + 8 * 2.220446049250313e-16 * abs(fc.get(k_[1] if isinstance(k_, tuple) else k_, 0.0))]
        rec.check(not bad, 'split', f'{name}/{tag}', f'split_to: {name} differs from {"split*feed" if name == "s1" else "feed-split*feed"}: {bad[:4]}', residual=worst,
                  detail={'expected': {str(k): v for k, v in exp.items()}, 'got': {str(k): v for k, v in got.items()}})
    bb, _ = ledger_diff({str(k): v for k, v in phase_ledger(feed).items()}, {str(k): v for k, v in fb.items()}, rel=0)
    rec.check(not bb, 'split', f'feed-changed/{tag}', f'split_to changed the feed: {bb[:3]}')
    check_inv(rec, [feed, s1, s2], 'split')
    if multi: rec.hit('split:multi-phase')
    if foreign: rec.hit('split:foreign-outlet')
    inside = (isinstance(split, list) and any(0 < x < 1 for x in split)) or (not isinstance(split, list) and 0 < split < 1)
    if inside and nflowing(collapse(fb)) >= 2: rec.mark_nontrivial(case_hash(case))


def sep_diff(got, exp, weight):
    """entries of the remainder that differ from exp by more than SEP_ULPS ulps of the magnitudes that entered the subtraction of THAT entry
    (weight[k] = |a| + |b|); worst = largest |got - exp| / weight.  An entry with no weight must be exact."""
    bad = []; worst = 0.0
    for k in set(got) | set(exp):
        x = got.get(k, 0.0); y = exp.get(k, 0.0); w = weight.get(k, 0.0); d = abs(x - y)
        if w and d == d: worst = max(worst, d / w)
        if not d <= SEP_ULPS * EPS * w: bad.append((k, x, y))
    return bad, worst


def run_separate(case, rec):
    a = build_stream(case['a'], PKGS); b = build_stream(case['b'], PKGS)
    la, lb = ledger(a), ledger(b)
    total = ledger_add(la, lb)
    m = build_stream(case['a'], PKGS)
    idx = {c: i for i, c in enumerate(m.chemicals.CASs)}
    for c, v in total.items():
        m.imol.data[idx[c]] = v
    foreign = b.chemicals is not m.chemicals
    tag = ('multi-phase-other' if isinstance(b, tmo.MultiStream) else 'single-phase-other') + ('/foreign' if foreign else '/same') + '-package'
    try:
        m.separate_out(b, energy_balance=False)
    except Exception as e:
        rec.exception('separate', e, what=f'separate_out({tag}) raised {type(e).__name__}: {str(e)[:150]}'); return
    got = ledger(m)
    # per entry, relative to |a| + |b| of that chemical (was: 1e-9 of the largest flow of ALL chemicals, 6 orders above the rounding)
    bad, worst = sep_diff(got, la, {c: abs(la.get(c, 0.0)) + abs(lb.get(c, 0.0)) for c in set(la) | set(lb)})
    rec.check(not bad, 'separate', f'remainder/{tag}', f'(a+b).separate_out(b) != a: {bad[:4]}', residual=worst,
              detail={'a': la, 'b': lb, 'got': got})
    bb, _ = ledger_diff(ledger(b), lb, rel=0)
    rec.check(not bb, 'separate', f'other-changed/{tag}', 'separate_out changed the stream that was separated out')
    check_inv(rec, [m, b], 'separate')
    if la and lb and nflowing(total) >= 2: rec.mark_nontrivial(case_hash(case))


def judge_dest_rest(rec, tag, src, dst, sb, db, da, named, exclude, sel_phases, whole):
    """DESTINATION side of every entry that was NOT moved by dst.copy_flow(src, ..., remove=True) (the source side of those entries is judged by the
    callers: it must be untouched).  Material that stayed in the source may not ALSO appear in the destination (duplication), and what the destination held
    there may not vanish (loss): the destination entry is exactly what it was.  Two documented call forms clear the destination before they copy and are
    allowed 'cleared' (exactly 0) as well: copying EVERYTHING into a single-phase stream (the destination becomes a copy of the source; only chemicals the
    source package does not list are left over) and a single-phase source copied into a multi-phase destination without exclude (MultiStream.copy_flow
    starts with data[:] = 0).  sb/db/da = phase ledgers of source before, destination before / after; named = CASs named by IDs; sel_phases = None (all)
    or the set of selected phases; whole = everything is copied (IDs=..., no exclude)."""
    multi_dst = isinstance(dst, tmo.MultiStream); multi_src = isinstance(src, tmo.MultiStream)
    src_cas = set(src.chemicals.CASs)
    src_phases = set(src.phases) if multi_src else {src.phase}
    clear_first = (multi_dst and not multi_src and not exclude) or (not multi_dst and whole)
    src_tot = {}
    for (p, c), v in sb.items(): src_tot[c] = src_tot.get(c, 0.0) + v
    problems = []; n = n_src = n_dst = 0
    def one(where, c, moved, d0, d1, s0):
        nonlocal n, n_src, n_dst
        if moved: return
        n += 1
        if s0: n_src += 1
        if d0: n_dst += 1
        if not (d1 == d0 or (clear_first and d1 == 0)):
            problems.append(('destination-entry-not-selected-changed' + ('/holds-what-the-source-kept' if s0 and d1 == s0 else ('/wiped' if d1 == 0 else '')),) + where + (c, 'source before', s0, 'destination before', d0, 'after', d1))
    if multi_dst:
        for ph in dst.phases:
            for c in dst.chemicals.CASs:
                selected = (sel_phases is None or ph in sel_phases) and c in named
                moved = ((not selected) if exclude else selected) and ph in src_phases and c in src_cas
                one((ph,), c, moved, db.get((ph, c), 0.0), da.get((ph, c), 0.0), sb.get((ph, c), 0.0) if multi_src else src_tot.get(c, 0.0))
    else:
        d0s = collapse(db); d1s = collapse(da)
        for c in dst.chemicals.CASs:
            moved = c in src_cas and ((c not in named) if exclude else (c in named))
            one((), c, moved, d0s.get(c, 0.0), d1s.get(c, 0.0), src_tot.get(c, 0.0))
    if not n: return
    rec.check(not problems, 'move', f'dest-not-selected/{tag}' + ('/cleared-first-form' if clear_first else ''),
              f'copy_flow(remove=True): destination entries that were NOT selected changed (material the source kept was duplicated into the destination, or content of the destination was lost): {problems[:4]}',
              detail={'src_before': sled(sb), 'dst_before': sled(db), 'dst_after': sled(da)})
    rec.hit('move:dest-not-selected/judged')
    if n_src: rec.hit('move:dest-not-selected/source-kept-material')
    if n_dst: rec.hit('move:dest-not-selected/dest-held-material')
    if n_dst and not clear_first: rec.hit('move:dest-not-selected/dest-held-material/must-be-kept')


def run_move(case, rec):
    src = build_stream(case['src'], PKGS); dst = build_stream(case['dst'], PKGS)
    IDs = case['IDs']; exclude = case['exclude']; phase = case['phase']
    multi_dst = isinstance(dst, tmo.MultiStream)
    sb, db = phase_ledger(src), phase_ledger(dst)
    kw = {'remove': True}
    if exclude: kw['exclude'] = True
    ids_arg = ... if IDs is None else (IDs if isinstance(IDs, str) else tuple(IDs))
    tag = ('multi' if multi_dst else 'single') + '-dest/' + ('multi' if isinstance(src, tmo.MultiStream) else 'single') + '-source/' + \
          ('all' if IDs is None else ('exclude' if exclude else 'IDs')) + ('/phase' if phase else '') + ('/foreign' if dst.chemicals is not src.chemicals else '')
    try:
        if multi_dst:
            dst.copy_flow(src, ... if phase is None else phase, ids_arg, **kw)
        else:
            dst.copy_flow(src, ids_arg, **kw)
    except Exception as e:
        rec.exception('move', e, what=f'copy_flow({tag}) raised {type(e).__name__}: {str(e)[:150]}'); return
    sa, da = phase_ledger(src), phase_ledger(dst)
    cas_of = {i: c for i, c in zip(src.chemicals.IDs, src.chemicals.CASs)}
    all_cas = set(src.chemicals.CASs)
    named = all_cas if IDs is None else {cas_of[i] for i in ([IDs] if isinstance(IDs, str) else IDs)}
    def tot(l, c, ph=None):
        return sum(v for (p, cc), v in l.items() if cc == c and (ph is None or p == ph))
    problems = []
    src_phases = set(src.phases) if isinstance(src, tmo.MultiStream) else {src.phase}
    moved_cas = (all_cas - named) if exclude else named
    for c in all_cas | set(dst.chemicals.CASs):
        if multi_dst:
            # judged phase by phase.  selection = (phase or all) x named; exclude moves the complement of the selection
            for ph in set(dst.phases) | src_phases:
                selected = (phase is None or ph == phase) and c in named
                moved = (not selected) if exclude else selected
                s0, s1_, d0, d1 = tot(sb, c, ph), tot(sa, c, ph), tot(db, c, ph), tot(da, c, ph)
                if moved and ph in src_phases and c in all_cas:
                    if not (d1 == s0 and s1_ == 0): problems.append(('moved-entry', ph, c, s0, s1_, d0, d1))
                else:
                    if s1_ != s0: problems.append(('source-untouched-entry-changed', ph, c, s0, s1_, d0, d1))
        else:
            s0, s1_, d0, d1 = tot(sb, c), tot(sa, c), tot(db, c), tot(da, c)
            if c in moved_cas:
                if not (abs(d1 - s0) <= 1e-12 * abs(s0) and s1_ == 0): problems.append(('moved-entry', c, s0, s1_, d0, d1))
            else:
                if s1_ != s0: problems.append(('source-untouched-entry-changed', c, s0, s1_, d0, d1))
    rec.check(not problems, 'move', f'{tag}', f'copy_flow(remove=True): material duplicated or lost: {problems[:4]}',
              detail={'src_before': {str(k): v for k, v in sb.items()}, 'dst_before': {str(k): v for k, v in db.items()},
                      'src_after': {str(k): v for k, v in sa.items()}, 'dst_after': {str(k): v for k, v in da.items()}})
    judge_dest_rest(rec, tag, src, dst, sb, db, da, named, exclude, None if phase is None else {phase}, IDs is None and not exclude)
    check_inv(rec, [src, dst], 'move')
    if multi_dst or isinstance(src, tmo.MultiStream): rec.hit('move:multi-phase')
    if len([c for c in moved_cas if tot(sb, c)]) >= 1 and nflowing({c: tot(sb, c) for c in all_cas}) >= 2: rec.mark_nontrivial(case_hash(case))


def run_scale(case, rec):
    s = build_stream(case['s'], PKGS); k = case['k']; how = case['how']
    b = phase_ledger(s)
    try:
        if how == 'scale': s.scale(k); r = s
        elif how == 'rescale': s.rescale(k); r = s
        elif how == 'mul': r = s * k
        elif how == 'rmul': r = k * s
        elif how == 'imul': s *= k; r = s
        else:
            if k == 0: rec.refuse('division by zero'); return
            r = s / k
    except Exception as e:
        rec.exception('scale', e, what=f'{how}({k}) raised {type(e).__name__}: {str(e)[:150]}'); return
    exp = {kk: (v / k if how == 'truediv' else v * k) for kk, v in b.items()}
    exp = {kk: v for kk, v in exp.items() if v}
    got = phase_ledger(r)
    bad, worst = ledger_diff({str(a): v for a, v in got.items()}, {str(a): v for a, v in exp.items()}, rel=1e-15)
    rec.check(not bad, 'scale', f'{how}/{"multi" if isinstance(s, tmo.MultiStream) else "single"}', f'{how} by {k}: flows are not k times the original: {bad[:4]}', residual=worst)
    if r is not s:
        bb, _ = ledger_diff({str(a): v for a, v in phase_ledger(s).items()}, {str(a): v for a, v in b.items()}, rel=0)
        rec.check(not bb, 'scale', f'{how}/operand-changed', f'{how} changed its operand')
    check_inv(rec, [s, r], 'scale')
    if k not in (0.0, 1.0) and len(b) >= 2: rec.mark_nontrivial(case_hash(case))


def run_sum(case, rec):
    streams = [build_stream(d, PKGS) for d in case['streams']]
    before = [ledger(s) for s in streams]
    try:
        new = tmo.Stream.sum(streams, None, thermo_of(PKGS[case['pkg']]), energy_balance=False)
    except Exception as e:
        rec.exception('sum', e, what=f'Stream.sum raised {type(e).__name__}: {str(e)[:150]}'); return
    bad, worst = ledger_diff(ledger(new), ledger_add(*before), rel=1e-12)
    foreign = any(s.chemicals is not new.chemicals for s in streams)
    rec.check(not bad, 'sum', 'foreign-package' if foreign else 'same-package', f'Stream.sum differs from the sum of the streams: {bad[:4]}', residual=worst)
    check_inv(rec, [new] + streams, 'sum')
    if sum(1 for b in before if b) >= 2: rec.mark_nontrivial(case_hash(case))



# ---------------------------------------------------------------------------
# second generation (coverage audit): call forms, options and boundary inputs of the same operation family that the generators above
# never draw.  They are generated in a second loop (run) so that the case stream above stays what it was.

def swapc(p):
    return p if p == 'g' else (p.lower() if p.isupper() else p.upper())


def mstream(rng, pkg, phs, rep=1.5, zero_p=0.3, allzero=False):
    n = len(PKGS[pkg])
    return {'kind': 'M', 'pkg': pkg, 'phases': ''.join(phs), 'T': 298.15, 'P': 101325.,
            'flows': {ph: ([0.0] * n if (allzero or rng.random() < zero_p) else [gflow(rng, rep) for _ in range(n)]) for ph in phs}}


_twins = {}


def twin_thermo(ids):
    """a second Thermo with the same chemical IDs in the same order but a distinct Chemicals object."""
    th = _twins.get(tuple(ids))
    if th is None:
        th = _twins[tuple(ids)] = tmo.Thermo(tmo.Chemicals(list(ids), cache=True))
    return th


def build2(d):
    if d.get('twin'):
        th = twin_thermo(PKGS[d['pkg']])
        ids = th.chemicals.IDs
        s = tmo.MultiStream(None, phases=tuple(d['phases']), T=d.get('T', 298.15), P=d.get('P', 101325.), thermo=th)
        for ph, row in d['flows'].items():
            for i, v in zip(ids, row):
                if v: s.imol[ph, i] = v
        return s
    return build_stream(d, PKGS)


def sled(l):
    return {str(k): v for k, v in l.items()}


def collapse(l):
    out = {}
    for (ph, c), v in l.items(): out[c] = out.get(c, 0.0) + v
    return out


def unchanged(rec, clause, tag, pairs):
    """after a refusal nothing may have moved: pairs = [(stream, phase ledger before)]"""
    for s, b in pairs:
        bb, _ = ledger_diff(sled(phase_ledger(s)), sled(b), rel=0)
        rec.check(not bb, clause, f'refused-but-changed/{tag}', f'the call was refused with an error but a stream was changed: {bb[:3]}')


NUMERIC = ('RuntimeError', 'FloatingPointError', 'ZeroDivisionError', 'OverflowError', 'InfeasibleRegion', 'DomainError', 'NoEquilibrium')


def passes_through(e, parts):
    tb = e.__traceback__
    while tb is not None:
        fn = tb.tb_frame.f_code.co_filename.replace('\\', '/')
        if any(p in fn for p in parts): return True
        tb = tb.tb_next
    return False


def not_material(e, rec, vle=False, warranted=True):
    """a numerical failure of the temperature solver of the energy balance (C02) or of the equilibrium solver (C03/C04), not of the material
    bookkeeping: the RAISE is counted, not judged here.  Programming errors (TypeError, AttributeError, IndexError, KeyError, ValueError ...) are still reported.
    warranted: the harness can see from the inputs that a solver runs at all (energy balance / vle on AND at least two non-empty inlets, resp. a non-empty
    remainder): a single non-empty inlet is copied and no inlet empties the receiver, so a numerical error there is reported like any other exception.
    The material is written BEFORE the solver is called (Stream.mix_from: _imol.mix_from, then H / vle; separate_out: _imol.separate_out, then H), so the
    callers go on to judge the flows the failed call left behind (after_failure): a bookkeeping error that hands the solver a composition it cannot
    digest does not turn the case into 'not judged'."""
    if type(e).__name__ not in NUMERIC or not warranted: return False
    if vle and passes_through(e, ['/thermosteam/equilibrium/']):
        rec.refuse('vle=True: the equilibrium solver did not return normally (C03/C04), not judged'); rec.hit('solver-failed:vle'); return True
    if passes_through(e, ['/thermosteam/mixture/']):
        rec.refuse('energy balance on: the temperature solver did not return normally (C02), not judged'); rec.hit('solver-failed:temperature'); return True
    return False


def after_failure(rec, clause, mech, holder, expected, untouched, rel=1e-12, abs_of=None):
    """the solver behind an energy balance / vle raised AFTER the material was written: the flows of `holder` are judged all the same (totals per chemical
    against `expected`, a CAS ledger), and the streams of `untouched` = [(stream, phase ledger before)] must be what they were."""
    got = ledger(holder)
    if abs_of is None:
        bad, worst = ledger_diff(got, expected, rel=rel)
    else:
        bad = [(c, got.get(c, 0.0), expected.get(c, 0.0)) for c in set(got) | set(expected) if not abs(got.get(c, 0.0) - expected.get(c, 0.0)) <= abs_of(c)]; worst = None
    rec.check(not bad, clause, f'after-solver-failure/{mech}', f'the energy-balance / equilibrium solver raised after the material had been written and the flows left behind are not those of the operation: {bad[:4]}',
              residual=worst, detail={'expected': expected, 'got': got})
    for s, b in untouched:
        bb, _ = ledger_diff(sled(phase_ledger(s)), sled(b), rel=0)
        rec.check(not bb, clause, f'after-solver-failure/inlet-changed/{mech}', f'the call failed in the solver and changed an inlet / the stream separated out: {bb[:3]}')
    e = stream_invariant(holder)
    rec.check(e is None, 'invariant', f'after-solver-failure/{clause}', f'sparse invariant broken after a call that failed in the solver: {e}')
    rec.hit(f'{clause}:judged-after-solver-failure')


def gen_sep2(rng):
    """a multi-phase mixture; the stream separated out is single-phase (in a phase of the mixture, possibly under the other-case label),
    multi-phase with the same or a subset of the phases, own or foreign package, or the mixture itself; method and -= forms."""
    pkg = rng.choice(FULL)
    k = rng.randrange(2, 4)
    form = rng.choice(['S', 'S', 'M-equal', 'M-equal', 'M-subset', 'self', 'swap'])
    how = 'isub' if rng.random() < 0.2 else 'method'
    phs = rng.sample(list('lg' if how == 'isub' else PHASES), 2 if how == 'isub' else k)
    a = mstream(rng, pkg, phs, zero_p=0.2, allzero=rng.random() < 0.05)
    bpkg = pkg if rng.random() < 0.5 else rng.randrange(len(PKGS))
    nb = len(PKGS[bpkg])
    if form == 'swap':
        cands = [p for p in phs if p != 'g' and swapc(p) not in phs]
        if cands and how != 'isub': b = {'kind': 'S', 'pkg': bpkg, 'phase': swapc(rng.choice(cands)), 'flows': [gflow(rng, 1.5) for _ in range(nb)]}
        else: form = 'S'
    if form == 'S': b = {'kind': 'S', 'pkg': bpkg, 'phase': rng.choice(phs), 'flows': [0.0] * nb if rng.random() < 0.08 else [gflow(rng, 1.5) for _ in range(nb)]}
    elif form == 'M-equal': b = mstream(rng, bpkg, rng.sample(phs, len(phs)))
    elif form == 'M-subset': b = mstream(rng, bpkg, rng.sample(phs, rng.randrange(1, len(phs))) if len(phs) > 1 else phs)
    elif form == 'self': b = 'self'
    if how == 'isub':
        T = round(rng.uniform(290, 380), 2)
        a['T'] = T
        if b != 'self': b['T'] = T
    return {'t': 'sep2', 'a': a, 'b': b, 'how': how, 'form': form}


def run_sep2(case, rec):
    m = build_stream(case['a'], PKGS)
    la = phase_ledger(m)
    how = case['how']
    if case['b'] == 'self':
        try:
            if how == 'isub': m -= m
            else: m.separate_out(m, energy_balance=False)
        except Exception as e:
            rec.exception('separate', e, what=f'multi-phase m.separate_out(m) ({how}) raised {type(e).__name__}: {str(e)[:150]}'); return
        got = phase_ledger(m)
        rec.check(not got, 'separate', f'self/multi-phase/{how}', f'separating a multi-phase stream out of itself leaves material: {sled(got)}')
        check_inv(rec, [m], 'separate')
        rec.hit('separate:self')
        return
    b = build_stream(case['b'], PKGS)
    lb = phase_ledger(b)
    labels = set(m.phases)
    ids = m.chemicals.IDs; idx = {c: i for i, c in enumerate(m.chemicals.CASs)}
    total = dict(la); weight = {k: abs(v) for k, v in la.items()}
    for (ph, c), v in lb.items():
        lab = ph if ph in labels else swapc(ph)
        total[(lab, c)] = total.get((lab, c), 0.0) + v
        weight[(lab, c)] = weight.get((lab, c), 0.0) + abs(v)
    for (ph, c), v in total.items():
        m.imol[ph, ids[idx[c]]] = v
    foreign = b.chemicals is not m.chemicals
    bm = isinstance(b, tmo.MultiStream)
    tag = 'multi-phase-mixture/' + (('equal-phases' if set(b.phases) == labels else 'subset-phases') + '-multi-other' if bm else ('other-case-label-' if b.phase not in labels else '') + 'single-other') + \
          ('/foreign' if foreign else '/same') + '-package' + ('/isub' if how == 'isub' else '')
    try:
        if how == 'isub':
            if not la: rec.refuse('-= that leaves nothing: energy balance on an empty remainder not judged'); return
            m -= b
        else:
            m.separate_out(b, energy_balance=False)
    except Exception as e:
        if how == 'isub' and not_material(e, rec, warranted=bool(la) and bool(lb)):
            # m -= b runs with the energy balance on: H is taken, the material separated, then T solved for.  The remainder is judged all the same
            a_tot = collapse(la); b_tot = collapse(lb)
            after_failure(rec, 'separate', f'remainder/{tag}', m, a_tot, [(b, lb)], abs_of=lambda c: 4 * SEP_ULPS * EPS * (abs(a_tot.get(c, 0.0)) + abs(b_tot.get(c, 0.0))))
            return
        rec.exception('separate', e, what=f'separate_out({tag}) raised {type(e).__name__}: {str(e)[:150]}'); return
    got = phase_ledger(m)
    bad, worst = sep_diff(got, la, weight)         # per (phase, chemical) entry, relative to |a| + |b| of that entry
    rec.check(not bad, 'separate', f'remainder/{tag}', f'(a+b).separate_out(b) != a per phase: {bad[:4]}', residual=worst,
              detail={'a': sled(la), 'b': sled(lb), 'got': sled(got)})
    bb, _ = ledger_diff(sled(phase_ledger(b)), sled(lb), rel=0)
    rec.check(not bb, 'separate', f'other-changed/{tag}', 'separate_out changed the stream that was separated out')
    check_inv(rec, [m, b], 'separate')
    rec.hit('separate:multi-phase-mixture')
    if bm: rec.hit('separate:multi-phase-mixture/multi-other')
    if foreign: rec.hit('separate:multi-phase-mixture/foreign')
    if how == 'isub': rec.hit('separate:isub')
    if la and lb and nflowing(collapse(total)) >= 2: rec.mark_nontrivial(case_hash(case))


def gen_move2(rng):
    """copy_flow(remove=True): IDs that the source does not list (destination on a strict superset package), multi-phase destinations on an
    equal-IDs-but-distinct package / a foreign superset package, multi-phase pairs with different phase sets, phase given as a sequence."""
    form = rng.choice(['ids-outside', 'ids-outside', 'ids-outside', 'twin', 'twin', 'foreign-multi', 'phase-sets', 'phase-sets', 'phase-seq'])
    if form == 'ids-outside':
        pkg = rng.choice([1, 2, 3, 4])
        cands = [k for k in range(len(PKGS)) if set(PKGS[pkg]) < set(PKGS[k])]
        dpkg = rng.choice(cands)
        src = gen_stream(rng, pkg=pkg, kind=rng.choice('SSM'), empty_p=0.05)
        dst = gen_stream(rng, pkg=dpkg, kind='S')
        pool = list(PKGS[dpkg])
        IDs = rng.choice(pool) if rng.random() < 0.4 else rng.sample(pool, rng.randrange(1, len(pool) + 1))
        return {'t': 'move2', 'form': form, 'src': src, 'dst': dst, 'IDs': IDs, 'exclude': rng.random() < 0.6, 'phase': None}
    pkg = rng.randrange(len(PKGS)); ids = PKGS[pkg]
    phs = rng.sample(list(PHASES), rng.randrange(2, 4))
    r = rng.random()
    IDs = None if r < 0.4 else (rng.choice(ids) if r < 0.6 else rng.sample(list(ids), rng.randrange(1, len(ids) + 1)))
    exclude = IDs is not None and rng.random() < 0.3
    src = mstream(rng, pkg, phs, zero_p=0.1)
    if form != 'phase-sets' and rng.random() < 0.3: src = {'kind': 'S', 'pkg': pkg, 'phase': rng.choice(phs), 'flows': [gflow(rng, 1.5) for _ in ids]}
    phase = rng.choice([None, None, rng.choice(phs)])
    if form == 'twin':
        dst = mstream(rng, pkg, phs, allzero=rng.random() < 0.5); dst['twin'] = True
    elif form == 'foreign-multi':
        cands = [k for k in range(len(PKGS)) if set(ids) <= set(PKGS[k]) and PKGS[k] != ids]
        if not cands: cands = [0]
        dst = mstream(rng, rng.choice(cands), phs, allzero=rng.random() < 0.5)
    elif form == 'phase-sets':
        dphs = rng.sample(list(PHASES), rng.randrange(2, 5))
        dst = mstream(rng, pkg, dphs, allzero=rng.random() < 0.5); phase = None
    else:
        dst = mstream(rng, pkg, phs, allzero=rng.random() < 0.5)
        phase = rng.sample(phs, rng.randrange(1, len(phs) + 1))
    return {'t': 'move2', 'form': form, 'src': src, 'dst': dst, 'IDs': IDs, 'exclude': exclude, 'phase': phase}


def run_move2(case, rec):
    src = build2(case['src']); dst = build2(case['dst'])
    IDs = case['IDs']; exclude = case['exclude']; phase = case['phase']; form = case['form']
    multi_dst = isinstance(dst, tmo.MultiStream); multi_src = isinstance(src, tmo.MultiStream)
    sb, db = phase_ledger(src), phase_ledger(dst)
    kw = {'remove': True}
    if exclude: kw['exclude'] = True
    ids_arg = ... if IDs is None else (IDs if isinstance(IDs, str) else tuple(IDs))
    tag = form + '/' + ('multi' if multi_dst else 'single') + '-dest/' + ('multi' if multi_src else 'single') + '-source/' + \
          ('all' if IDs is None else ('exclude' if exclude else 'IDs')) + ('/str' if isinstance(IDs, str) else '') + ('/phase' if phase else '')
    src_ids = set(src.chemicals.IDs)
    outside = IDs is not None and any(i not in src_ids for i in ([IDs] if isinstance(IDs, str) else IDs))
    rec.hit('move:' + form)
    try:
        if multi_dst:
            dst.copy_flow(src, ... if phase is None else (phase if isinstance(phase, str) else tuple(phase)), ids_arg, **kw)
        else:
            dst.copy_flow(src, ids_arg, **kw)
    except tmo.exceptions.UndefinedChemicalAlias as e:
        if outside and not exclude:
            rec.refuse('copy_flow of chemicals the source does not list: UndefinedChemicalAlias'); unchanged(rec, 'move', tag, [(src, sb), (dst, db)]); return
        rec.exception('move', e, what=f'copy_flow({tag}) raised {type(e).__name__}: {str(e)[:150]}'); return
    except tmo.exceptions.UndefinedPhase as e:
        if form == 'phase-seq' or (form == 'phase-sets' and not set(src.phases) <= set(dst.phases)):
            rec.refuse('copy_flow with a phase sequence / a source phase the destination lacks: UndefinedPhase'); unchanged(rec, 'move', tag, [(src, sb), (dst, db)]); return
        rec.exception('move', e, what=f'copy_flow({tag}) raised {type(e).__name__}: {str(e)[:150]}'); return
    except ValueError as e:
        if form == 'foreign-multi' and 'same chemicals' in str(e):
            rec.refuse('multi-phase copy_flow between different property packages: documented ValueError'); unchanged(rec, 'move', tag, [(src, sb), (dst, db)]); return
        if form == 'phase-sets' and tuple(src.phases) != tuple(dst.phases):
            rec.refuse('multi-phase copy_flow between different phase sets: ValueError'); unchanged(rec, 'move', tag, [(src, sb), (dst, db)]); return
        rec.exception('move', e, what=f'copy_flow({tag}) raised {type(e).__name__}: {str(e)[:150]}'); return
    except Exception as e:
        rec.exception('move', e, what=f'copy_flow({tag}) raised {type(e).__name__}: {str(e)[:150]}'); return
    sa, da = phase_ledger(src), phase_ledger(dst)
    cas_of = {i: c for i, c in zip(src.chemicals.IDs, src.chemicals.CASs)}
    all_cas = set(src.chemicals.CASs)
    named = all_cas if IDs is None else {cas_of[i] for i in ([IDs] if isinstance(IDs, str) else IDs) if i in cas_of}
    def tot(l, c, ph=None):
        return sum(v for (p, cc), v in l.items() if cc == c and (ph is None or p == ph))
    problems = []
    src_phases = set(src.phases) if multi_src else {src.phase}
    per_phase = multi_dst and form in ('twin', 'phase-seq')
    sel_phases = None if phase is None else ({phase} if isinstance(phase, str) else set(phase))
    if per_phase:
        for c in all_cas:
            for ph in set(dst.phases) | src_phases:
                selected = (sel_phases is None or ph in sel_phases) and c in named
                moved = (not selected) if exclude else selected
                s0, s1_, d0, d1 = tot(sb, c, ph), tot(sa, c, ph), tot(db, c, ph), tot(da, c, ph)
                if moved and ph in src_phases:
                    if not (d1 == s0 and s1_ == 0): problems.append(('moved-entry', ph, c, s0, s1_, d0, d1))
                elif s1_ != s0: problems.append(('source-untouched-entry-changed', ph, c, s0, s1_, d0, d1))
    else:
        # totals per chemical: what was selected left the source completely and arrived; the rest of the source is untouched
        moved_cas = (all_cas - named) if exclude else named
        for c in all_cas:
            s0, s1_, d0, d1 = tot(sb, c), tot(sa, c), tot(db, c), tot(da, c)
            if c in moved_cas:
                if form == 'phase-sets':
                    # destination phases the source lacks may keep what they held: judged is only that what left the source arrived and nothing more than that
                    if not (s1_ == 0 and s0 * (1 - 1e-12) <= d1 <= (s0 + d0) * (1 + 1e-12)): problems.append(('moved-entry', c, s0, s1_, d0, d1))
                elif not (abs(d1 - s0) <= 1e-12 * abs(s0) and s1_ == 0): problems.append(('moved-entry', c, s0, s1_, d0, d1))
            elif s1_ != s0: problems.append(('source-untouched-entry-changed', c, s0, s1_, d0, d1))
    rec.check(not problems, 'move', tag, f'copy_flow(remove=True): material duplicated or lost: {problems[:4]}',
              detail={'src_before': sled(sb), 'dst_before': sled(db), 'src_after': sled(sa), 'dst_after': sled(da)})
    judge_dest_rest(rec, tag, src, dst, sb, db, da, named, exclude, sel_phases, IDs is None and not exclude)
    check_inv(rec, [src, dst], 'move')
    if outside: rec.hit('move:ids-not-in-source')
    if any(tot(sb, c) for c in all_cas) and nflowing({c: tot(sb, c) for c in all_cas}) >= 2: rec.mark_nontrivial(case_hash(case))


def gen_op(rng):
    """operator forms: a + b, sum([a, b, c]) (0 + a), a += b, (a+b) -= b.  They run with the energy balance on, so liquid/gas at 290-380 K."""
    pkg = rng.choice(FULL)
    a = gen_stream(rng, pkg=pkg, rep=2.5, phases_from='lg', thermal=True, empty_p=0.05)
    b = gen_stream(rng, pkg=pkg if rng.random() < 0.5 else None, rep=2.5, phases_from='lg', thermal=True, empty_p=0.08)
    c = gen_stream(rng, pkg=pkg if rng.random() < 0.5 else None, rep=2.5, phases_from='lg', thermal=True, empty_p=0.08)
    return {'t': 'op', 'a': a, 'b': b, 'c': c, 'how': rng.choice(['add', 'add', 'builtin-sum', 'iadd', 'iadd', 'isub'])}


def run_op(case, rec):
    a = build_stream(case['a'], PKGS); b = build_stream(case['b'], PKGS); c = build_stream(case['c'], PKGS)
    how = case['how']
    tmo.settings.set_thermo(a.thermo)       # a + b builds its result on the default package
    la, lb, lc = ledger(a), ledger(b), ledger(c)
    pa, pb, pc = phase_ledger(a), phase_ledger(b), phase_ledger(c)
    kinds = ''.join('M' if isinstance(x, tmo.MultiStream) else 'S' for x in ((a, b, c) if how == 'builtin-sum' else (a, b)))
    foreign = b.chemicals is not a.chemicals or (how == 'builtin-sum' and c.chemicals is not a.chemicals)
    tag = f'{how}/{kinds}/' + ('foreign' if foreign else 'same') + '-package'
    if how == 'isub':
        # the mixture a+b is built with the operator, then b is taken out again with the operator
        try:
            m = a + b
        except Exception as e:
            # a + b hands nothing back when it raises: nothing to judge.  The temperature solver only runs with two non-empty operands
            if not_material(e, rec, warranted=bool(la) and bool(lb)): rec.hit('mix:operator/solver-failed-nothing-returned'); return
            rec.exception('mix', e, what=f'a + b ({tag}) raised {type(e).__name__}: {str(e)[:150]}'); return
        if not la or not lb: rec.refuse('-= with an empty remainder or nothing to separate: not judged'); return
        try:
            m -= b
        except Exception as e:
            if not_material(e, rec, warranted=True):
                after_failure(rec, 'separate', f'remainder/operator/{tag}', m, la, [(b, pb)], abs_of=lambda c: 4 * SEP_ULPS * EPS * (abs(la.get(c, 0.0)) + abs(lb.get(c, 0.0))))
                return
            rec.exception('separate', e, what=f'(a + b) -= b ({tag}) raised {type(e).__name__}: {str(e)[:150]}'); return
        got = ledger(m)
        bad, worst = sep_diff(got, la, {c: abs(la.get(c, 0.0)) + abs(lb.get(c, 0.0)) for c in set(la) | set(lb)})
        rec.check(not bad, 'separate', f'remainder/operator/{tag}', f'(a + b) -= b leaves other totals than a: {bad[:4]}', residual=worst, detail={'a': la, 'b': lb, 'got': got})
        bb, _ = ledger_diff(ledger(b), lb, rel=0)
        rec.check(not bb, 'separate', f'other-changed/operator/{tag}', '-= changed the stream that was separated out')
        check_inv(rec, [m, a, b], 'separate')
        rec.hit('separate:isub')
        if nflowing(ledger_add(la, lb)) >= 2: rec.mark_nontrivial(case_hash(case))
        return
    try:
        if how == 'add': r = a + b; expected = ledger_add(la, lb); ins = [(a, la), (b, lb)]
        elif how == 'builtin-sum': r = sum([a, b, c]); expected = ledger_add(la, lb, lc); ins = [(a, la), (b, lb), (c, lc)]
        else:
            r = a; r += b; expected = ledger_add(la, lb); ins = [(b, lb)]
            rec.check(r is a, 'mix', f'iadd-identity/{tag}', 'a += b rebinds a to another object')
    except Exception as e:
        n_ne = sum(1 for l in ((la, lb, lc) if how == 'builtin-sum' else (la, lb)) if l)
        if not_material(e, rec, warranted=n_ne >= 2):
            # a += b wrote into a before the temperature was solved for: judged; a + b / sum hand nothing back when they raise
            if how == 'iadd': after_failure(rec, 'mix', f'sum/operator/{tag}', a, ledger_add(la, lb), [(b, pb)])
            else: rec.hit('mix:operator/solver-failed-nothing-returned')
            return
        rec.exception('mix', e, what=f'operator form {tag} raised {type(e).__name__}: {str(e)[:150]}'); return
    got = ledger(r)
    bad, worst = ledger_diff(got, expected, rel=1e-12)
    rec.check(not bad, 'mix', f'sum/operator/{tag}', f'operator form {how}: per-chemical totals differ from the sum of the operands: {bad[:4]}', residual=worst, detail={'expected': expected, 'got': got})
    for o, l in ins:
        bb, _ = ledger_diff(ledger(o), l, rel=0)
        rec.check(not bb, 'mix', f'inlet-changed/operator/{tag}', f'operator form {how} changed an operand: {bb[:3]}')
    check_inv(rec, [r, a, b, c], 'mix')
    rec.hit('mix:operator-' + how)
    rec.hit('mix:operator/energy-balance/judged')
    if sum(1 for o, l in ins if l) + (1 if how == 'iadd' and la else 0) >= 2 and nflowing(expected) >= 2: rec.mark_nontrivial(case_hash(case))


def gen_mix2(rng):
    """mix_from options: conserve_phases=True (energy balance on/off), vle=True, and phase views of a multi-phase receiver among the inlets."""
    form = rng.choices(['conserve', 'vle', 'rview'], [5, 1, 4])[0]
    eb = form != 'rview' and rng.random() < (0.5 if form == 'vle' else 0.3)
    phases_from = 'lg' if (eb or form == 'vle') else PHASES
    thermal = eb or form == 'vle'
    recv = gen_stream(rng, pkg=rng.choice(FULL), rep=2.5, phases_from=phases_from, thermal=thermal, kind='M' if form == 'rview' else None)
    n = rng.choice([1, 2, 2, 2, 3, 3, 4])
    inlets = []
    for _ in range(n):
        r = rng.random()
        if form == 'rview' and r < 0.45: inlets.append({'rview': rng.randrange(len(recv['phases']))})
        elif r < 0.12: inlets.append('R')
        else:
            pkg = recv['pkg'] if rng.random() < 0.5 else None
            if form == 'vle': pkg = rng.choice([0, 1, 5])
            inlets.append(gen_stream(rng, pkg=pkg, rep=2.5, phases_from=phases_from, thermal=thermal))
    if form == 'rview' and not any(isinstance(i, dict) and 'rview' in i for i in inlets): inlets.append({'rview': 0})
    return {'t': 'mix2', 'form': form, 'recv': recv, 'inlets': inlets, 'eb': eb}


def run_mix2(case, rec):
    recv = build_stream(case['recv'], PKGS)
    form = case['form']; eb = case['eb']
    objs = []
    for d in case['inlets']:
        if d == 'R': objs.append(recv)
        elif 'rview' in d: objs.append(recv[recv.phases[d['rview'] % len(recv.phases)]])
        else: objs.append(build_stream(d, PKGS))
    before = [ledger(o) for o in objs]
    expected = ledger_add(*before) if objs else {}
    foreign = any(o.chemicals is not recv.chemicals for o in objs)
    multi_recv = isinstance(recv, tmo.MultiStream)
    views = [o for o, d in zip(objs, case['inlets']) if isinstance(d, dict) and 'rview' in d]
    tag = form + '/' + ('multi' if multi_recv else 'single') + '-receiver/' + ('foreign' if foreign else 'same') + '-package' + ('/energy-balance' if eb else '')
    kw = {'energy_balance': eb}
    if form == 'conserve': kw['conserve_phases'] = True
    if form == 'vle': kw['vle'] = True
    n_nonempty = sum(1 for b in before if b)
    pbefore = [phase_ledger(o) for o in objs]
    try:
        recv.mix_from(objs, **kw)
    except Exception as e:
        # a solver only runs with at least two non-empty inlets (one is copied, none empties the receiver)
        if (form == 'vle' or eb) and not_material(e, rec, vle=form == 'vle', warranted=n_nonempty >= 2):
            after_failure(rec, 'mix', f'sum/{tag}', recv, expected, [(o, b) for o, b in zip(objs, pbefore) if o is not recv and not any(o is v for v in views)],
                          rel=1e-9 if form == 'vle' else 1e-12)
            rec.hit('mix:' + form)
            return
        rec.exception('mix', e, what=f'mix_from({len(objs)} inlets, {tag}) raised {type(e).__name__}: {str(e)[:150]}')
        return
    got = ledger(recv)
    rel = 1e-12      # vle: the liquid is total - vapour per chemical, observed 4e-16 over 3000 vle cases (was 1e-9)
    bad, worst = ledger_diff(got, expected, rel=rel)
    mech = tag + ('/receiver-among-inlets' if any(o is recv for o in objs) else '') + ('/single-nonempty-inlet' if n_nonempty == 1 else '')
    rec.check(not bad, 'mix', f'sum/{mech}', f'mix_from({form}): per-chemical totals differ from the sum of the inlets: {bad[:4]}', residual=worst, detail={'expected': expected, 'got': got})
    for o, b in zip(objs, before):
        if o is recv or any(o is v for v in views): continue
        bb, _ = ledger_diff(ledger(o), b, rel=0)
        rec.check(not bb, 'mix', f'inlet-changed/{tag}', f'mix_from changed an inlet: {bb[:3]}')
    check_inv(rec, [recv] + [o for o in objs if not any(o is v for v in views)], 'mix')
    rec.hit('mix:' + form)
    if form == 'vle' and n_nonempty >= 2: rec.hit('mix:vle/solver-ran/judged')
    if eb and n_nonempty >= 2: rec.hit(f'mix:{form}/energy-balance/solver-ran/judged')
    if form == 'conserve' and eb: rec.hit('mix:conserve/energy-balance')
    if n_nonempty >= 2 and nflowing(expected) >= 2: rec.mark_nontrivial(case_hash(case))


def gen_split2(rng):
    """multi-phase feed with outlets on a foreign superset package; single-phase feed with multi-phase outlets."""
    form = rng.choice(['multi-foreign', 'multi-foreign', 'single-to-multi'])
    eb = rng.random() < 0.5
    pkg = rng.choice([1, 2, 3, 4]) if form == 'multi-foreign' else rng.randrange(len(PKGS))
    n = len(PKGS[pkg])
    split = rng.choice([0.0, 1.0, 0.5, round(rng.random(), 3)]) if rng.random() < 0.3 else [rng.choice([0.0, 1.0, 0.25, round(rng.random(), 6)]) for _ in range(n)]
    if form == 'multi-foreign':
        phs = rng.sample(list(PHASES), rng.randrange(2, 4))
        feed = mstream(rng, pkg, phs, allzero=rng.random() < 0.05)
        cands = [k for k in range(len(PKGS)) if set(PKGS[pkg]) < set(PKGS[k])]
        outs = []
        for _ in range(2):
            r = rng.random(); opkg = rng.choice(cands) if r < 0.75 else pkg
            if rng.random() < 0.3: outs.append({'kind': 'S', 'pkg': opkg, 'phase': 'l', 'flows': [0.0] * len(PKGS[opkg])})
            else: outs.append(mstream(rng, opkg, phs, allzero=rng.random() < 0.5))
        if outs[0]['pkg'] == pkg and outs[1]['pkg'] == pkg: outs[0] = mstream(rng, cands[0], phs, allzero=True)
    else:
        feed = gen_stream(rng, pkg=pkg, kind='S', empty_p=0.05)
        ophs = [feed['phase']] + rng.sample([p for p in PHASES if p != feed['phase']], rng.randrange(1, 3))
        outs = [mstream(rng, pkg, ophs, allzero=rng.random() < 0.6), mstream(rng, pkg, ophs, allzero=rng.random() < 0.6) if rng.random() < 0.7 else gen_stream(rng, pkg=pkg, kind='S')]
        if rng.random() < 0.5: outs.reverse()
    return {'t': 'split2', 'form': form, 'feed': feed, 's1': outs[0], 's2': outs[1], 'split': split, 'eb': eb}


def run_split2(case, rec):
    feed = build_stream(case['feed'], PKGS); s1 = build_stream(case['s1'], PKGS); s2 = build_stream(case['s2'], PKGS)
    split = case['split']; form = case['form']
    cas = feed.chemicals.CASs
    sp_arr = np.array(split, dtype=float) if isinstance(split, list) else split
    fb = phase_ledger(feed); b1 = phase_ledger(s1); b2 = phase_ledger(s2)
    multi = isinstance(feed, tmo.MultiStream)
    foreign = s1.chemicals is not feed.chemicals or s2.chemicals is not feed.chemicals
    tag = form + ('/foreign-outlet' if foreign else '') + ('/energy-balance' if case['eb'] else '')
    try:
        feed.split_to(s1, s2, sp_arr, energy_balance=case['eb'])
    except ValueError as e:
        if form == 'single-to-multi' and not case['eb'] and 'read-only' in str(e):
            # the total flow of a multi-phase stream cannot be assigned: a single-phase split without energy balance refuses multi-phase outlets
            rec.refuse('single-phase split_to(energy_balance=False) into a multi-phase outlet: read-only total flow')
            unchanged(rec, 'split', tag, [(feed, fb)]); return
        rec.exception('split', e, what=f'split_to({tag}) raised {type(e).__name__}: {str(e)[:150]}'); return
    except Exception as e:
        rec.exception('split', e, what=f'split_to({tag}) raised {type(e).__name__}: {str(e)[:150]}'); return
    def sp_of(c):
        return split[cas.index(c)] if isinstance(split, list) else split
    e1 = {}; e2 = {}
    for (ph, c), v in fb.items():
        a = v * sp_of(c)
        e1[(ph, c)] = a; e2[(ph, c)] = v - a
    for name, s, e in (('s1', s1, e1), ('s2', s2, e2)):
        if isinstance(s, tmo.MultiStream) and multi:
            got = sled(phase_ledger(s)); exp = sled(e)
        else:
            got = ledger(s); exp = collapse(e)
        bad, worst = ledger_diff(got, exp, rel=1e-12, abs_=0.0)
        if bad:
            # rounding floor of the remainder: a few ulps of the feed of that chemical (see the first split clause)
            fc = {}
            for (ph_, c_), v_ in fb.items(): fc[c_] = fc.get(c_, 0.0) + abs(v_)
            bad = [(k_, x_, y_) for k_, x_, y_ in bad if not abs(x_ - y_) <= 1e-12 * max(abs(x_), abs(y_)) + 8 * 2.220446049250313e-16 * max([v_ for c_, v_ in fc.items() if c_ in str(k_)] + [0.0])]
        rec.check(not bad, 'split', f'{name}/{tag}', f'split_to: {name} differs from {"split*feed" if name == "s1" else "feed-split*feed"}: {bad[:4]}', residual=worst,
                  detail={'expected': exp, 'got': got})
    bb, _ = ledger_diff(sled(phase_ledger(feed)), sled(fb), rel=0)
    rec.check(not bb, 'split', f'feed-changed/{tag}', f'split_to changed the feed: {bb[:3]}')
    check_inv(rec, [feed, s1, s2], 'split')
    rec.hit('split:' + form)
    if multi and foreign: rec.hit('split:multi-phase/foreign-outlet')
    inside = (isinstance(split, list) and any(0 < x < 1 for x in split)) or (not isinstance(split, list) and 0 < split < 1)
    if inside and nflowing(collapse(fb)) >= 2: rec.mark_nontrivial(case_hash(case))


def gen_sum2(rng):
    """Stream.sum over 0-4 streams of any kind and phase; MultiStream.from_streams over single-phase streams of different phases."""
    pkg = rng.choice(FULL)
    if rng.random() < 0.3:
        phs = rng.sample(list(PHASES), rng.randrange(1, 5))
        return {'t': 'sum2', 'form': 'from_streams', 'pkg': pkg,
                'streams': [{'kind': 'S', 'pkg': pkg, 'phase': p, 'flows': [0.0] * len(PKGS[pkg]) if rng.random() < 0.15 else [gflow(rng, 1.5) for _ in PKGS[pkg]]} for p in phs]}
    n = rng.choice([0, 1, 2, 2, 3, 4])
    return {'t': 'sum2', 'form': 'sum', 'pkg': pkg, 'streams': [gen_stream(rng, pkg=pkg if rng.random() < 0.5 else None) for _ in range(n)]}


def run_sum2(case, rec):
    streams = [build_stream(d, PKGS) for d in case['streams']]
    before = [ledger(s) for s in streams]
    if case['form'] == 'from_streams':
        pb = {}
        for s in streams: pb.update(phase_ledger(s))
        try:
            new = tmo.MultiStream.from_streams(streams)
        except Exception as e:
            rec.exception('sum', e, what=f'MultiStream.from_streams raised {type(e).__name__}: {str(e)[:150]}'); return
        got = phase_ledger(new)
        bad, worst = ledger_diff(sled(got), sled(pb), rel=0)
        rec.check(not bad, 'sum', 'from_streams/per-phase', f'MultiStream.from_streams: content per phase differs from the streams given: {bad[:4]}', residual=worst)
        rec.check(set(new.phases) == {s.phase for s in streams}, 'sum', 'from_streams/phases', f'MultiStream.from_streams: phases {new.phases} from streams in {[s.phase for s in streams]}')
        check_inv(rec, [new] + streams, 'sum')
        rec.hit('sum:from_streams')
        if sum(1 for b in before if b) >= 2: rec.mark_nontrivial(case_hash(case))
        return
    try:
        new = tmo.Stream.sum(streams, None, thermo_of(PKGS[case['pkg']]), energy_balance=False)
    except Exception as e:
        rec.exception('sum', e, what=f'Stream.sum over {len(streams)} streams raised {type(e).__name__}: {str(e)[:150]}'); return
    bad, worst = ledger_diff(ledger(new), ledger_add(*before) if before else {}, rel=1e-12)
    foreign = any(s.chemicals is not new.chemicals for s in streams)
    multi = any(isinstance(s, tmo.MultiStream) for s in streams)
    rec.check(not bad, 'sum', ('no-streams' if not streams else ('multi-phase-inlets/' if multi else 'mixed-phases/') + ('foreign-package' if foreign else 'same-package')),
              f'Stream.sum differs from the sum of the streams: {bad[:4]}', residual=worst)
    for s, b in zip(streams, before):
        bb, _ = ledger_diff(ledger(s), b, rel=0)
        rec.check(not bb, 'sum', 'inlet-changed', f'Stream.sum changed one of the streams: {bb[:3]}')
    check_inv(rec, [new] + streams, 'sum')
    if not streams: rec.hit('sum:no-streams')
    if multi: rec.hit('sum:multi-phase-inlets')
    if sum(1 for b in before if b) >= 2: rec.mark_nontrivial(case_hash(case))


def gen_scale2(rng):
    return {'t': 'scale2', 's': gen_stream(rng, empty_p=0.05), 'k': rng.choice([1.0, 2.0, 0.5, round(10 ** rng.uniform(-3, 3), 6)]), 'how': rng.choice(['neg', 'itruediv', 'itruediv'])}


def run_scale2(case, rec):
    s = build_stream(case['s'], PKGS); k = case['k']; how = case['how']
    b = phase_ledger(s)
    try:
        if how == 'neg': r = -s
        else: r = s; r /= k
    except Exception as e:
        rec.exception('scale', e, what=f'{how}({k}) raised {type(e).__name__}: {str(e)[:150]}'); return
    exp = {kk: (-v if how == 'neg' else v / k) for kk, v in b.items()}
    exp = {kk: v for kk, v in exp.items() if v}
    got = phase_ledger(r)
    bad, worst = ledger_diff(sled(got), sled(exp), rel=1e-15)
    rec.check(not bad, 'scale', f'{how}/{"multi" if isinstance(s, tmo.MultiStream) else "single"}', f'{how} ({k}): flows are not k times the original: {bad[:4]}', residual=worst)
    if how == 'neg':
        bb, _ = ledger_diff(sled(phase_ledger(s)), sled(b), rel=0)
        rec.check(not bb and r is not s, 'scale', 'neg/operand-changed', '-s changed its operand')
    else:
        rec.check(r is s, 'scale', 'itruediv/identity', 's /= k rebinds s to another object')
    check_inv(rec, [s, r], 'scale')
    rec.hit('scale:' + how)
    if len(b) >= 2: rec.mark_nontrivial(case_hash(case))



# ---------------------------------------------------------------------------
# third generation: HISTORIES.  One subject stream lives through a sequence of steps; every operation of the property is judged at every step against a
# dense ledger of the subject's own flow data taken immediately before the call.  What the earlier generations never drew: the subject is operated on AFTER
# state derived from it was cached or handed out (its phase views ms[phase] / iteration, streams linked to a view or to the stream, proxy / flow_proxy,
# the streams a MultiStream was assembled from with from_streams, the mass-flow indexer) and AFTER it received new content through some other operation
# (copy_like, mix_from with exactly one non-empty inlet / several inlets / itself, copy_flow in either direction, separate_out, scale, being the outlet of
# a split, a phases extension, writes through a phase view).  The judged operations then go through that cached state: MultiStream.split_to (works
# through the views), a view / linked stream / proxy as an inlet of mix_from and Stream.sum, as the source of copy_flow(remove=True), as the feed of
# split_to, and as the receiver of mix_from / copy_flow / scale.  An inlet written ms[p] denotes the material of phase p of ms at the time of the call.

HSUBJ_PKGS = [0, 5, 0, 5, 3, 1]


def hmulti(s):
    return isinstance(s, tmo.MultiStream)


def hrow(l, ph):
    return {c: v for (p, c), v in l.items() if p == ph}


def hTP(rng, thermal):
    if not thermal: return 298.15, 101325.
    return round(rng.uniform(290, 380), 2), rng.choice([101325., 2e5, 5e4])


def gen_rel(rng, spkg, thermal, rels, own_pkg=False):
    """a stream described RELATIVE to the subject's phases at the time it is built: 'same' = multi-phase with exactly the subject's phases, 'subset' = a
    strict subset of them, 'S' = single-phase in one of them, 'empty' = no flow, 'own' = an independent stream (any phases, own or subset package)."""
    rel = rng.choice(rels)
    T, P = hTP(rng, thermal)
    subs = [k for k in range(len(PKGS)) if set(PKGS[k]) <= set(PKGS[spkg])]
    if rel == 'own':
        pkg = spkg if (own_pkg or rng.random() < 0.5) else rng.choice(subs)
        return {'rel': 'own', 'desc': gen_stream(rng, pkg=pkg, rep=2.5, phases_from='lg' if thermal else PHASES, thermal=thermal)}
    pkg = spkg if (own_pkg or rel == 'empty' or rng.random() < 0.7) else rng.choice(subs)
    n = len(PKGS[pkg])
    rows = [([0.0] * n if (rel == 'empty' or rng.random() < 0.15) else [gflow(rng, 2.5) for _ in range(n)]) for _ in range(5)]
    return {'rel': rel, 'pkg': pkg, 'rows': rows, 'k': rng.randrange(60), 'T': T, 'P': P}


def build_rel(d, subj):
    if d['rel'] == 'own': return build_stream(d['desc'], PKGS)
    th = thermo_of(PKGS[d['pkg']]); ids = th.chemicals.IDs
    phs = list(subj.phases); n = len(phs); k = d['k']; rel = d['rel']
    phs = phs[k % n:] + phs[:k % n]
    if rel == 'subset' and n > 1: phs = phs[:1 + (k // 5) % (n - 1)]
    if rel == 'S' or (rel == 'empty' and k % 2 == 0): phs = phs[:1]
    if len(phs) == 1:
        s = tmo.Stream(None, phase=phs[0], T=d['T'], P=d['P'], thermo=th)
        for i, v in zip(ids, d['rows'][0]):
            if v: s.imol[i] = v
    else:
        s = tmo.MultiStream(None, phases=tuple(phs), T=d['T'], P=d['P'], thermo=th)
        for ph, row in zip(phs, d['rows']):
            for i, v in zip(ids, row):
                if v: s.imol[ph, i] = v
    return s


def gen_hsplit(rng, spkg, multi):
    n = len(PKGS[spkg])
    split = rng.choice([0.0, 1.0, 0.5, round(rng.random(), 3)]) if rng.random() < 0.3 else [rng.choice([0.0, 1.0, 0.25, round(rng.random(), 6)]) for _ in range(n)]
    return {'op': 'split', 'split': split, 'eb': rng.random() < 0.6, 'outs': rng.choice(['keep', 'keep', 'keep', 'S', 'M'] if multi else ['keep', 'keep', 'S'])}


def gen_htouch(rng, spkg, multi):
    how = rng.choice(['views', 'views', 'iter', 'one-view', 'split', 'link', 'link', 'proxy', 'flow_proxy', 'imass'] if multi else ['link', 'link', 'proxy', 'flow_proxy', 'imass', 'split'])
    if how == 'split': return gen_hsplit(rng, spkg, multi)
    return {'op': 'touch', 'how': how, 'k': rng.randrange(60)}


def gen_hreceive(rng, spkg, thermal, multi):
    ops = ['copy_like'] * 6 + ['mix'] * 9 + ['copy_flow'] * 3 + ['drain', 'scale', 'set', 'phases'] + ['sep'] * 2 + ['outlet'] * 2 + (['view-write'] * 4 if multi else [])
    op = rng.choice(ops)
    n = len(PKGS[spkg])
    on = rng.random() < 0.2
    if op == 'phases' and thermal: op = 'scale'
    if op == 'copy_like':
        return {'op': op, 'other': gen_rel(rng, spkg, thermal, ['same', 'same', 'same', 'S', 'empty'] if on else ['same', 'same', 'same', 'subset', 'S', 'own', 'empty']), 'on': on}
    if op == 'mix':
        if rng.random() < 0.5:
            # exactly one inlet that may carry material, among empties
            inlets = [gen_rel(rng, spkg, thermal, ['same', 'same', 'same', 'S', 'subset'] if on else ['same', 'same', 'same', 'S', 'subset', 'own'])]
            for _ in range(rng.choice([0, 1, 1, 2])): inlets.insert(rng.randrange(len(inlets) + 1), gen_rel(rng, spkg, thermal, ['empty']))
        else:
            inlets = []
            for _ in range(rng.choice([2, 2, 3])):
                r = rng.random()
                if r < 0.15: inlets.append('R')
                elif r < 0.3 and multi: inlets.append({'view': rng.randrange(60)})
                else: inlets.append(gen_rel(rng, spkg, thermal, ['same', 'S', 'subset', 'empty'] if on else ['same', 'S', 'subset', 'own', 'own', 'empty']))
        return {'op': op, 'inlets': inlets, 'eb': thermal and not on and rng.random() < 0.7, 'on': on}
    if op == 'copy_flow':
        return {'op': op, 'other': gen_rel(rng, spkg, thermal, ['same', 'same', 'S'], own_pkg=True), 'remove': rng.random() < 0.7}
    if op == 'drain':
        return {'op': op, 'dst': gen_stream(rng, pkg=spkg, kind='S', thermal=thermal, phases_from='lg' if thermal else PHASES)}
    if op == 'scale':
        return {'op': op, 'k': rng.choice([0.0, 2.0, 0.5, round(10 ** rng.uniform(-2, 2), 6)]), 'how': rng.choice(['scale', 'imul']), 'on': on}
    if op == 'set':
        return {'op': op, 'rows': [[gflow(rng, 2.5) for _ in range(n)] for _ in range(5)]}
    if op == 'phases':
        return {'op': op, 'add': rng.choice(PHASES)}
    if op == 'sep':
        return {'op': op, 'frac': [rng.choice([0.0, 0.25, 0.5, 1.0, round(rng.random(), 3)]) for _ in range(5)], 'form': rng.choice(['M', 'M', 'S']), 'k': rng.randrange(60)}
    if op == 'outlet':
        sp = gen_hsplit(rng, spkg, multi)
        return {'op': op, 'feed': gen_rel(rng, spkg, thermal, ['same'], own_pkg=True), 'split': sp['split'], 'eb': sp['eb'], 'second': rng.random() < 0.5}
    how = rng.choice(['mix', 'mix', 'copy_flow', 'copy_flow', 'scale', 'copy_like', 'set', 'empty'])
    k = rng.randrange(60)
    x = gen_rel(rng, spkg, thermal, ['S']); y = gen_rel(rng, spkg, thermal, ['S'])
    if how == 'copy_like': x['k'] = k
    return {'op': 'view-write', 'how': how, 'k': k, 'alias': rng.random() < 0.3, 'x': x, 'y': y, 'kk': rng.choice([0.0, 2.0, 0.5, round(10 ** rng.uniform(-2, 2), 6)]),
            'row': [gflow(rng, 2.5) for _ in range(n)]}


def gen_hjudge(rng, spkg, thermal, multi):
    op = rng.choice(['split'] * 4 + ['via-mix'] * 3 + ['via-move', 'via-move', 'via-split', 'via-split', 'via-sum', 'mass'])
    if op == 'split': return gen_hsplit(rng, spkg, multi)
    alias = rng.random() < 0.4
    if op == 'via-mix':
        rpkg = rng.choice([k for k in range(len(PKGS)) if set(PKGS[spkg]) <= set(PKGS[k])])
        return {'op': op, 'via': [rng.randrange(60) for _ in range(rng.choice([1, 1, 2, 3]))], 'alias': alias, 'whole': rng.random() < 0.15,
                'others': [gen_rel(rng, spkg, thermal, ['own', 'S', 'empty']) for _ in range(rng.choice([0, 0, 1, 1, 2]))],
                'recv': gen_stream(rng, pkg=rpkg, rep=2.5, phases_from='lg' if thermal else PHASES, thermal=thermal), 'eb': thermal and rng.random() < 0.5}
    if op == 'via-move':
        return {'op': op, 'via': rng.randrange(60), 'alias': alias, 'dst': gen_stream(rng, pkg=spkg, kind='S', thermal=thermal, phases_from='lg' if thermal else PHASES)}
    if op == 'via-split':
        sp = gen_hsplit(rng, spkg, multi)
        return {'op': op, 'via': rng.randrange(60), 'alias': alias, 'split': sp['split'], 'eb': sp['eb']}
    if op == 'via-sum':
        return {'op': op, 'alias': alias, 'others': [gen_rel(rng, spkg, thermal, ['own', 'S']) for _ in range(rng.choice([0, 1, 1, 2]))]}
    return {'op': 'mass'}


def gen_hist(rng):
    thermal = rng.random() < 0.4
    spkg = rng.choice(HSUBJ_PKGS)
    multi = rng.random() < 0.78
    T, P = hTP(rng, thermal)
    if multi:
        phs = ['l', 'g'] if thermal else rng.sample(list(PHASES), rng.randrange(2, 4))
        subject = mstream(rng, spkg, phs, rep=2.5, zero_p=0.15)
        subject['T'] = T; subject['P'] = P
        made = rng.choice(['ctor', 'ctor', 'ctor', 'ctor', 'from_streams'])
    else:
        subject = gen_stream(rng, pkg=spkg, kind='S', rep=2.5, empty_p=0.05, phases_from='lg' if thermal else PHASES, thermal=thermal)
        made = 'ctor'
    steps = []
    for _ in range(rng.choice([1, 1, 2])):
        if rng.random() < 0.9: steps.append(gen_htouch(rng, spkg, multi))
        for _ in range(rng.choice([1, 1, 2])): steps.append(gen_hreceive(rng, spkg, thermal, multi))
        for _ in range(rng.choice([1, 2, 2])): steps.append(gen_hjudge(rng, spkg, thermal, multi))
    return {'t': 'hist', 'subject': subject, 'made': made, 'thermal': thermal, 'outs_kind': rng.choice('SM') if multi else 'S', 'steps': steps}


class HState:
    def __init__(self, case):
        d = case['subject']
        self.aliases = []         # {'kind', 'obj', 'phase' (None = the whole stream), 'phases_at', 'cls'}
        self.made = case['made']
        if case['made'] == 'from_streams':
            th = thermo_of(PKGS[d['pkg']]); ids = th.chemicals.IDs
            parts = []
            for ph in d['phases']:
                s = tmo.Stream(None, phase=ph, T=d['T'], P=d['P'], thermo=th)
                for i, v in zip(ids, d['flows'][ph]):
                    if v: s.imol[i] = v
                parts.append(s)
            self.subj = tmo.MultiStream.from_streams(parts)
            for s in parts:
                self.aliases.append({'kind': 'given', 'obj': s, 'phase': s.phase, 'phases_at': tuple(self.subj.phases), 'cls': type(self.subj)})
        else:
            self.subj = build_stream(d, PKGS)
        self.last = 'construction'
        self.outs = None
        self.outs_kind = case['outs_kind']
        self.thermal = case['thermal']
        self.received = False
        self.judged = 0
        self.views = case['made'] == 'from_streams'      # phase views of the subject exist (cached on it)
        self.warrant = None                              # why the step that runs may rebuild the subject on other phases / as another class (None: it may not)
        self.core = False                                # ... and it has since received the content of a multi-phase stream with its own package and phases

    def note_source(self, other, only):
        s = self.subj
        if only and self.views and hmulti(s) and hmulti(other) and other.chemicals is s.chemicals and tuple(other.phases) == tuple(s.phases): self.core = True

    def judged_through_views(self, rec):
        if self.core: rec.hit('hist:views-cached/received-from-same-phases-stream/judged-through-views')

    def ctx(self):
        return ('multi' if hmulti(self.subj) else 'single') + '-subject/after-' + self.last

    def shape(self):
        return tuple(self.subj.phases), type(self.subj)

    def live(self):
        """the hand-outs that stand for the subject as it is now"""
        sh = self.shape()
        return [a for a in self.aliases if (a['phases_at'], a['cls']) == sh]

    def may_rebuild(self, other_streams, why):
        """called by a receiving step BEFORE its call: the step is entitled to rebuild the subject on other phases only if the harness can see why from the
        inputs: a stream copied from / mixed in whose kind or phases are not the subject's"""
        s = self.subj
        for o in other_streams:
            if hmulti(o) != hmulti(s) or not set(o.phases) <= set(s.phases) or (why == 'copy_like' and tuple(o.phases) != tuple(s.phases)):
                self.warrant = why; return

    def after_step(self, step, before, live_before, rec):
        """a hand-out (linked stream, proxy, view, given stream) is void once the subject was rebuilt on other phases / as another class: what used to be
        dropped silently in valid().  Only a step whose INPUTS call for that may do it (phases=, copy_like / mix_from of a stream of another kind or with
        other phases); any other change of the phase tuple or class while hand-outs are live - in particular
        the same phases in another order - silently takes the views / linked streams out of every later judgement and is reported."""
        now = self.shape()
        if now == before: return
        rec.hit('hist:subject-rebuilt')
        if not live_before: return
        reordered = set(now[0]) == set(before[0]) and now[1] is before[1]
        ok = self.warrant is not None and not reordered
        rec.check(ok, 'history', f'alias-voided-unexpectedly/{step["op"]}' + ('/' + step['how'] if step['op'] in ('touch', 'view-write') else '') + ('/same-phases-reordered' if reordered else ''),
                  f'step {step["op"]} changed the phases / class of the stream from {before[0]} {before[1].__name__} to {now[0]} {now[1].__name__} although nothing in its inputs calls for it: '
                  f'{len(live_before)} handed-out views / linked streams / proxies no longer stand for the stream')
        if ok: rec.hit('hist:aliases-voided/warranted:' + self.warrant)

    def valid(self, whole=None, phase=None):
        s = self.subj
        out = []
        for a in self.aliases:
            if a['phases_at'] != tuple(s.phases) or a['cls'] is not type(s): continue     # the stream was rebuilt on other phases since: the hand-out is void
            if whole is True and a['phase'] is not None: continue
            if whole is False and a['phase'] is None: continue
            if phase is not None and a['phase'] != phase: continue
            out.append(a)
        return out

    def target(self, step):
        """the object a receiving call is made on: the subject, or (on=True) something that stands for the whole of it"""
        if step.get('on'):
            c = self.valid(whole=True)
            if c: return c[-1]['obj'], c[-1]['kind']
        return self.subj, 'self'

    def via(self, k, want_alias, rec):
        """(object, phase ledger it stands for keyed (phase, CAS), label): a phase view of the subject, something linked to it, or the subject itself if single-phase"""
        s = self.subj
        t = phase_ledger(s)
        if hmulti(s):
            p = s.phases[k % len(s.phases)]
            if want_alias:
                c = self.valid(whole=False, phase=p)
                if c:
                    rec.hit('hist:via-' + c[k % len(c)]['kind'])
                    return c[k % len(c)]['obj'], {kk: v for kk, v in t.items() if kk[0] == p}, c[k % len(c)]['kind']
            rec.hit('hist:via-view')
            self.views = True
            return s[p], {kk: v for kk, v in t.items() if kk[0] == p}, 'view'
        if want_alias:
            c = self.valid(whole=True)
            if c:
                rec.hit('hist:via-' + c[k % len(c)]['kind'])
                return c[k % len(c)]['obj'], t, c[k % len(c)]['kind']
        return s, t, 'self'


def h_touch(step, st, rec):
    s = st.subj; how = step['how']; k = step['k']; multi = hmulti(s)
    if how == 'proxy' and st.made == 'from_streams': how = 'flow_proxy'       # a stream assembled by from_streams carries no equations attribute for proxy()
    if not multi and how in ('views', 'iter', 'one-view'): how = 'link'
    try:
        if how == 'views': [s[p] for p in s.phases]; st.views = True
        elif how == 'iter': list(s); st.views = True
        elif how == 'one-view': s[s.phases[k % len(s.phases)]]; st.views = True
        elif how == 'link':
            l = tmo.Stream(None, thermo=s.thermo)
            if multi:
                p = s.phases[k % len(s.phases)]
                l.link_with(s[p]); st.views = True
            else:
                p = None
                l.link_with(s)
            st.aliases.append({'kind': 'linked', 'obj': l, 'phase': p, 'phases_at': tuple(s.phases), 'cls': type(s)})
        elif how == 'proxy':
            st.aliases.append({'kind': 'proxy', 'obj': s.proxy(), 'phase': None, 'phases_at': tuple(s.phases), 'cls': type(s)})
        elif how == 'flow_proxy':
            st.aliases.append({'kind': 'flow_proxy', 'obj': s.flow_proxy(), 'phase': None, 'phases_at': tuple(s.phases), 'cls': type(s)})
        else:
            s.imass; s.mass
    except Exception as e:
        rec.exception('history', e, what=f'{how} on a {"multi" if multi else "single"}-phase stream raised {type(e).__name__}: {str(e)[:150]}'); return False
    rec.hit('hist:touch/' + how)


def h_copy_like(step, st, rec):
    tgt, tk = st.target(step)
    other = build_rel(step['other'], st.subj)
    lo = phase_ledger(other)
    st.may_rebuild([other], 'copy_like')
    try:
        tgt.copy_like(other)
    except Exception as e:
        rec.exception('history', e, what=f'copy_like ({st.ctx()}, on {tk}) raised {type(e).__name__}: {str(e)[:150]}'); return False
    bb, _ = ledger_diff(sled(phase_ledger(other)), sled(lo), rel=0)
    rec.check(not bb, 'mix', f'history/inlet-changed/copy_like/{st.ctx()}', f'copy_like changed the stream copied from: {bb[:3]}')
    st.note_source(other, True)
    st.last = 'copy_like' + ('' if tk == 'self' else '-on-' + tk); st.received = True
    rec.hit('hist:receive/copy_like')
    if tk != 'self': rec.hit('hist:receive-on-alias')


def h_mix(step, st, rec):
    s = st.subj
    tgt, tk = st.target(step)
    t0 = phase_ledger(s)
    objs = []; exp = []; free = []
    for d in step['inlets']:
        if d == 'R': objs.append(tgt); exp.append(collapse(t0))
        elif 'view' in d:
            if not hmulti(s): continue
            p = s.phases[d['view'] % len(s.phases)]
            objs.append(s[p]); exp.append(hrow(t0, p))
        else:
            o = build_rel(d, s); objs.append(o); exp.append(ledger(o)); free.append((o, phase_ledger(o)))
    expected = ledger_add(*exp) if exp else {}
    n_nonempty = sum(1 for e in exp if e)
    eb = step['eb'] and tk == 'self'
    mech = f'{st.ctx()}' + ('/on-' + tk if tk != 'self' else '') + ('/energy-balance' if eb else '') + ('/single-nonempty-inlet' if n_nonempty == 1 else '')
    st.may_rebuild([o for o, _ in free], 'mix')
    try:
        tgt.mix_from(objs, energy_balance=eb)
    except Exception as e:
        if eb and not_material(e, rec, warranted=n_nonempty >= 2):
            after_failure(rec, 'mix', f'history/sum/{mech}', s, expected, free)
            return False
        rec.exception('mix', e, what=f'mix_from({len(objs)} inlets; history: {mech}) raised {type(e).__name__}: {str(e)[:150]}'); return False
    got = ledger(s)
    bad, worst = ledger_diff(got, expected, rel=1e-12)
    rec.check(not bad, 'mix', f'history/sum/{mech}', f'mix_from in a history ({mech}): per-chemical totals of the receiver differ from the sum of the inlets: {bad[:4]}', residual=worst,
              detail={'expected': expected, 'got': got})
    for o, b in free:
        bb, _ = ledger_diff(sled(phase_ledger(o)), sled(b), rel=0)
        rec.check(not bb, 'mix', f'history/inlet-changed/{st.ctx()}', f'mix_from changed an inlet: {bb[:3]}')
    check_inv(rec, [s] + [o for o, _ in free], 'mix')
    for o, b in free:
        if b: st.note_source(o, n_nonempty == 1 and eb)
    st.last = ('mix-single-nonempty-inlet' if n_nonempty == 1 else 'mix') + ('' if tk == 'self' else '-on-' + tk); st.received = True
    rec.hit('hist:receive/mix')
    if eb and n_nonempty >= 2: rec.hit('hist:receive/mix/energy-balance/solver-ran/judged')
    if n_nonempty == 1 and eb: rec.hit('hist:receive/mix-single-nonempty-inlet/energy-balance')
    if tk != 'self': rec.hit('hist:receive-on-alias')


def h_copy_flow(step, st, rec):
    """the whole of another stream (same package; the subject's phases or one of them) is copied / moved into the subject"""
    s = st.subj
    other = build_rel(step['other'], s)
    ob, sb = phase_ledger(other), phase_ledger(s)
    remove = step['remove']
    tag = f'{st.ctx()}/' + ('multi' if hmulti(other) else 'single') + '-source'
    try:
        s.copy_flow(other, remove=remove)
    except Exception as e:
        rec.exception('move', e, what=f'copy_flow(remove={remove}; history: {tag}) raised {type(e).__name__}: {str(e)[:150]}'); return False
    sa, oa = phase_ledger(s), phase_ledger(other)
    if remove:
        if hmulti(s): bad, _ = ledger_diff(sled(sa), sled(ob), rel=0)
        else: bad, _ = ledger_diff(collapse(sa), collapse(ob), rel=1e-12)
        rec.check(not bad and not oa, 'move', f'history/whole-stream-into-subject/{tag}', f'copy_flow(other, remove=True) in a history: the subject does not hold exactly what the source held, or the source is not empty: {bad[:4]} source after: {sled(oa)}',
                  detail={'src_before': sled(ob), 'dst_before': sled(sb), 'src_after': sled(oa), 'dst_after': sled(sa)})
        rec.hit('hist:receive/move')
    check_inv(rec, [s, other], 'move')
    st.last = 'copy_flow'; st.received = True
    rec.hit('hist:receive/copy_flow')


def h_drain(step, st, rec):
    """the subject is the SOURCE of a move: everything goes to a single-phase destination of the same package"""
    s = st.subj
    dst = build_stream(step['dst'], PKGS)
    sb = phase_ledger(s)
    try:
        dst.copy_flow(s, remove=True)
    except Exception as e:
        rec.exception('move', e, what=f'copy_flow(subject, remove=True) ({st.ctx()}) raised {type(e).__name__}: {str(e)[:150]}'); return False
    sa = phase_ledger(s)
    bad, _ = ledger_diff(ledger(dst), collapse(sb), rel=1e-12)
    rec.check(not bad and not sa, 'move', f'history/subject-drained/{st.ctx()}', f'dst.copy_flow(subject, remove=True): destination differs from what the subject held, or the subject is not empty: {bad[:4]}; left: {sled(sa)}')
    check_inv(rec, [s, dst], 'move')
    st.last = 'drain'; st.received = True
    rec.hit('hist:receive/drain')


def h_scale(step, st, rec):
    s = st.subj
    tgt, tk = st.target(step)
    b = phase_ledger(s); k = step['k']
    try:
        if step['how'] == 'scale': tgt.scale(k)
        else: tgt *= k
    except Exception as e:
        rec.exception('scale', e, what=f'{step["how"]}({k}) ({st.ctx()}) raised {type(e).__name__}: {str(e)[:150]}'); return False
    exp = {kk: v * k for kk, v in b.items() if v * k}
    bad, worst = ledger_diff(sled(phase_ledger(s)), sled(exp), rel=1e-15)
    rec.check(not bad, 'scale', f'history/{step["how"]}/{st.ctx()}' + ('/on-' + tk if tk != 'self' else ''), f'{step["how"]} by {k} in a history: flows are not k times the original: {bad[:4]}', residual=worst)
    check_inv(rec, [s], 'scale')
    st.last = 'scale' + ('' if tk == 'self' else '-on-' + tk); st.received = True
    rec.hit('hist:receive/scale')
    if tk != 'self': rec.hit('hist:receive-on-alias')


def h_set(step, st, rec):
    s = st.subj
    ids = s.chemicals.IDs
    try:
        s.empty()
        if hmulti(s):
            for ph, row in zip(s.phases, step['rows']):
                for i, v in zip(ids, row):
                    if v: s.imol[ph, i] = v
        else:
            for i, v in zip(ids, step['rows'][0]):
                if v: s.imol[i] = v
    except Exception as e:
        rec.exception('history', e, what=f'empty() and imol assignments ({st.ctx()}) raised {type(e).__name__}: {str(e)[:150]}'); return False
    st.last = 'set'; st.received = True
    rec.hit('hist:receive/set')


def h_phases(step, st, rec):
    s = st.subj
    st.warrant = 'phases'
    try:
        s.phases = tuple(s.phases) + (step['add'],)
    except Exception as e:
        rec.exception('history', e, what=f'phases extension ({st.ctx()}) raised {type(e).__name__}: {str(e)[:150]}'); return False
    st.last = 'phases'; st.received = True
    rec.hit('hist:receive/phases')


def h_sep(step, st, rec):
    """a part of what the subject holds (a fraction of every phase, or of one phase) is built as a stream of its own and separated out"""
    s = st.subj
    t0 = phase_ledger(s)
    if not t0: rec.refuse('history: nothing to separate out of an empty subject'); return
    cas = list(s.chemicals.CASs); ids = s.chemicals.IDs
    phs = list(s.phases)
    if step['form'] == 'S' or not hmulti(s):
        p = phs[step['k'] % len(phs)]
        part = tmo.Stream(None, phase=p, thermo=s.thermo)
        f = step['frac'][0]
        for (ph, c), v in t0.items():
            if ph == p and v * f: part.imol[ids[cas.index(c)]] = v * f
    else:
        part = tmo.MultiStream(None, phases=tuple(phs), thermo=s.thermo)
        for (ph, c), v in t0.items():
            f = step['frac'][phs.index(ph) % 5]
            if v * f: part.imol[ph, ids[cas.index(c)]] = v * f
    lp = phase_ledger(part)
    tag = f'{st.ctx()}/' + ('multi' if hmulti(part) else 'single') + '-phase-other'
    try:
        s.separate_out(part, energy_balance=False)
    except Exception as e:
        rec.exception('separate', e, what=f'separate_out (history: {tag}) raised {type(e).__name__}: {str(e)[:150]}'); return False
    if hmulti(s):
        exp = {kk: v - lp.get(kk, 0.0) for kk, v in t0.items()}
        weight = {kk: abs(v) + abs(lp.get(kk, 0.0)) for kk, v in t0.items()}
        got = phase_ledger(s)
    else:
        lpc = collapse(lp)
        exp = {kk: v - lpc.get(kk[1], 0.0) for kk, v in t0.items()}
        weight = {kk: abs(v) + abs(lpc.get(kk[1], 0.0)) for kk, v in t0.items()}
        got = phase_ledger(s)
    exp = {kk: v for kk, v in exp.items() if v}
    bad, worst = sep_diff(got, exp, weight)        # per entry, relative to |subject| + |part| of that entry
    rec.check(not bad, 'separate', f'history/remainder/{tag}', f'separate_out in a history: the remainder differs from subject - part: {bad[:4]}', residual=worst,
              detail={'subject': sled(t0), 'part': sled(lp), 'got': sled(got)})
    bb, _ = ledger_diff(sled(phase_ledger(part)), sled(lp), rel=0)
    rec.check(not bb, 'separate', f'history/other-changed/{tag}', 'separate_out changed the stream that was separated out')
    # tiny negative residues of v - v*f are emptied so that the history goes on inside the quantifier (non-negative flows)
    if any(v < 0 for v in got.values()): s.empty_negative_flows() if hasattr(s, 'empty_negative_flows') else None
    st.last = 'separate_out'; st.received = True
    rec.hit('hist:receive/sep')


def hsplit_judge(rec, feed, fb, s1, s2, split, eb, mech, st=None, outlet_only=None):
    """feed.split_to(s1, s2, split): fb is the phase ledger (phase, CAS) the feed stands for"""
    cas = list(feed.chemicals.CASs)
    sp_arr = np.array(split, dtype=float) if isinstance(split, list) else split
    multi = hmulti(feed)
    try:
        feed.split_to(s1, s2, sp_arr, energy_balance=eb)
    except ValueError as e:
        if not multi and not eb and (hmulti(s1) or hmulti(s2)) and 'read-only' in str(e):
            rec.refuse('single-phase split_to(energy_balance=False) into a multi-phase outlet: read-only total flow'); return None
        rec.exception('split', e, what=f'split_to (history: {mech}) raised {type(e).__name__}: {str(e)[:150]}'); return False
    except Exception as e:
        rec.exception('split', e, what=f'split_to (history: {mech}) raised {type(e).__name__}: {str(e)[:150]}'); return False
    def sp_of(c):
        return split[cas.index(c)] if isinstance(split, list) else split
    e1 = {}; e2 = {}
    for (ph, c), v in fb.items():
        a = v * sp_of(c)
        e1[(ph, c)] = a; e2[(ph, c)] = v - a
    fc = {}
    for (ph_, c_), v_ in fb.items(): fc[c_] = fc.get(c_, 0.0) + abs(v_)
    for name, s, e in (('s1', s1, e1), ('s2', s2, e2)):
        if hmulti(s) and multi:
            got = sled(phase_ledger(s)); exp = sled(e)
        else:
            got = ledger(s); exp = collapse(e)
        bad, worst = ledger_diff(got, exp, rel=1e-12, abs_=0.0)
        if bad:
            # rounding floor of the remainder: a few ulps of the feed of that chemical (see the first split clause)
            bad = [(k_, x_, y_) for k_, x_, y_ in bad if not abs(x_ - y_) <= 1e-12 * max(abs(x_), abs(y_)) + 8 * 2.220446049250313e-16 * max([v_ for c_, v_ in fc.items() if c_ in str(k_)] + [0.0])]
        rec.check(not bad, 'split', f'history/{name}/{mech}', f'split_to in a history ({mech}): {name} differs from {"split*feed" if name == "s1" else "feed-split*feed"}: {bad[:4]}', residual=worst,
                  detail={'feed': sled(fb), 'expected': exp, 'got': got})
    return True


def h_outs(step, st):
    s = st.subj
    def fresh(kind):
        if kind == 'M' and hmulti(s): return tmo.MultiStream(None, phases=tuple(s.phases), thermo=s.thermo)
        return tmo.Stream(None, phase=s.phases[0], thermo=s.thermo)
    if step['outs'] == 'keep':
        # kept outlets may hold stale content only in phases of the feed (ASSUMPTIONS): a subject rebuilt on other phases gets new ones
        if st.outs is not None and not all(set(o.phases) <= set(s.phases) for o in st.outs): st.outs = None
        if st.outs is None: st.outs = (fresh(st.outs_kind), fresh(st.outs_kind))
        return st.outs
    return fresh(step['outs']), fresh(step['outs'])


def h_split(step, st, rec):
    s = st.subj
    fb = phase_ledger(s)
    s1, s2 = h_outs(step, st)
    mech = f'{st.ctx()}/' + ('kept' if step['outs'] == 'keep' else 'fresh') + '-outlets' + ('/energy-balance' if step['eb'] else '')
    r = hsplit_judge(rec, s, fb, s1, s2, step['split'], step['eb'], mech)
    if r is False: return False
    bb, _ = ledger_diff(sled(phase_ledger(s)), sled(fb), rel=0)
    rec.check(not bb, 'split', f'history/feed-changed/{st.ctx()}', f'split_to changed the feed: {bb[:3]}')
    check_inv(rec, [s, s1, s2], 'split')
    if r:
        rec.hit('hist:judge/split')
        if st.received: rec.hit('hist:judge-after-receive/split'); st.judged += 1
        if hmulti(s) and (step['eb'] or hmulti(s1) or hmulti(s2)):
            st.judged_through_views(rec)
            rec.hit('hist:touch/split'); st.views = True      # MultiStream.split_to itself goes through (and caches) the phase views


def h_outlet(step, st, rec):
    """the subject is an OUTLET of the split of another stream with the subject's phases and package"""
    s = st.subj
    feed = build_rel(step['feed'], s)
    fb = phase_ledger(feed)
    other = tmo.MultiStream(None, phases=tuple(s.phases), thermo=s.thermo) if (hmulti(s) and step['second']) else tmo.Stream(None, phase=s.phases[0], thermo=s.thermo)
    first = not step['second']
    s1, s2 = (s, other) if first else (other, s)
    mech = f'{st.ctx()}/subject-is-' + ('s1' if first else 's2') + ('/energy-balance' if step['eb'] else '')
    r = hsplit_judge(rec, feed, fb, s1, s2, step['split'], step['eb'], mech)
    if r is False: return False
    bb, _ = ledger_diff(sled(phase_ledger(feed)), sled(fb), rel=0)
    rec.check(not bb, 'split', f'history/feed-changed/{st.ctx()}', f'split_to changed the feed: {bb[:3]}')
    check_inv(rec, [s, feed, other], 'split')
    if r:
        st.last = 'being-split-outlet'; st.received = True
        rec.hit('hist:receive/outlet')


def h_view_write(step, st, rec):
    s = st.subj
    if not hmulti(s): return
    how = step['how']; k = step['k']
    p = s.phases[k % len(s.phases)]
    v, _, vk = st.via(k, step['alias'], rec)
    t0 = phase_ledger(s)
    rest0 = {kk: x for kk, x in t0.items() if kk[0] != p}
    dx, dy = step['x'], step['y']
    if st.made == 'from_streams':
        # the views of a stream assembled by from_streams are the caller's own streams, whose phase label is not locked: a single-phase receiver takes over the
        # phase of its inlets when they agree, so the inlets written through such a view are kept in the view's own phase (labels are not C01's concern)
        dx = dict(dx, k=k); dy = dict(dy, k=k)
    x = build_rel(dx, s); y = build_rel(dy, s)
    lx, ly = ledger(x), ledger(y)
    tag = f'{how}/{st.ctx()}/through-{vk}'
    try:
        if how == 'mix': v.mix_from([x, y], energy_balance=False); exp = ledger_add(lx, ly); clause = 'mix'; rel = 1e-12
        elif how == 'copy_flow': v.copy_flow(x, remove=True); exp = lx; clause = 'move'; rel = 1e-12
        elif how == 'scale': v.scale(step['kk']); exp = {c: q * step['kk'] for c, q in hrow(t0, p).items() if q * step['kk']}; clause = 'scale'; rel = 1e-15
        elif how == 'copy_like': v.copy_like(x); exp = None
        elif how == 'empty': v.empty(); exp = None
        else:
            for i, q in zip(s.chemicals.IDs, step['row']): v.imol[i] = q
            exp = None
    except Exception as e:
        rec.exception('history' if how in ('copy_like', 'empty', 'set') else {'mix': 'mix', 'copy_flow': 'move', 'scale': 'scale'}[how], e,
                      what=f'{how} on a phase view of the subject ({tag}) raised {type(e).__name__}: {str(e)[:150]}'); return False
    t1 = phase_ledger(s)
    if exp is not None:
        bad, worst = ledger_diff(hrow(t1, p), exp, rel=rel)
        ok = not bad and (how != 'copy_flow' or not ledger(x))
        rec.check(ok, clause, f'history/view-write/{tag}', f'{how} made on {vk} of phase {p!r} of a multi-phase stream: that phase of the stream does not hold the result: {bad[:4]}', residual=worst,
                  detail={'expected': exp, 'got': hrow(t1, p)})
        rec.hit('hist:receive/view-write-judged')
    bb, _ = ledger_diff(sled({kk: q for kk, q in t1.items() if kk[0] != p}), sled(rest0), rel=0)
    rec.check(not bb, {'mix': 'mix', 'copy_flow': 'move', 'scale': 'scale'}.get(how, 'mix'), f'history/view-write-other-phases/{tag}', f'{how} on the view of phase {p!r} changed other phases of the stream: {bb[:3]}')
    check_inv(rec, [s, x, y], 'mix')
    st.last = 'view-' + how; st.received = True
    rec.hit('hist:receive/view-write')


def h_via_mix(step, st, rec):
    s = st.subj
    t0 = phase_ledger(s)
    recv = build_stream(step['recv'], PKGS)
    objs = []; exp = []; kinds = []; free = []
    if step['whole']:
        c = st.valid(whole=True) if step['alias'] else []
        if c: objs.append(c[0]['obj']); kinds.append(c[0]['kind']); rec.hit('hist:via-' + c[0]['kind'])
        else: objs.append(s); kinds.append('self')
        exp.append(collapse(t0))
    else:
        seen = set()
        for k in step['via']:
            o, l, kind = st.via(k, step['alias'], rec)
            if id(o) in seen: continue
            seen.add(id(o)); objs.append(o); exp.append(collapse(l)); kinds.append(kind)
    for d in step['others']:
        o = build_rel(d, s); objs.append(o); exp.append(ledger(o)); free.append((o, phase_ledger(o)))
    expected = ledger_add(*exp)
    eb = step['eb']
    n_nonempty = sum(1 for e in exp if e)
    mech = f'{st.ctx()}/inlet-' + '+'.join(sorted(set(kinds))) + ('/energy-balance' if eb else '') + ('/single-nonempty-inlet' if n_nonempty == 1 else '')
    try:
        recv.mix_from(objs, energy_balance=eb)
    except Exception as e:
        if eb and not_material(e, rec, warranted=n_nonempty >= 2):
            after_failure(rec, 'mix', f'history/sum-of-handed-out-inlets/{mech}', recv, expected, [(s, t0)] + free)
            return False
        rec.exception('mix', e, what=f'mix_from (history: {mech}) raised {type(e).__name__}: {str(e)[:150]}'); return False
    got = ledger(recv)
    bad, worst = ledger_diff(got, expected, rel=1e-12)
    rec.check(not bad, 'mix', f'history/sum-of-handed-out-inlets/{mech}', f'mix_from with phase views / linked streams of a stream with a history as inlets ({mech}): totals differ from the sum of what the inlets stand for: {bad[:4]}',
              residual=worst, detail={'expected': expected, 'got': got, 'subject': sled(t0)})
    bb, _ = ledger_diff(sled(phase_ledger(s)), sled(t0), rel=0)
    rec.check(not bb, 'mix', f'history/inlet-changed/{st.ctx()}', f'mix_from changed the stream whose views were inlets: {bb[:3]}')
    for o, b in free:
        bb, _ = ledger_diff(sled(phase_ledger(o)), sled(b), rel=0)
        rec.check(not bb, 'mix', f'history/inlet-changed/{st.ctx()}', f'mix_from changed an inlet: {bb[:3]}')
    check_inv(rec, [recv, s], 'mix')
    rec.hit('hist:judge/via-mix')
    if eb and n_nonempty >= 2: rec.hit('hist:judge/via-mix/energy-balance/solver-ran/judged')
    if st.received: rec.hit('hist:judge-after-receive/via-mix'); st.judged += 1
    if hmulti(s): st.judged_through_views(rec)


def h_via_move(step, st, rec):
    s = st.subj
    t0 = phase_ledger(s)
    src, l, kind = st.via(step['via'], step['alias'], rec)
    dst = build_stream(step['dst'], PKGS)
    mech = f'{st.ctx()}/source-{kind}'
    try:
        dst.copy_flow(src, remove=True)
    except Exception as e:
        rec.exception('move', e, what=f'copy_flow(remove=True) from a {kind} (history: {mech}) raised {type(e).__name__}: {str(e)[:150]}'); return False
    t1 = phase_ledger(s)
    bad, _ = ledger_diff(ledger(dst), collapse(l), rel=1e-12)
    left = {kk: v for kk, v in t1.items() if kk in l}
    rest_b, _ = ledger_diff(sled({kk: v for kk, v in t1.items() if kk not in l}), sled({kk: v for kk, v in t0.items() if kk not in l}), rel=0)
    rec.check(not bad and not left and not rest_b, 'move', f'history/from-handed-out-source/{mech}',
              f'dst.copy_flow(x, remove=True) with x a {kind} of a stream with a history: destination differs from what x stands for {bad[:4]}, or that material is still in the stream {sled(left)}, or other phases changed {rest_b[:3]}',
              detail={'subject_before': sled(t0), 'subject_after': sled(t1), 'dst_after': ledger(dst)})
    check_inv(rec, [s, dst], 'move')
    rec.hit('hist:judge/via-move')
    if st.received: rec.hit('hist:judge-after-receive/via-move'); st.judged += 1
    if hmulti(s): st.judged_through_views(rec)
    st.last = 'moved-out-through-' + kind; st.received = True


def h_via_split(step, st, rec):
    s = st.subj
    t0 = phase_ledger(s)
    feed, l, kind = st.via(step['via'], step['alias'], rec)
    a = tmo.Stream(None, phase=s.phases[0], thermo=s.thermo); b = tmo.Stream(None, phase=s.phases[0], thermo=s.thermo)
    mech = f'{st.ctx()}/feed-{kind}' + ('/energy-balance' if step['eb'] else '')
    r = hsplit_judge(rec, feed, l, a, b, step['split'], step['eb'], mech)
    if r is False: return False
    bb, _ = ledger_diff(sled(phase_ledger(s)), sled(t0), rel=0)
    rec.check(not bb, 'split', f'history/feed-changed/{st.ctx()}', f'split_to of a {kind} changed the stream: {bb[:3]}')
    check_inv(rec, [s, a, b], 'split')
    if r:
        rec.hit('hist:judge/via-split')
        if st.received: rec.hit('hist:judge-after-receive/via-split'); st.judged += 1
        if hmulti(s): st.judged_through_views(rec)


def h_via_sum(step, st, rec):
    s = st.subj
    t0 = phase_ledger(s)
    objs = []; exp = []; kinds = []
    if hmulti(s):
        for k in range(len(s.phases)):
            o, l, kind = st.via(k, step['alias'], rec)
            objs.append(o); exp.append(collapse(l)); kinds.append(kind)
    else:
        o, l, kind = st.via(0, step['alias'], rec)
        objs.append(o); exp.append(collapse(l)); kinds.append(kind)
    for d in step['others']:
        o = build_rel(d, s); objs.append(o); exp.append(ledger(o))
    mech = f'{st.ctx()}/' + '+'.join(sorted(set(kinds)))
    try:
        new = tmo.Stream.sum(objs, None, s.thermo, energy_balance=False)
    except Exception as e:
        rec.exception('sum', e, what=f'Stream.sum (history: {mech}) raised {type(e).__name__}: {str(e)[:150]}'); return False
    bad, worst = ledger_diff(ledger(new), ledger_add(*exp), rel=1e-12)
    rec.check(not bad, 'sum', f'history/handed-out-streams/{mech}', f'Stream.sum over the phase views / linked streams of a stream with a history ({mech}) differs from the sum of what they stand for: {bad[:4]}', residual=worst)
    bb, _ = ledger_diff(sled(phase_ledger(s)), sled(t0), rel=0)
    rec.check(not bb, 'sum', f'history/inlet-changed', f'Stream.sum changed the stream whose views were summed: {bb[:3]}')
    check_inv(rec, [new, s], 'sum')
    rec.hit('hist:judge/via-sum')
    if st.received: rec.hit('hist:judge-after-receive/via-sum'); st.judged += 1
    if hmulti(s): st.judged_through_views(rec)


def h_mass(step, st, rec):
    """the flows read in mass units (the mass indexer is cached on the molar one and refers to its data) are the molar flows times MW"""
    s = st.subj
    t0 = phase_ledger(s)
    MW = s.chemicals.MW; cas = s.chemicals.CASs
    try:
        arr = np.asarray(s.imass.data.to_array(), dtype=float)
    except Exception as e:
        rec.exception('history', e, what=f'reading imass ({st.ctx()}) raised {type(e).__name__}: {str(e)[:150]}'); return False
    got = {}
    if arr.ndim == 2:
        for i, ph in enumerate(s.phases):
            for j, v in enumerate(arr[i]):
                if v: got[(ph, cas[j])] = v / MW[j]
    else:
        for j, v in enumerate(arr):
            if v: got[(s.phase, cas[j])] = v / MW[j]
    bad, worst = ledger_diff(sled(got), sled(t0), rel=1e-12)
    clause = 'mix'
    for pre, cl in (('copy_flow', 'move'), ('drain', 'move'), ('moved-out', 'move'), ('view-copy_flow', 'move'), ('scale', 'scale'), ('view-scale', 'scale'), ('separate_out', 'separate'), ('being-split', 'split')):
        if st.last.startswith(pre): clause = cl
    rec.check(not bad, clause, f'history/mass-reading/{st.ctx()}', f'flows read through imass after {st.last} are not the molar flows times MW: {bad[:4]}', residual=worst)
    rec.hit('hist:judge/mass')
    if st.received: rec.hit('hist:judge-after-receive/mass'); st.judged += 1


HSTEPS = {'touch': h_touch, 'copy_like': h_copy_like, 'mix': h_mix, 'copy_flow': h_copy_flow, 'drain': h_drain, 'scale': h_scale, 'set': h_set, 'phases': h_phases, 'sep': h_sep,
          'split': h_split, 'outlet': h_outlet, 'view-write': h_view_write, 'via-mix': h_via_mix, 'via-move': h_via_move, 'via-split': h_via_split, 'via-sum': h_via_sum, 'mass': h_mass}


def run_hist(case, rec):
    st = HState(case)
    rec.hit('hist')
    if case['made'] == 'from_streams': rec.hit('hist:from_streams')
    for step in case['steps']:
        nv = sum(rec.viol_counts.values())
        before = st.shape(); live = st.live(); st.warrant = None
        r = HSTEPS[step['op']](step, st, rec)
        st.after_step(step, before, live, rec)
        if r is False: break                                        # an exception was reported or a numerical refusal counted: the history ends here
        if sum(rec.viol_counts.values()) != nv: break               # what follows a violated step would only repeat it under other names
    if st.judged and nflowing(ledger(st.subj)) >= 2: rec.mark_nontrivial(case_hash(case))


RUNNERS = {'mix': run_mix, 'split': run_split, 'sep': run_separate, 'move': run_move, 'scale': run_scale, 'sum': run_sum,
           'sep2': run_sep2, 'move2': run_move2, 'op': run_op, 'mix2': run_mix2, 'split2': run_split2, 'sum2': run_sum2, 'scale2': run_scale2, 'hist': run_hist}
GENS = [(gen_mix, 0.4), (gen_split, 0.2), (gen_separate, 0.1), (gen_move, 0.17), (gen_scale, 0.07), (gen_sum, 0.06)]
GENS2 = [(gen_sep2, 0.2), (gen_move2, 0.2), (gen_op, 0.12), (gen_mix2, 0.22), (gen_split2, 0.12), (gen_sum2, 0.09), (gen_scale2, 0.05)]


def run_case(case, rec):
    rec.begin_case(case)
    try:
        RUNNERS[case['t']](case, rec)
    except Exception as e:
        rec.exception('harness', e, what=f'harness error in case type {case["t"]}: {type(e).__name__}: {e}')


def replay(case, rec):
    if isinstance(case, dict) and case.get('t') == 'solver-failure-rate':
        import random
        run(rec, random.Random(case['rng_seed']), case['tier'], case['shard'], case['nshards']); return
    run_case(case, rec)


EB_REACH = ('mix:operator/energy-balance/judged', 'separate:isub', 'mix:conserve/energy-balance/solver-ran/judged', 'mix:vle/energy-balance/solver-ran/judged',
            'hist:receive/mix/energy-balance/solver-ran/judged', 'hist:judge/via-mix/energy-balance/solver-ran/judged')


def judge_failure_rate(rec, tier, shard, nshards):
    """the raises of the two solvers are counted, not judged (the flows they leave behind are): none was seen in 3000 vle cases and 30000 energy-balance cases of
    the pinned library, so more than a handful per shard is a mechanism of its own (e.g. bookkeeping that hands the solvers what they cannot digest)"""
    for name, den in (('vle', rec.reach.get('mix:vle', 0)), ('temperature', sum(rec.reach.get(k, 0) for k in EB_REACH))):
        n = rec.reach.get('solver-failed:' + name, 0)
        rec.check(n <= 3 + 0.02 * den, 'mix', f'solver-failure-rate/{name}-solver', f'the {name} solver behind mix_from / -= raised in {n} cases of {den} of this shard (recorded: none): too many cases end without a normal return',
                  case={'t': 'solver-failure-rate', 'rng_seed': rec.seed * 1000 + shard, 'tier': tier, 'shard': shard, 'nshards': nshards})


def run(rec, rng, tier, shard, nshards):
    n = 6000 if tier == 'quick' else 60000
    names, weights = zip(*GENS)
    for i in range(n):
        case = rng.choices(names, weights)[0](rng)
        run_case(case, rec)
        if i % 401 == 0: rec.sample(case)
    # second generation: appended so that the cases above are the same as before
    n2 = 2500 if tier == 'quick' else 25000
    names, weights = zip(*GENS2)
    for i in range(n2):
        case = rng.choices(names, weights)[0](rng)
        run_case(case, rec)
        if i % 1201 == 0: rec.sample(case)
    # third generation (histories): appended so that the cases above are the same as before
    n3 = 3000 if tier == 'quick' else 30000
    for i in range(n3):
        case = gen_hist(rng)
        run_case(case, rec)
        if i % 701 == 0: rec.sample(case)
    judge_failure_rate(rec, tier, shard, nshards)
