"""C05 — reactions conserve mass and atoms and convert exactly X of the reactant.

Monitor: molar flows / total mass / element totals are recorded before and after the real call and compared with a dense
stoichiometric model whose stoichiometries are balanced by construction (rational null space of the formula matrix).
"""
import numpy as np
import thermosteam as tmo
from thermosteam.exceptions import InfeasibleRegion, UndefinedChemicalAlias
from vt.core import case_hash
from vt import rxn as R
from vt.common import SV, SA, sparse_invariant, thermo_of

PID = 'C05'
RULE = ('random cases: 1-4 balanced reactions (null space of the C/H/O formula matrix over 16 chemicals, fractional coefficients, plus textbook reactions), '
        'combined as single / ParallelReaction / SeriesReaction / ReactionSystem, mol and wt basis (wt reactions constructed from mass coefficients), '
        'string and dict definitions, phase-less and phase-tagged (g/l); targets: Stream, MultiStream, stream on a permuted property package, bare SparseVector, '
        'ndarray, SparseArray, 2-d ndarray; feeds 10^U(-3,3) made sufficient in the co-reactants with probability 0.7. '
        'Coverage additions: sets / systems of ONE member; string terms with implicit / integer coefficients, reactant and phases inferred by the constructor; phase sets '
        "('l','s'), ('L','l'), ('g','l','s'), ('L','g','l'); the stream's own flow vectors (imol.data / imass.data, DictionaryView write-back) as the bare array; streams on a strict "
        'subset package and on a superset package (extra inert with/without flow; with flow the UndefinedChemicalAlias refusal is counted); items, iteration items and slices of a set '
        'applied instead of the set; sibling appliers force_reaction (judged when the model is feasible), conversion(material) (returned change = X*feed_r*nu) and '
        'ReactionSystem.reactant_flux (= extent of the addressed member on the running composition); a co-reactant fed in exactly the amount consumed (zero up to round-off). '
        'Histories (gen_hist, streams of the own / a permuted / a subset package): the reaction objects are changed between construction and the call - Reaction.basis set in place (and back again) '
        'on a single reaction, on members BEFORE the set / system is built (all: consistent; some: the constructor refuses) and AFTER it was built (some or all members, direct members of a system or members of its '
        'set parts; then the container either refuses or acts like its definition: species / mass / atoms judged on a normal return), the refused setters of sets / items / set parts, a re-based copy of an item or member '
        '(the container acts as before, the copy like the member), conversions set through the set / an item / the system / a part / a member Reaction; optionally after a first call; appliers call / force_reaction / '
        'conversion / reactant_flux. '
        'Observation after every outcome: after InfeasibleRegion the stream is back on its own package, material the library reacts on a copy (mass flows of a stream, views, ndarrays) is bit-identical and '
        'material reacted in place has the mass and atoms of the feed; conversion(material) and reactant_flux leave the material bit-identical whatever they return or raise; refusals (UndefinedChemicalAlias, '
        'the ValueError of reactant_flux without subindex, the error of a container whose members were re-based) leave the stream on its own package; InfeasibleRegion is accepted as a refusal only where the dense '
        'model (computed before the call) finds a negative flow - in reactant_flux at the parts ahead, for combined reactions (a + b, sum, +=; co-reactants made sufficient with probability 0.7) for the members in '
        'parallel, for containers with re-based members in the units of either basis; a phase-less reaction offered a MultiStream must refuse with the ValueError naming the phases. '
        'non-trivial = some conversion in (0,1] with non-zero reactant feed, >=3 species, normal return; distinct = hash of the case')
MIN_NONTRIVIAL = {'quick': 500, 'thorough': 20000}
ASSUMPTIONS = ['element counts come from a table written in the harness and cross-checked against the library at start-up',
               'between a predicted negative total of -1e-9 and -1e-13 (the library threshold is -1e-12) neither raising nor returning is judged',
               'force_reaction (documented to ignore feasibility) is judged only when the dense model predicts no negative flow; non-negativity is not demanded of it',
               'with a co-reactant fed in exactly the amount consumed (added boundary branch) an InfeasibleRegion is counted, not judged: round-off of the flows decides the sign',
               'a stream carrying a chemical the reaction package does not know is refused by the library (UndefinedChemicalAlias): counted, not judged',
               'a set / system whose member reactions were re-based in place after it was built: an error naming the basis, or InfeasibleRegion on a feed the model (in the units of either basis) finds infeasible, is a refusal '
               '(counted; afterwards the stream must be on its own property package, its flows are not judged: members ahead of the offending one may have acted); '
               'a normal return is judged against the reactions as defined (both bases give the same result on a stream); feeds the model finds infeasible are not judged in that state',
               'reactant_flux of such a system: a refusal is counted; a returned amount may be in the units of either basis (the documentation does not say which)',
               'after InfeasibleRegion the flows of a target reacted in place are not compared with anything but their total mass and element totals (the library leaves the infeasible composition there); '
               'that mass flows of streams, DictionaryView vectors and ndarrays are reacted on a copy and written back only on a normal return is the behaviour of the library as built, taken as the reference',
               'a series / system whose INTERMEDIATE composition is negative while the final one is not: neither raising nor returning is judged (series reactions act on the running composition, so a raise is defensible)',
               'a conversion set on a Reaction object that is a DIRECT member of a ReactionSystem is expected to take effect (the system holds the very objects); conversions set on Reaction objects a set was built from are not exercised']


def required(tier):
    return ['target:multistream', 'single', 'parallel', 'series', 'system', 'basis-equivalence', 'target:stream', 'target:stream-foreign', 'target:sv', 'target:nd',
            'target:sa', 'target:nd2', 'must-raise', 'phase-tagged',
            'set:one-member', 'system:one-part', 'form:str-int', 'form:auto-reactant', 'form:auto-phase', 'phases:solid', 'phases:three', 'phases:Ll', 'target:stream.mol', 'target:stream.mass',
            'target:stream-subset', 'target:stream-superset', 'sub:item', 'sub:iter', 'sub:slice', 'call:force', 'conversion', 'reactant-flux', 'feed:co-reactant-exactly-consumed', 'combined:+/mixed-basis', 'combined:sum/mixed-basis',
            'hist:self-basis', 'hist:member-basis-after', 'hist:member-basis-before', 'hist:all-members-rebased-before', 'hist:some-members-rebased-before', 'hist:refused-setter', 'hist:item-copy-rebased', 'hist:X-setter',
            'hist:roundtrip', 'hist:set-member', 'hist:system-direct-member', 'hist:system-set-part-member', 'hist:stale-container', 'hist:after-first-call', 'hist:tagged', 'hist:call:force', 'hist:call:conversion', 'hist:call:flux',
            # observation points that must not be bypassed: the material after a raise (the property demands the raise) / after a sibling query, combined reactions judged on a normal return.
            # Counters that exist only because the library as built refuses (refusal:material-judged, multiphase-target:refused-naming-phases, reactant-flux:infeasible-model-agrees,
            # hist:stale-container-refused, hist:stale-infeasible) are recorded in the evidence but not required: a library that answers instead of refusing is not inconclusive
            'infeasible:aftermath-judged', 'infeasible:copy-untouched', 'infeasible:in-place-mass', 'conversion:material-judged', 'reactant-flux:material-judged', 'combined:judged', 'combined:infeasible']


PHASE_SETS = [('g', 'l')] * 6 + [('l', 's'), ('L', 'l'), ('g', 'l', 's'), ('L', 'g', 'l')]      # sorted the way the library sorts phases
EXTRA = 'Octanol'        # a chemical the reactions' package does not know (superset packages)


def gen_case(rng):
    comb = rng.choice(['single', 'single', 'parallel', 'series', 'system'])
    tagged = rng.random() < 0.3
    basis = rng.choice(['mol', 'mol', 'wt'])
    phases = list(rng.choice(PHASE_SETS)) if tagged else None
    phmap = {i: rng.choice(phases) for i in R.IDS} if tagged else None
    def one(allowed=None):
        d = R.gen_reaction(rng, allowed=allowed, phases_p=0)
        d['basis'] = basis
        if tagged: d['ph'] = {i: phmap[i] for i in d['st']}
        # construction forms: integer-style / implicit coefficients in the string, reactant and phases left to the constructor
        d['form'] = rng.choice(['str', 'dict', 'str-int'])
        d['space'] = rng.random() < 0.5
        if sum(1 for v in d['st'].values() if v < 0) == 1 and rng.random() < 0.5: d['auto_reactant'] = True
        if tagged and rng.random() < 0.3: d['auto_phase'] = True     # honoured when the reaction names every phase of the case
        return d
    if comb == 'single': members = [one()]
    elif comb in ('parallel', 'series'): members = [one() for _ in range(rng.randrange(1, 5))]
    else:
        members = []
        for _ in range(rng.randrange(1, 4)):
            k = rng.choice(['single', 'parallel', 'series'])
            members.append({'k': k, 'rx': [one() for _ in range(1 if k == 'single' else rng.randrange(1, 4))]})
    # feed
    flows = {}
    for i in R.IDS:
        if rng.random() < 0.45: flows[i] = round(10 ** rng.uniform(-3, 3), rng.choice([3, 8]))
    all_rx = members if comb != 'system' else [r for m in members for r in m['rx']]
    for r in all_rx:
        if rng.random() < 0.85 and r['reactant'] not in flows: flows[r['reactant']] = round(10 ** rng.uniform(-2, 3), 4)
    if rng.random() < 0.7:
        # make the co-reactants sufficient (for the first-order extents)
        for r in all_rx:
            st = r['st']; fr = flows.get(r['reactant'], 0.0)
            for i, v in st.items():
                if v < 0 and i != r['reactant']:
                    need = fr * r['X'] * v / st[r['reactant']] * len(all_rx) * 1.5
                    flows[i] = max(flows.get(i, 0.0), need * rng.uniform(1.0, 3.0))
    exact = False
    if rng.random() < 0.12:
        # boundary of feasibility: one co-reactant fed in exactly the amount the (first-order) extent needs -> it ends at zero up to round-off of either sign
        r = rng.choice(all_rx); cands = [i for i, v in r['st'].items() if v < 0 and i != r['reactant']]
        if cands and r['X'] > 0 and flows.get(r['reactant'], 0.0) > 0:
            i = rng.choice(cands); flows[i] = flows[r['reactant']] * r['X'] * r['st'][i] / r['st'][r['reactant']]; exact = True
    if tagged:
        feed = {}
        for i, v in flows.items():
            if rng.random() < (0.8 if not exact else 1.0): feed[phmap[i] + '/' + i] = v
            else: feed[rng.choice([p for p in phases if p != phmap[i]]) + '/' + i] = v   # material sitting in another phase
    else:
        feed = flows
    vec = 'stream.mol' if basis == 'mol' else 'stream.mass'      # the stream's own flow vector handed over as the bare array (in the units of the reaction's basis)
    if tagged: target = rng.choice(['stream', 'stream', 'stream-foreign', 'sa', 'nd2'] * 3 + [vec, vec, 'stream-subset', 'stream-superset'])
    else: target = rng.choice(['stream', 'stream', 'stream-foreign', 'sv', 'nd'] * 4 + ['multistream', vec, vec, 'stream-subset', 'stream-superset'])     # phase-less reaction offered a multi-phase stream: refused or conserving, never silently wrong
    case = {'comb': comb, 'members': members, 'tagged': tagged, 'basis': basis, 'feed': feed, 'target': target, 'phase': rng.choice('lg')}
    if tagged: case['phases'] = phases
    if exact: case['exact'] = True
    if target in ('stream-subset', 'stream-superset'):
        need = sorted(set(flows) | {i for r in all_rx for i in r['st']})
        if target == 'stream-subset':
            rest = [i for i in R.IDS if i not in need]
            if not rest: case['target'] = 'stream-foreign'
            else:
                pkg = need + rng.sample(rest, rng.randrange(0, len(rest)))       # a strict subset of the reactions' package, in another order
                rng.shuffle(pkg); case['pkg'] = pkg
        else:
            pkg = list(R.PERM); pkg.insert(rng.randrange(len(pkg) + 1), EXTRA); case['pkg'] = pkg
            case['extra_flow'] = rng.choice([0.0, 0.0, round(10 ** rng.uniform(-2, 2), 3)])
    # an item / iteration item / slice of the set applied instead of the set
    if comb in ('parallel', 'series') and rng.random() < 0.2:
        n = len(members); u = rng.random()
        if u < 0.35 or n == 1: case['sub'] = [rng.choice(['item', 'iter']), rng.randrange(n)]
        elif u < 0.5: case['sub'] = ['item', -rng.randrange(1, n + 1)]
        else:
            lo = rng.randrange(0, n - 1); case['sub'] = ['slice', lo, rng.randrange(lo + 1, n + 1)]
    # sibling appliers
    u = rng.random()
    single_like = comb == 'single' or (case.get('sub') and case['sub'][0] in ('item', 'iter'))
    if case['target'] != 'multistream':
        if u < 0.07: case['call'] = 'force'
        elif u < 0.2 and single_like: case['call'] = 'conversion'
        elif u < 0.3 and comb == 'system':
            i = rng.randrange(len(members)); m = members[i]
            j = None if m['k'] == 'single' else rng.randrange(len(m['rx']))
            if m['k'] == 'parallel' and rng.random() < 0.4: j = None          # the summed flux of the parallel part
            if m['k'] == 'series' and rng.random() < 0.08: j = None            # documented ValueError
            case['call'] = 'flux'; case['flux'] = [i, j]
    return case


def build_one(desc, th, phases=('g', 'l')):
    """one Reaction from its description; the forms of the first version go through the shared builder, the added ones are written out here."""
    plain = desc.get('form') in ('str', 'dict') and not desc.get('auto_reactant') and not desc.get('auto_phase')
    if plain and tuple(phases) == ('g', 'l'): return R.build_reaction(desc, th)
    d = desc['st']; basis = desc['basis']; MW = R.mw(th); ph = desc.get('ph')
    coeff = {i: (v * MW[i] if basis == 'wt' else v) for i, v in d.items()}
    if desc['form'] in ('str', 'str-int'):
        def term(i, v):
            a = abs(v)
            if desc['form'] == 'str-int' and a == 1: n = ''                                                  # "CH4"
            elif desc['form'] == 'str-int' and a == int(a): n = str(int(a)) + (' ' if desc.get('space') else '')     # "2O2" / "2 O2"
            else: n = repr(a)
            return n + i + (',' + ph[i] if ph else '')
        rx = ' + '.join(term(i, v) for i, v in coeff.items() if v < 0) + (' -> ' if desc.get('space', True) else '->') + ' + '.join(term(i, v) for i, v in coeff.items() if v > 0)
    else:
        rx = {i: ((ph[i], v) if ph else v) for i, v in coeff.items()}
    kw = {}
    if ph and not (desc.get('auto_phase') and set(ph.values()) == set(phases)): kw['phases'] = tuple(phases)
    reactant = desc['reactant']
    if desc.get('auto_reactant') and sum(1 for v in d.values() if v < 0) == 1: reactant = None
    return tmo.Reaction(rx, reactant=reactant, X=desc['X'], chemicals=th.chemicals, basis=basis, **kw)


def build(case, th):
    phases = tuple(case.get('phases') or ('g', 'l'))
    def one(d): return build_one(d, th, phases)
    comb = case['comb']
    if comb == 'single': return one(case['members'][0])
    if comb == 'parallel': return tmo.ParallelReaction([one(d) for d in case['members']])
    if comb == 'series': return tmo.SeriesReaction([one(d) for d in case['members']])
    parts = []
    for m in case['members']:
        rs = [one(d) for d in m['rx']]
        parts.append(rs[0] if m['k'] == 'single' else (tmo.ParallelReaction(rs) if m['k'] == 'parallel' else tmo.SeriesReaction(rs)))
    return tmo.ReactionSystem(*parts)


def select(rx, case):
    """the object that is applied: the set itself, or an item / iteration item / slice of it."""
    sub = case.get('sub')
    if not sub: return rx
    if sub[0] == 'item': return rx[sub[1]]
    if sub[0] == 'iter': return list(rx)[sub[1]]
    return rx[sub[1]:sub[2]]


def effective(case):
    """the case as the dense model sees it (an item is a single reaction, a slice a shorter set)."""
    sub = case.get('sub')
    if not sub: return case
    if sub[0] in ('item', 'iter'): return dict(case, comb='single', members=[case['members'][sub[1]]])
    return dict(case, members=case['members'][sub[1]:sub[2]])


def model(case, flows):
    """dense model: flows keyed by ID or (phase, ID) in mol."""
    def parallel(fl, ds):
        out = dict(fl)
        for d in ds:
            ext = R.model_extent(fl, d)
            nu = {i: v / -d['st'][d['reactant']] for i, v in d['st'].items()}
            for i, v in nu.items():
                k = (d['ph'][i], i) if d.get('ph') else i
                out[k] = out.get(k, 0.0) + ext * v
        return out
    def series(fl, ds):
        for d in ds: fl = R.model_apply(fl, d)
        return fl
    comb = case['comb']
    if comb == 'single': return R.model_apply(flows, case['members'][0])
    if comb == 'parallel': return parallel(flows, case['members'])
    if comb == 'series': return series(flows, case['members'])
    fl = flows
    for m in case['members']:
        fl = parallel(fl, m['rx']) if m['k'] == 'parallel' else series(fl, m['rx'])
    return fl


def feed_dict(case):
    if case['tagged']:
        return {(k.split('/')[0], k.split('/')[1]): v for k, v in case['feed'].items()}
    return dict(case['feed'])


def stream_package(case):
    t = case['target']
    if t == 'stream-foreign': return R.thermo(perm=True)
    if t in ('stream-subset', 'stream-superset'): return thermo_of(tuple(case['pkg']))
    return R.thermo()


def make_target(case, th, flows, MW):
    """returns (object passed to the reaction, reader() -> molar flows dict in the same keying as flows)"""
    t = case['target']; tagged = case['tagged']; basis = case['basis']
    ids = th.chemicals.IDs
    phases = tuple(case.get('phases') or ('g', 'l'))
    if t in ('stream', 'stream-foreign', 'stream-subset', 'stream-superset', 'stream.mol', 'stream.mass'):
        sth = stream_package(case)
        if tagged:
            s = tmo.MultiStream(None, phases=phases, thermo=sth)
            if s.phases != phases: raise RuntimeError(f'phase order {s.phases} != {phases}')
            for (ph, i), v in flows.items(): s.imol[ph, i] = v
            def read():
                out = {}
                for ph, row in zip(s.phases, s.imol.data.rows):
                    for j, v in row.dct.items():
                        if s.chemicals.IDs[j] != EXTRA: out[(ph, s.chemicals.IDs[j])] = v
                return out
        else:
            s = tmo.Stream(None, phase=case['phase'], thermo=sth)
            for i, v in flows.items(): s.imol[i] = v
            def read():
                return {s.chemicals.IDs[j]: v for j, v in s.imol.data.dct.items() if s.chemicals.IDs[j] != EXTRA}
        if t == 'stream-superset' and case.get('extra_flow'):
            if tagged: s.imol[phases[0], EXTRA] = case['extra_flow']
            else: s.imol[EXTRA] = case['extra_flow']
        read.stream = s
        if t == 'stream.mol': return s.imol.data, read           # the stream's own molar flow vector
        if t == 'stream.mass': return s.imass.data, read         # mass flows: a view over the molar data (copy and write-back inside the reaction call)
        return s, read
    # bare arrays are in the units of the reaction's basis
    f = (lambda i: MW[i]) if basis == 'wt' else (lambda i: 1.0)
    if not tagged:
        arr = np.zeros(len(ids))
        for i, v in flows.items(): arr[ids.index(i)] = v * f(i)
        obj = SV(arr) if t == 'sv' else arr
        def read():
            a = obj.to_array() if t == 'sv' else obj
            return {ids[j]: a[j] / f(ids[j]) for j in range(len(ids)) if a[j]}
        return obj, read
    arr = np.zeros((len(phases), len(ids)))
    for (ph, i), v in flows.items(): arr[phases.index(ph), ids.index(i)] = v * f(i)
    obj = SA(arr) if t == 'sa' else arr
    def read():
        a = obj.to_array() if t == 'sa' else obj
        return {(phases[r], ids[j]): a[r, j] / f(ids[j]) for r in range(len(phases)) for j in range(len(ids)) if a[r, j]}
    return obj, read


def reach_of_case(case, rec):
    """reach counters of the added generator branches."""
    all_rx = case['members'] if case['comb'] != 'system' else [r for m in case['members'] for r in m['rx']]
    if case['comb'] in ('parallel', 'series') and len(case['members']) == 1: rec.hit('set:one-member')
    if case['comb'] == 'system':
        if len(case['members']) == 1: rec.hit('system:one-part')
        if any(m['k'] != 'single' and len(m['rx']) == 1 for m in case['members']): rec.hit('set:one-member')
    phases = tuple(case.get('phases') or ('g', 'l'))
    for d in all_rx:
        if d.get('form') == 'str-int': rec.hit('form:str-int')
        if d.get('auto_reactant') and sum(1 for v in d['st'].values() if v < 0) == 1: rec.hit('form:auto-reactant')
        if d.get('ph') and d.get('auto_phase') and set(d['ph'].values()) == set(phases): rec.hit('form:auto-phase')
    if case['tagged']:
        if 's' in phases: rec.hit('phases:solid')
        if 'L' in phases: rec.hit('phases:Ll')
        if len(phases) == 3: rec.hit('phases:three')
    if case.get('sub'): rec.hit('sub:' + case['sub'][0])
    if case.get('exact'): rec.hit('feed:co-reactant-exactly-consumed')


def roundoff_boundary(case, flows):
    """True when some step of the dense model leaves a species it consumes at zero up to round-off (|after| <= 1e-12 * before, before > 0) - other than the reactant of a
    single step converted with X = 1, which is exactly zero in the library too. Whether the library's ABSOLUTE threshold (-1e-12) is crossed there is decided by the
    round-off of the flows (a feed that happens to be exactly stoichiometric). Used only to NAME the mechanism in the key of a spurious-InfeasibleRegion violation."""
    comb = case['comb']
    if comb == 'single': steps = [[case['members'][0]]]
    elif comb == 'parallel': steps = [case['members']]
    elif comb == 'series': steps = [[d] for d in case['members']]
    else: steps = [g for m in case['members'] for g in ([[d] for d in m['rx']] if m['k'] == 'series' else [m['rx']])]
    fl = flows
    for ds in steps:
        after = model({'comb': 'parallel', 'members': ds}, fl)
        for d in ds:
            for i, v in d['st'].items():
                if v >= 0 or (len(ds) == 1 and i == d['reactant'] and d['X'] == 1.0): continue
                k = (d['ph'][i], i) if d.get('ph') else i
                b = fl.get(k, 0.0)
                if b > 0 and abs(after.get(k, 0.0)) <= 1e-12 * b: return True
        fl = after
    return False


def spurious_key(case, flows):
    return 'spurious-infeasible/stoichiometric-feed-roundoff' if roundoff_boundary(case, flows) else 'spurious-infeasible'


def raw_state(obj, stream):
    """bit-exact copy of the material as the library holds it: the molar data of the stream (for streams and for their own flow vectors), else the array itself."""
    d = stream.imol.data if stream is not None else obj
    return d.to_array().copy() if hasattr(d, 'to_array') else np.array(d, float)


def reacted_on_copy(case):
    """the targets the library reacts on a copy that is written back only on a normal return (mass flows of a stream, views, plain ndarrays): after a raise they are untouched."""
    t = case['target']
    if t in ('stream', 'stream-foreign', 'stream-subset', 'stream-superset'): return case['basis'] == 'wt'
    return t in ('stream.mass', 'nd', 'nd2')


def unchanged(rec, clause, key, obj, stream, before, what):
    now = raw_state(obj, stream)
    return rec.check(now.shape == before.shape and np.array_equal(now, before), clause, key, f'{what}: {before.tolist()} -> {now.tolist()}')


def after_refusal(rec, clause, how, tag, obj, stream, before, restored):
    """a call refused before / without reacting (UndefinedChemicalAlias, the documented ValueError of reactant_flux): stream on its own package, material bit-identical."""
    rec.hit('refusal:material-judged')
    restored(how)
    unchanged(rec, clause, f'refusal-changed-material/{how}/{tag}', obj, stream, before, f'the call was refused ({how}) but the material changed')


def after_infeasible(rec, case, tag, obj, stream, before, restored, read, flows, MW, key=None):
    """after InfeasibleRegion from __call__: own package restored; targets reacted on a copy untouched; targets reacted in place keep the mass and the atoms of the feed."""
    key = key or tag
    rec.hit('infeasible:aftermath-judged')
    if not restored('InfeasibleRegion'): return
    if reacted_on_copy(case):
        rec.hit('infeasible:copy-untouched')
        unchanged(rec, 'react', f'infeasible-changed-material/{key}', obj, stream, before, 'InfeasibleRegion was raised but the material (reacted on a copy) changed')
        return
    rec.hit('infeasible:in-place-mass')
    got = read()
    m0, m1 = R.mass_of(flows, MW), R.mass_of(got, MW); big = R.mass_of({k: abs(v) for k, v in got.items()}, MW)
    rec.check(abs(m1 - m0) <= 1e-11 * max(m0, big), 'mass', f'after-infeasible/{key}', f'InfeasibleRegion was raised and the material was left with another total mass {m0!r} -> {m1!r}',
              residual=abs(m1 - m0) / max(m0, big, 1e-300))
    a0, a1 = R.atoms_of(flows), R.atoms_of(got); ab = R.atoms_of({k: abs(v) for k, v in got.items()})
    rec.check(all(abs(x - y) <= 1e-11 * max(abs(x), b) + 1e-12 * max(ab) for x, y, b in zip(a0, a1, ab)), 'atoms', f'after-infeasible/{key}',
              f'InfeasibleRegion was raised and the material was left with other element totals {a0} -> {a1}',
              residual=max(abs(x - y) / max(abs(x), b, 1e-300) for x, y, b in zip(a0, a1, ab)))


def run_case(case, rec):
    rec.begin_case(case)
    th = R.thermo()
    MW = R.mw(th)
    flows = feed_dict(case)
    try:
        rx = select(build(case, th), case)
    except Exception as e:
        rec.exception('construct', e, what=f'constructing {case["comb"]} reaction raised {type(e).__name__}: {str(e)[:200]}'); return
    full = case
    case = effective(full)            # what the dense model sees: an item is a single reaction, a slice a shorter set
    call = case.get('call', 'call')
    expected = model(case, flows)
    neg_mol = sum(v for v in expected.values() if v < 0)
    neg_mass = sum(MW[k[1] if isinstance(k, tuple) else k] * v for k, v in expected.items() if v < 0)
    neg = neg_mass if case['basis'] == 'wt' else neg_mol
    # series reactions act on the running composition: a step that needs more than the running composition holds is infeasible even if a later step
    # (running backwards on the negative amount) would bring the final flows back to zero
    inter_neg = 0.0
    if case['comb'] in ('series', 'system'):
        groups = [('series', case['members'])] if case['comb'] == 'series' else [(m['k'], m['rx']) for m in case['members']]
        fl = flows
        for kind_, ds in groups:
            if kind_ == 'series':
                for d in ds:
                    fl = R.model_apply(fl, d)
                    inter_neg = min(inter_neg, min(list(fl.values()) + [0.0]))
            else:
                fl = model({'comb': 'parallel', 'members': ds}, fl) if kind_ == 'parallel' else R.model_apply(fl, ds[0])
                inter_neg = min(inter_neg, min(list(fl.values()) + [0.0]))
    if case['target'] == 'multistream':
        ids_ = th.chemicals.IDs
        ms = tmo.MultiStream(None, phases=('g', 'l'), thermo=th)
        for i, v in flows.items(): ms.imol['g' if ids_.index(i) % 2 == 0 else 'l', i] = v
        b0 = ms.imol.data.to_array().copy()
        rec.hit('target:multistream')
        MWa = th.chemicals.MW
        def rows_now():
            d_ = ms.imol.data
            return d_.to_array() if getattr(d_, 'ndim', 0) == 2 else None
        try:
            rx(ms)
        except InfeasibleRegion as e:
            # a phase-less reaction that does react a multi-phase stream may find the conversion infeasible - but only when the dense model does; and whatever it did
            # to the stream before raising, total mass is what it was
            rec.hit('multiphase-target:infeasible')
            if neg < -1e-13 or inter_neg < -1e-13: rec.refuse('InfeasibleRegion (model agrees: a flow would be negative)')
            else:
                rec.check(False, 'multiphase-target', f'spurious-infeasible/{case["comb"]}', 'phase-less reaction on a multi-phase stream raised InfeasibleRegion although the dense model predicts no negative flow '
                          f'(most negative total {neg:.3g}); rows {b0.tolist()} -> {None if rows_now() is None else rows_now().tolist()}')
            a0 = rows_now()
            ok_ = a0 is not None and a0.shape == b0.shape
            if ok_:
                m0, m1 = float(b0.sum(0) @ MWa), float(a0.sum(0) @ MWa); big_ = float(np.abs(a0).sum(0) @ MWa)
                ok_ = abs(m1 - m0) <= 1e-11 * max(m0, big_)
            rec.check(ok_, 'multiphase-target', f'mass-after-infeasible/{case["comb"]}', f'the call raised InfeasibleRegion and left the multi-phase stream with another total mass / shape: rows {b0.tolist()} -> {None if a0 is None else a0.tolist()}')
            return
        except ValueError as e:
            if not ('multi-phase' in str(e) or 'phases do not match' in str(e)):
                rec.exception('multiphase-target', e, what=f'phase-less {case["comb"]} reaction on a multi-phase stream raised ValueError that does not name the phases: {str(e)[:200]}'); return
            a0 = rows_now()
            rec.hit('multiphase-target:refused-naming-phases')
            rec.refuse(f'phase-less reaction on a multi-phase stream refused ({type(e).__name__})')
            rec.check(a0 is not None and np.array_equal(a0, b0), 'multiphase-target', 'refusal-changed-stream', f'the call raised {type(e).__name__} but changed the stream: {b0.tolist()} -> {None if a0 is None else a0.tolist()}')
            return
        except Exception as e:
            rec.exception('multiphase-target', e, what=f'phase-less {case["comb"]} reaction on a multi-phase stream raised {type(e).__name__} (the documented refusal is a ValueError naming the phases): {str(e)[:200]}'); return
        a0 = ms.imol.data.to_array()
        tot0, tot1 = b0.sum(0), a0.sum(0)
        MWa = th.chemicals.MW
        m0, m1 = float(tot0 @ MWa), float(tot1 @ MWa)
        rec.check(abs(m1 - m0) <= 1e-11 * max(m0, m1), 'multiphase-target', 'mass', f'phase-less {case["comb"]} reaction applied to a multi-phase stream returned normally and changed total mass {m0!r} -> {m1!r} (rows {b0.tolist()} -> {a0.tolist()})',
                  residual=abs(m1 - m0) / max(m0, 1e-300))
        rec.check(bool((a0 >= 0).all()), 'multiphase-target', 'negative', f'negative phase flows after a normal return: {a0.tolist()}')
        return
    obj, read = make_target(case, th, flows, MW)
    tag = f'{case["comb"]}/{case["basis"]}/{"tagged" if case["tagged"] else "phase-less"}/{case["target"]}'
    if full.get('sub'): tag += '/of-' + full['comb'] + '-' + full['sub'][0]
    if call == 'force': tag += '/force_reaction'
    rec.hit('target:' + case['target']); rec.hit(case['comb'])
    if case['tagged']: rec.hit('phase-tagged')
    reach_of_case(full, rec)
    scale = max([abs(v) for v in flows.values()] + [1e-300])
    stream = getattr(read, 'stream', None)
    foreign = case['target'] in ('stream-foreign', 'stream-subset', 'stream-superset')
    def restored(how):
        if foreign:
            pk = stream_package(case).chemicals
            return rec.check(stream.chemicals is pk and stream.imol.chemicals is pk, 'package-restored', f'{how}/{tag}',
                             f'after {how} the stream is not back on its own property package (stream.chemicals own: {stream.chemicals is pk}, stream.imol.chemicals own: {stream.imol.chemicals is pk})')
        return True
    if call in ('conversion', 'flux'):
        return siblings(call, case, full, rec, rx, obj, read, flows, expected, th, MW, tag, scale, restored)
    before = raw_state(obj, stream)
    try:
        (rx.force_reaction if call == 'force' else rx)(obj)
        raised = None
    except InfeasibleRegion as e:
        raised = e
    except UndefinedChemicalAlias as e:
        if case['target'] == 'stream-superset' and case.get('extra_flow'):
            rec.refuse('stream carries a chemical the reaction package does not know (UndefinedChemicalAlias)')
            after_refusal(rec, 'react', 'UndefinedChemicalAlias', tag, obj, stream, before, restored); return
        rec.exception('react', e, what=f'reaction call ({tag}) raised {type(e).__name__}: {str(e)[:200]}'); return
    except Exception as e:
        rec.exception('react', e, what=f'reaction call ({tag}) raised {type(e).__name__}: {str(e)[:200]}'); return
    if raised is not None:
        # whatever the verdict on the raise itself: the stream is back on its own package, the material the library reacts on a copy is untouched, and
        # material reacted in place still has the mass and the atoms of the feed (every step applied is balanced)
        after_infeasible(rec, case, tag, obj, stream, before, restored, read, flows, MW)
    if call == 'force':
        rec.hit('call:force')
        if raised is not None:
            rec.check(False, 'react', f'force-raised-infeasible/{tag}', 'force_reaction (documented to ignore feasibility checks) raised InfeasibleRegion'); return
        if neg < -1e-13 or inter_neg < -1e-13:
            rec.refuse('force_reaction of a conversion the model finds infeasible (feasibility deliberately unchecked; not judged)'); return
    if raised is not None:
        if full.get('exact') and neg >= -1e-13 and inter_neg >= -1e-13:
            # added boundary branch only: a co-reactant is fed in exactly the amount consumed, so whether the (absolute) -1e-12 threshold is crossed is decided by round-off of the flows themselves
            rec.refuse('InfeasibleRegion at the exact-consumption boundary (round-off decides; not judged)'); return
        if neg >= -1e-13 and inter_neg < -1e-13:
            rec.hit('series:intermediate-infeasible'); rec.refuse('InfeasibleRegion (an intermediate composition of the series would be negative)'); return
        if neg < -1e-13:
            rec.ok('must-raise'); rec.refuse('InfeasibleRegion (model agrees: a flow would be negative)')
        else:
            rec.check(False, 'react', f'{spurious_key(case, flows)}/{tag}', f'InfeasibleRegion raised although the dense model predicts no negative flow (most negative total {neg:.3g})',
                      detail={'expected': {str(k): v for k, v in expected.items()}})
        return
    if inter_neg < -1e-9 and neg >= -1e-9:
        rec.refuse('series passes through a negative intermediate composition but ends non-negative (outside the decided domain)'); return
    if neg < -1e-9:
        rec.check(False, 'must-raise', f'returned-negative/{tag}', f'call returned normally although the conversion requires a negative flow (predicted negative total {neg:.3g})',
                  detail={'expected': {str(k): v for k, v in expected.items()}, 'got': {str(k): v for k, v in read().items()}})
        return
    got = read()
    # (1) species by the dense model
    bad = []; worst = 0.0
    for k in set(got) | set(expected):
        a, b = got.get(k, 0.0), expected.get(k, 0.0)
        if b < 0 and b > -1e-9: b = 0.0     # round-off negatives are zeroed by the library
        tol = 1e-11 * max(abs(a), abs(b)) + 1e-12 * scale
        if abs(a - b) > tol: bad.append((str(k), a, b))
        worst = max(worst, abs(a - b) / scale)
    rec.check(not bad, 'species', f'{tag}', f'species flows differ from feed + X*feed_r*nu: {bad[:4]}', residual=worst,
              detail={'expected': {str(k): v for k, v in expected.items()}, 'got': {str(k): v for k, v in got.items()}})
    # (2) no negative flow
    negs = [(str(k), v) for k, v in got.items() if v < 0]
    if call != 'force': rec.check(not negs, 'non-negative', f'{tag}', f'negative flows after a normal return: {negs[:4]}')
    # (3) mass and atoms (independent of the model: only needs the stoichiometry to be balanced, which it is by construction)
    m0, m1 = R.mass_of(flows, MW), R.mass_of(got, MW)
    rec.check(abs(m1 - m0) <= 1e-11 * max(m0, m1) + 1e-9 * 0, 'mass', f'{tag}', f'total mass changed {m0!r} -> {m1!r}', residual=abs(m1 - m0) / max(m0, 1e-300))
    a0, a1 = R.atoms_of(flows), R.atoms_of(got)
    aw = max(abs(x - y) / max(abs(x), abs(y), 1e-300) for x, y in zip(a0, a1))
    amax = max(a0)
    rec.check(all(abs(x - y) <= 1e-11 * max(abs(x), abs(y)) + 1e-12 * amax for x, y in zip(a0, a1)), 'atoms', f'{tag}', f'element totals changed {a0} -> {a1}', residual=aw)
    # (4) single reaction: reactant consumed = X * feed
    if case['comb'] == 'single':
        d = case['members'][0]; r = d['reactant']
        k = (d['ph'][r], r) if d.get('ph') else r
        f0 = flows.get(k, 0.0); f1 = got.get(k, 0.0)
        rec.check(abs((f0 - f1) - d['X'] * f0) <= 1e-11 * f0 + 1e-300, 'reactant-consumed', f'{tag}', f'reactant consumed {f0 - f1!r} != X*feed {d["X"] * f0!r}',
                  residual=abs((f0 - f1) - d['X'] * f0) / max(f0, 1e-300))
    # (5) invariants of sparse targets
    if case['target'] in ('stream.mol', 'stream.mass'):
        e = sparse_invariant(stream.imol.data); rec.check(e is None, 'invariant', tag, f'sparse invariant: {e}')
    elif isinstance(obj, (SV, SA)):
        e = sparse_invariant(obj); rec.check(e is None, 'invariant', tag, f'sparse invariant: {e}')
    elif isinstance(obj, tmo.Stream):
        e = sparse_invariant(obj.imol.data); rec.check(e is None, 'invariant', tag, f'sparse invariant: {e}')
        if case['target'] == 'stream-foreign':
            rec.check(obj.chemicals is R.thermo(perm=True).chemicals, 'package-restored', tag, 'stream did not get its own property package back')
        restored('the reaction call')
        if case['target'] == 'stream-superset':
            ex = float(np.sum(obj.imol[EXTRA]))
            rec.check(ex == case.get('extra_flow', 0.0), 'species', f'inert-of-other-package/{tag}', f'flow of {EXTRA} (unknown to the reaction) changed {case.get("extra_flow", 0.0)} -> {ex}')
    # (6) mol and wt copies of the same reaction give the same stream
    if isinstance(obj, tmo.Stream) and case['comb'] in ('single', 'parallel', 'series'):
        other = 'wt' if case['basis'] == 'mol' else 'mol'
        try:
            rx_src = select(build(full, th), full)
            rx2 = rx_src.copy(basis=other)
            obj2, read2 = make_target(case, th, flows, MW)
            rx2(obj2)
            got2 = read2()
            # the reaction the copy was taken from still acts as before (a re-based copy must not share rows with its source)
            obj3, read3 = make_target(case, th, flows, MW)
            rx_src(obj3)
            got3 = read3()
            bad3 = [(str(k), got.get(k, 0.0), got3.get(k, 0.0)) for k in set(got) | set(got3)
                    if abs(got.get(k, 0.0) - got3.get(k, 0.0)) > 1e-10 * max(abs(got.get(k, 0.0)), abs(got3.get(k, 0.0))) + 1e-11 * scale]
            rec.check(not bad3, 'basis-equivalence', f'source-after-rebased-copy/{tag}', f'after copy(basis={other}) the source reaction acts differently from before: {bad3[:4]}')
            bad2 = [(str(k), got.get(k, 0.0), got2.get(k, 0.0)) for k in set(got) | set(got2)
                    if abs(got.get(k, 0.0) - got2.get(k, 0.0)) > 1e-10 * max(abs(got.get(k, 0.0)), abs(got2.get(k, 0.0))) + 1e-11 * scale]
            rec.check(not bad2, 'basis-equivalence', f'{tag}', f'copy(basis={other}) gives another result on the same stream: {bad2[:4]}')
        except InfeasibleRegion:
            # the call itself returned normally: the copy on the other basis (threshold in other units) or the source used again may only raise where the model is at the threshold
            rec.hit('basis-equivalence:copy-infeasible')
            if min(neg_mol, neg_mass) < -1e-13 or inter_neg < -1e-13 or full.get('exact'): rec.refuse('basis copy infeasible at round-off level')
            else: rec.check(False, 'basis-equivalence', f'copy-{spurious_key(case, flows)}/{tag}', f'the reaction returned normally but its copy(basis={other}) / the source used again raised InfeasibleRegion on the same feed '
                            f'although the dense model predicts no negative flow (most negative total {min(neg_mol, neg_mass):.3g})')
        except Exception as e:
            rec.exception('basis-equivalence', e, what=f'copy(basis={other}) path raised {type(e).__name__}: {str(e)[:200]}')
    allrx = case['members'] if case['comb'] != 'system' else [r for m in case['members'] for r in m['rx']]
    if any(0 < r['X'] and flows.get((r['ph'][r['reactant']], r['reactant']) if r.get('ph') else r['reactant'], 0) > 0 and len(r['st']) >= 3 for r in allrx):
        rec.mark_nontrivial(case_hash(full))


def siblings(call, case, full, rec, rx, obj, read, flows, expected, th, MW, tag, scale, restored):
    """conversion(material): the change a single reaction would make; ReactionSystem.reactant_flux: the amount of reactant a member converts."""
    ids = th.chemicals.IDs
    phases = tuple(case.get('phases') or ('g', 'l'))
    f = (lambda i: MW[i]) if case['basis'] == 'wt' else (lambda i: 1.0)      # streams are read in the basis of the reaction, bare arrays are given in it
    stream = getattr(read, 'stream', None)
    before = raw_state(obj, stream)
    if call == 'conversion':
        try:
            chg = rx.conversion(obj)
        except UndefinedChemicalAlias as e:
            if case['target'] == 'stream-superset' and case.get('extra_flow'):
                rec.refuse('stream carries a chemical the reaction package does not know (UndefinedChemicalAlias)')
                after_refusal(rec, 'conversion', 'UndefinedChemicalAlias', tag, obj, stream, before, restored); return
            rec.exception('conversion', e, what=f'conversion(material) ({tag}) raised {type(e).__name__}: {str(e)[:200]}'); return
        except Exception as e:
            rec.exception('conversion', e, what=f'conversion(material) ({tag}) raised {type(e).__name__}: {str(e)[:200]}'); return
        a = chg.to_array() if hasattr(chg, 'to_array') else np.asarray(chg, float)
        if case['tagged']: got = {(phases[r], ids[j]): a[r, j] / f(ids[j]) for r in range(a.shape[0]) for j in range(a.shape[1]) if a[r, j]}
        else: got = {ids[j]: a[j] / f(ids[j]) for j in range(len(ids)) if a[j]}
        bad = []; worst = 0.0
        for k in set(got) | set(expected) | set(flows):
            x, y = got.get(k, 0.0), expected.get(k, 0.0) - flows.get(k, 0.0)
            if abs(x - y) > 1e-11 * max(abs(x), abs(y)) + 1e-12 * scale: bad.append((str(k), x, y))
            worst = max(worst, abs(x - y) / scale)
        rec.check(not bad, 'conversion', tag, f'conversion(material) != X*feed_r*nu (mol): {bad[:4]}', residual=worst,
                  detail={'expected-change': {str(k): expected.get(k, 0.0) - flows.get(k, 0.0) for k in set(expected) | set(flows)}, 'got': {str(k): v for k, v in got.items()}})
        restored('conversion(material)')
        # conversion(material) is a question about the material, not an application: the material is bit-identical afterwards
        rec.hit('conversion:material-judged')
        unchanged(rec, 'conversion', f'material-changed/{tag}', obj, stream, before, 'conversion(material) changed the material it was asked about')
        d = case['members'][0]
        if d['X'] > 0 and flows.get((d['ph'][d['reactant']], d['reactant']) if d.get('ph') else d['reactant'], 0) > 0 and len(d['st']) >= 3: rec.mark_nontrivial(case_hash(full))
        return
    # reactant_flux(material, index, subindex)
    i, j = case['flux']
    parts = case['members']
    # dense model FIRST (a refusal is granted only where the model warrants it): the parts ahead act in sequence; inside a series part the members ahead act too; inside
    # a parallel part all members see the part's feed. The library applies every part ahead (and every member ahead of a series part) through its feasibility test:
    # `lowest` = most negative flow (mol), `low_b` = most negative total of the negative flows (units of the basis) at those points
    fl = dict(flows); lowest = 0.0; low_b = 0.0
    def look(fl):
        nonlocal lowest, low_b
        lowest = min([lowest] + list(fl.values()))
        low_b = min(low_b, sum(v * f(k[1] if isinstance(k, tuple) else k) for k, v in fl.items() if v < 0))
    for m in parts[:i]:
        fl = model({'comb': m['k'], 'members': m['rx']}, fl); look(fl)
    m = parts[i]
    if m['k'] == 'series' and j is not None:
        for d in m['rx'][:j]:
            fl = R.model_apply(fl, d); look(fl)
    kind = m['k'] + ('' if j is None else '-member')
    def untouched(how):
        # reactant_flux is a question about the material: whatever the outcome, the material is bit-identical afterwards and the stream on its own package
        rec.hit('reactant-flux:material-judged')
        restored(how)
        unchanged(rec, 'reactant-flux', f'material-changed/{how}/{kind}/{tag}', obj, stream, before, f'{how} changed the material it was asked about')
    try:
        got = rx.reactant_flux(obj, i) if j is None else rx.reactant_flux(obj, i, j)
    except UndefinedChemicalAlias as e:
        if case['target'] == 'stream-superset' and case.get('extra_flow'):
            rec.refuse('stream carries a chemical the reaction package does not know (UndefinedChemicalAlias)')
            after_refusal(rec, 'reactant-flux', 'UndefinedChemicalAlias', tag, obj, stream, before, restored); return
        rec.exception('reactant-flux', e, what=f'reactant_flux ({tag}) raised {type(e).__name__}: {str(e)[:200]}'); return
    except InfeasibleRegion:
        rec.hit('reactant-flux:infeasible')
        if low_b < -1e-13:
            rec.hit('reactant-flux:infeasible-model-agrees'); rec.refuse('reactant_flux: a part ahead of the addressed one is infeasible on this feed')
        elif full.get('exact'):
            rec.refuse('InfeasibleRegion at the exact-consumption boundary (round-off decides; not judged)')
        else:
            rec.check(False, 'reactant-flux', f'{spurious_key(case, flows)}/{kind}/{tag}', f'reactant_flux(index={i}, subindex={j}) raised InfeasibleRegion although the dense model finds every part ahead of the addressed one '
                      f'feasible (most negative total ahead {low_b:.3g})', detail={'running-composition': {str(k): v for k, v in fl.items()}})
        untouched('reactant_flux-infeasible'); return
    except ValueError as e:
        if parts[i]['k'] == 'series' and j is None and 'subindex' in str(e):
            rec.refuse('reactant_flux of a series part without subindex (documented ValueError)'); untouched('reactant_flux-refused'); return
        rec.exception('reactant-flux', e, what=f'reactant_flux ({tag}) raised {type(e).__name__}: {str(e)[:200]}'); return
    except Exception as e:
        rec.exception('reactant-flux', e, what=f'reactant_flux ({tag}) raised {type(e).__name__}: {str(e)[:200]}'); return
    untouched('reactant_flux')
    if lowest < -1e-13:
        rec.refuse('reactant_flux behind an infeasible part (not judged)'); return
    def amount(d):
        r = d['reactant']; k = (d['ph'][r], r) if d.get('ph') else r
        return d['X'] * fl.get(k, 0.0) * f(r)
    ds = m['rx'] if j is None else [m['rx'][j]]
    exp = sum(amount(d) for d in ds)
    big = max([abs(v) * f(k[1] if isinstance(k, tuple) else k) for k, v in fl.items()] + [1e-300])
    ok = np.ndim(got) == 0 and abs(float(got) - exp) <= 1e-11 * max(abs(exp), abs(float(got))) + 1e-12 * big
    rec.check(ok, 'reactant-flux', f'{kind}/{tag}', f'reactant_flux(index={i}, subindex={j}) = {got!r} but X * running reactant amount = {exp!r}', residual=(abs(float(got) - exp) / big) if np.ndim(got) == 0 else None)
    if exp > 0: rec.mark_nontrivial(case_hash(full))


# ---------------------------------------------------------------------------------------------------------------------
# reactions obtained by arithmetic (a + b, sum([...]), a - b) from balanced reactions on possibly different bases are balanced reactions too:
# applied to a stream they conserve mass and atoms and act like their members in parallel

def gen_sum(rng):
    for _ in range(200):
        a = R.gen_reaction(rng, phases_p=0); r = a['reactant']; others = []
        for _ in range(60):
            b = R.gen_reaction(rng, phases_p=0)
            if r in b['st']:
                if b['st'][r] > 0: b['st'] = {i: -v for i, v in b['st'].items()}
                b['reactant'] = r; others.append(b)
                if len(others) == 2: break
        if len(others) == 2: break
    rx = [a] + others[:rng.choice([1, 2])]
    for d in rx:
        d['X'] = round(rng.uniform(0.02, 0.25), 4); d['basis'] = rng.choice(['mol', 'wt'])
    feed = {i: round(10 ** rng.uniform(1.5, 3), 3) for i in R.IDS}
    how = rng.choice(['+', 'sum', '+=']); foreign = rng.random() < 0.25
    if rng.random() < 0.7:
        # make the co-reactants sufficient (the members act in parallel on the feed), so that the combined reaction is judged on a normal return rather than refused
        need = {}
        for d in rx:
            for i, v in d['st'].items():
                if v < 0 and i != r: need[i] = need.get(i, 0.0) + feed[r] * d['X'] * v / d['st'][r]
        for i, v in need.items(): feed[i] = max(feed[i], round(v * rng.uniform(1.05, 3.0), 3))
    return {'t': 'sum', 'rx': rx, 'how': how, 'feed': feed, 'foreign': foreign}


def run_sum(case, rec):
    rec.begin_case(case)
    th = R.thermo(); MW = R.mw(th)
    try:
        objs = [R.build_reaction(d, th) for d in case['rx']]
        if case['how'] == '+':
            tot = objs[0]
            for o in objs[1:]: tot = tot + o
        elif case['how'] == 'sum': tot = sum(objs)
        else:
            tot = objs[0].copy()
            for o in objs[1:]: tot += o
    except Exception as e:
        rec.exception('combine', e, what=f'combining {len(case["rx"])} reactions ({case["how"]}) raised {type(e).__name__}: {str(e)[:150]}'); return
    bases = '/'.join(d['basis'] for d in case['rx'])
    tag = f'{case["how"]}/{"same-basis" if len(set(d["basis"] for d in case["rx"])) == 1 else "mixed-basis"}'
    rec.hit('combined:' + tag)
    sth = R.thermo(perm=True) if case['foreign'] else th
    st = tmo.Stream(None, thermo=sth)
    for i, v in case['feed'].items(): st.imol[i] = v
    flows = dict(case['feed'])
    # the members in parallel on the feed (computed BEFORE the call: a refusal is granted only where this model warrants it)
    exp = dict(flows)
    for d in case['rx']:
        ext = R.model_extent(flows, d)
        for i, v in d['st'].items(): exp[i] = exp.get(i, 0.0) + ext * v / -d['st'][d['reactant']]
    neg_mol = sum(v for v in exp.values() if v < 0); neg_mass = sum(MW[i] * v for i, v in exp.items() if v < 0)      # neg_mass <= 2 * neg_mol: whatever the basis of the result,
    before = st.imol.data.to_array().copy()                                                                             # its test sees a total between the two
    def own():
        pk = sth.chemicals
        return rec.check(st.chemicals is pk and st.imol.chemicals is pk, 'package-restored', f'combined/{tag}', 'after the call of a combined reaction the stream is not back on its own property package') if case['foreign'] else True
    try:
        tot(st)
    except InfeasibleRegion:
        rec.hit('combined:infeasible')
        if neg_mass < -1e-13:
            rec.ok('must-raise'); rec.refuse('InfeasibleRegion (model agrees: a flow would be negative)')
        else:
            rec.check(False, 'react', f'{spurious_key({"comb": "parallel", "members": case["rx"]}, flows)}/combined/{tag}', f'a reaction obtained by {case["how"]} of reactions on bases {bases} raised InfeasibleRegion although its members in parallel leave no negative flow '
                      f'(most negative total {neg_mol:.3g} mol)', detail={'expected': exp})
        if own():
            # a stream reacted in place (result on a molar basis) keeps mass and atoms, one reacted on a copy (weight basis) is untouched: either way total mass is what it was
            got = {st.chemicals.IDs[j]: v for j, v in st.imol.data.dct.items()}
            m0, m1 = R.mass_of(flows, MW), R.mass_of(got, MW); big = R.mass_of({k: abs(v) for k, v in got.items()}, MW)
            rec.check(abs(m1 - m0) <= 1e-11 * max(m0, big), 'mass', f'after-infeasible/combined/{tag}', f'InfeasibleRegion was raised and the stream was left with another total mass {m0!r} -> {m1!r}', residual=abs(m1 - m0) / max(m0, big))
        return
    except Exception as e:
        rec.exception('combine', e, what=f'applying a combined reaction ({tag}) raised {type(e).__name__}: {str(e)[:150]}'); return
    own()
    if neg_mol < -1e-9:
        rec.check(False, 'must-raise', f'returned-negative/combined/{tag}', f'a reaction obtained by {case["how"]} of reactions on bases {bases} returned normally although its members in parallel require a negative flow '
                  f'(predicted negative total {neg_mol:.3g} mol)', detail={'expected': exp, 'got': {st.chemicals.IDs[j]: v for j, v in st.imol.data.dct.items()}})
        return
    rec.hit('combined:judged')
    got = {st.chemicals.IDs[j]: v for j, v in st.imol.data.dct.items()}
    m0, m1 = R.mass_of(flows, MW), R.mass_of(got, MW)
    rec.check(abs(m1 - m0) <= 1e-11 * max(m0, m1), 'mass', f'combined/{tag}', f'a reaction obtained by {case["how"]} of reactions on bases {bases} changed total mass {m0!r} -> {m1!r}', residual=abs(m1 - m0) / max(m0, 1e-300))
    a0, a1 = R.atoms_of(flows), R.atoms_of(got); amax = max(a0)
    rec.check(all(abs(x - y) <= 1e-11 * max(abs(x), abs(y)) + 1e-12 * amax for x, y in zip(a0, a1)), 'atoms', f'combined/{tag}', f'a reaction obtained by {case["how"]} of reactions on bases {bases} changed element totals {a0} -> {a1}')
    negs = [(k, v) for k, v in got.items() if v < 0]
    rec.check(not negs, 'non-negative', f'combined/{tag}', f'negative flows after a normal return of a combined reaction: {negs[:4]}')
    # species: the members in parallel on the feed
    scale = max(flows.values())
    bad = [(k, got.get(k, 0.0), exp.get(k, 0.0)) for k in set(got) | set(exp) if abs(got.get(k, 0.0) - exp.get(k, 0.0)) > 1e-10 * max(abs(got.get(k, 0.0)), abs(exp.get(k, 0.0))) + 1e-12 * scale]
    rec.check(not bad, 'species', f'combined/{tag}', f'combined reaction ({tag}; bases {bases}) differs from its members in parallel: {bad[:4]}')
    rec.mark_nontrivial(case_hash(case))


# ---------------------------------------------------------------------------------------------------------------------
# histories: the reaction objects are changed through their documented setters / copies BETWEEN construction and the call.
# A Reaction re-based in place (rxn.basis = ...) is the same reaction: on a stream it acts as before. A set / system built from Reaction objects whose
# members are re-based (before / after the container was built, there and back again), whose items / parts refuse the setter, whose items are copied and the copy
# re-based, or whose conversions are set through the container / an item / a member must - whenever the call returns normally - still conserve mass and atoms and
# act like the reactions it was defined from; a container that notices the inconsistency and raises is a refusal (counted, not judged).

def leaves_of(case):
    return case['members'] if case['comb'] != 'system' else [r for m in case['members'] for r in m['rx']]


def gen_hist(rng):
    while True:
        case = gen_case(rng)
        if case.get('exact'): continue
        if case['comb'] != 'system' and rng.random() < 0.3: continue        # systems (the container that holds the very objects it was given) a little more often than in gen_case
        break
    for k in ('sub', 'call', 'flux'): case.pop(k, None)
    if case['target'] not in ('stream', 'stream-foreign', 'stream-subset'):          # histories are judged on streams (a bare array has no basis of its own)
        case['target'] = rng.choice(['stream', 'stream', 'stream-foreign']); case.pop('pkg', None); case.pop('extra_flow', None)
    case['t'] = 'hist'
    comb = case['comb']; members = case['members']; leaves = leaves_of(case); n = len(leaves)
    if comb == 'system':
        part_of = [i for i, m in enumerate(members) for _ in m['rx']]
        direct = [k for k in range(n) if members[part_of[k]]['k'] == 'single']
        inset = [k for k in range(n) if members[part_of[k]]['k'] != 'single']
        setparts = [i for i, m in enumerate(members) if m['k'] != 'single']
    if comb == 'single': kind = rng.choice(['self-basis'] * 3 + ['X-setter'])
    else: kind = rng.choice(['member-basis-after'] * 6 + ['member-basis-before'] * 2 + ['refused-setter', 'item-copy-rebased', 'X-setter', 'X-setter'])
    if comb == 'system' and kind in ('refused-setter', 'item-copy-rebased') and not setparts: kind = 'member-basis-after'
    h = {'kind': kind, 'warm': rng.random() < 0.3}
    if kind in ('self-basis', 'member-basis-after'): h['roundtrip'] = rng.random() < 0.25
    if kind == 'member-basis-after':
        pool = list(range(n))
        if comb == 'system':
            u = rng.random()
            if u < 0.55 and direct: pool = direct
            elif u < 0.85 and inset: pool = inset
        h['which'] = sorted(rng.sample(pool, rng.randrange(1, len(pool) + 1)))
    elif kind == 'member-basis-before':
        h['which'] = list(range(n)) if (n == 1 or rng.random() < 0.5) else sorted(rng.sample(range(n), rng.randrange(1, n)))
    elif kind == 'refused-setter':
        if comb == 'system': h['on'] = ['part', rng.choice(setparts)]
        else: h['on'] = rng.choice([['set'], ['item', rng.randrange(n)], ['iter', rng.randrange(n)]])
    elif kind == 'item-copy-rebased':
        if comb == 'system':
            i = rng.choice(setparts); h['part'] = i
            h['item'] = rng.randrange(len(members[i]['rx']))
        else: h['item'] = rng.randrange(n)
        h['src'] = rng.choice(['item', 'iter', 'member']); h['how'] = rng.choice(['copy(basis)', 'copy-then-setter'])
    elif kind == 'X-setter':
        newx = lambda: rng.choice([0.0, 1.0, 0.5, round(rng.random(), 4), round(rng.random(), 4)])
        if comb == 'single': h['via'] = 'self'; h['X'] = {'0': newx()}
        elif comb in ('parallel', 'series'):
            h['via'] = rng.choice(['set', 'set-array', 'item', 'iter-item'])
            if h['via'] in ('set', 'set-array'): h['X'] = {str(k): newx() for k in range(n)}
            else: h['X'] = {str(rng.randrange(n)): newx()}
        else:
            via = rng.choice(['system', 'direct-member', 'part', 'part-item'])
            if via == 'direct-member' and not direct: via = 'system'
            if via in ('part', 'part-item') and not setparts: via = 'system'
            h['via'] = via
            if via == 'system': h['X'] = {str(k): newx() for k in range(n)}
            elif via == 'direct-member': h['X'] = {str(k): newx() for k in sorted(rng.sample(direct, rng.randrange(1, len(direct) + 1)))}
            elif via == 'part':
                i = rng.choice(setparts); h['X'] = {str(k): newx() for k in range(n) if part_of[k] == i}
            else: h['X'] = {str(rng.choice(inset)): newx()}
    # the applier
    u = rng.random()
    if comb == 'single' and kind == 'self-basis': h['call'] = 'conversion' if u < 0.25 else ('force' if u < 0.35 else 'call')
    elif comb == 'system' and u < 0.25 and kind in ('member-basis-after', 'member-basis-before', 'X-setter'):
        i = rng.randrange(len(members)); m = members[i]
        j = None if m['k'] == 'single' else rng.randrange(len(m['rx']))
        if m['k'] == 'parallel' and rng.random() < 0.4: j = None
        h['call'] = 'flux'; h['flux'] = [i, j]
    else: h['call'] = 'force' if u > 0.9 else 'call'
    case['hist'] = h
    return case


def assemble(case, leaves):
    """the container built from the given Reaction objects; returns (container, parts of a system)."""
    comb = case['comb']
    if comb == 'single': return leaves[0], []
    if comb == 'parallel': return tmo.ParallelReaction(leaves), []
    if comb == 'series': return tmo.SeriesReaction(leaves), []
    parts = []; p = 0
    for m in case['members']:
        rs = leaves[p:p + len(m['rx'])]; p += len(m['rx'])
        parts.append(rs[0] if m['k'] == 'single' else (tmo.ParallelReaction(rs) if m['k'] == 'parallel' else tmo.SeriesReaction(rs)))
    return tmo.ReactionSystem(*parts), parts


def with_X(case, newX):
    """the case with the conversions of the given leaves (flat index) replaced."""
    k = 0
    def upd(d):
        nonlocal k
        d = dict(d)
        if str(k) in newX: d['X'] = newX[str(k)]
        k += 1
        return d
    if case['comb'] != 'system': return dict(case, members=[upd(d) for d in case['members']])
    return dict(case, members=[dict(m, rx=[upd(d) for d in m['rx']]) for m in case['members']])


def feasibility(case, expected, flows, MW):
    """(negative total of the model's final flows in mol, the same in mass, most negative intermediate flow of the steps in sequence) - the rules of run_case."""
    neg_mol = sum(v for v in expected.values() if v < 0)
    neg_mass = sum(MW[k[1] if isinstance(k, tuple) else k] * v for k, v in expected.items() if v < 0)
    inter_neg = 0.0
    if case['comb'] in ('series', 'system'):
        groups = [('series', case['members'])] if case['comb'] == 'series' else [(m['k'], m['rx']) for m in case['members']]
        fl = flows
        for kind_, ds in groups:
            if kind_ == 'series':
                for d in ds:
                    fl = R.model_apply(fl, d)
                    inter_neg = min(inter_neg, min(list(fl.values()) + [0.0]))
            else:
                fl = model({'comb': 'parallel', 'members': ds}, fl) if kind_ == 'parallel' else R.model_apply(fl, ds[0])
                inter_neg = min(inter_neg, min(list(fl.values()) + [0.0]))
    return neg_mol, neg_mass, inter_neg


def is_basis_refusal(e):
    return isinstance(e, (RuntimeError, ValueError, TypeError)) and 'basis' in str(e)


def judge_history_call(case, rec, rx, th, MW, flows, htag, tag, call, state):
    """apply rx (a reaction / set / system after its history) to a fresh stream of the case and judge the result against the dense model of `case`.
    state 'consistent': every rule of run_case applies; state 'stale': the container was built before its members were re-based - a refusal or an
    InfeasibleRegion is counted, a normal return is judged. Returns True when a normal return was judged."""
    expected = model(case, flows)
    neg_mol, neg_mass, inter_neg = feasibility(case, expected, flows, MW)
    neg = min(neg_mol, neg_mass) if state == 'stale' else (neg_mass if case['basis'] == 'wt' else neg_mol)
    obj, read = make_target(case, th, flows, MW)
    key = f'history:{htag}/{tag}' + ('/force_reaction' if call == 'force' else '')
    scale = max([abs(v) for v in flows.values()] + [1e-300])
    foreign = case['target'] in ('stream-foreign', 'stream-subset')
    def restored(how):
        if foreign:
            pk = stream_package(case).chemicals
            return rec.check(obj.chemicals is pk and obj.imol.chemicals is pk, 'package-restored', f'{how}/{key}',
                             f'after {how} the stream is not back on its own property package (stream.chemicals own: {obj.chemicals is pk}, stream.imol.chemicals own: {obj.imol.chemicals is pk})')
        return True
    before = raw_state(obj, obj)
    try:
        (rx.force_reaction if call == 'force' else rx)(obj)
        raised = None
    except InfeasibleRegion as e:
        raised = e
    except Exception as e:
        if state == 'stale' and is_basis_refusal(e):
            rec.hit('hist:stale-container-refused'); rec.refuse(f'a container whose members were re-based after it was built refused the call ({type(e).__name__}: bases differ)')
            # a refusal is an answer about the reactions, not an application: the stream stays a stream of its own package
            if restored('basis-refusal') and not np.array_equal(raw_state(obj, obj), before): rec.hit('hist:basis-refusal-left-stream-partly-reacted')      # counted, not judged (mass is conserved by every member applied)
            return False
        rec.exception('react', e, what=f'reaction call after history ({key}) raised {type(e).__name__}: {str(e)[:200]}'); return False
    if raised is not None:
        if state == 'stale': rec.hit('hist:stale-infeasible'); restored('InfeasibleRegion')
        else: after_infeasible(rec, case, tag, obj, obj, before, restored, read, flows, MW, key=key)
    if state == 'stale':
        if raised is not None:
            # the container either refuses (error naming the basis) or acts like its definition: then InfeasibleRegion needs a negative flow in the model (in the units of either basis)
            if neg < -1e-13 or inter_neg < -1e-13: rec.refuse('InfeasibleRegion from a container whose members were re-based after it was built (not judged)')
            else:
                rec.check(False, 'react', f'{spurious_key(case, flows)}/stale-container/{key}', f'a container whose members were re-based after it was built raised InfeasibleRegion although the reactions as defined leave no negative flow '
                          f'(most negative total {neg:.3g})', detail={'expected': {str(k): v for k, v in expected.items()}})
            return False
        if neg < -1e-13 or inter_neg < -1e-13: rec.refuse('container with re-based members on a feed the model finds infeasible (not judged)'); return False
        rec.hit('hist:stale-container-returned')
    else:
        if call == 'force':
            if raised is not None:
                rec.check(False, 'react', f'force-raised-infeasible/{key}', 'force_reaction (documented to ignore feasibility checks) raised InfeasibleRegion'); return False
            if neg < -1e-13 or inter_neg < -1e-13:
                rec.refuse('force_reaction of a conversion the model finds infeasible (feasibility deliberately unchecked; not judged)'); return False
        if raised is not None:
            if neg >= -1e-13 and inter_neg < -1e-13: rec.refuse('InfeasibleRegion (an intermediate composition of the series would be negative)'); return False
            if neg < -1e-13: rec.ok('must-raise'); rec.refuse('InfeasibleRegion (model agrees: a flow would be negative)')
            else:
                rec.check(False, 'react', f'{spurious_key(case, flows)}/{key}', f'InfeasibleRegion raised although the dense model predicts no negative flow (most negative total {neg:.3g})',
                          detail={'expected': {str(k): v for k, v in expected.items()}})
            return False
        if inter_neg < -1e-9 and neg >= -1e-9:
            rec.refuse('series passes through a negative intermediate composition but ends non-negative (outside the decided domain)'); return False
        if neg < -1e-9:
            rec.check(False, 'must-raise', f'returned-negative/{key}', f'call returned normally although the conversion requires a negative flow (predicted negative total {neg:.3g})',
                      detail={'expected': {str(k): v for k, v in expected.items()}, 'got': {str(k): v for k, v in read().items()}})
            return False
    got = read()
    what = f'after the history [{htag}] (reactions defined by {case["basis"] if state != "stale" else "mol/wt"}, target {case["target"]}) '
    bad = []; worst = 0.0
    for k in set(got) | set(expected):
        a, b = got.get(k, 0.0), expected.get(k, 0.0)
        if b < 0 and b > -1e-9: b = 0.0
        if abs(a - b) > 1e-11 * max(abs(a), abs(b)) + 1e-12 * scale: bad.append((str(k), a, b))
        worst = max(worst, abs(a - b) / scale)
    rec.check(not bad, 'species', key, what + f'species flows differ from feed + X*feed_r*nu of the reactions as defined: {bad[:4]}', residual=worst,
              detail={'expected': {str(k): v for k, v in expected.items()}, 'got': {str(k): v for k, v in got.items()}})
    negs = [(str(k), v) for k, v in got.items() if v < 0]
    if call != 'force': rec.check(not negs, 'non-negative', key, what + f'negative flows after a normal return: {negs[:4]}')
    m0, m1 = R.mass_of(flows, MW), R.mass_of(got, MW)
    rec.check(abs(m1 - m0) <= 1e-11 * max(m0, m1), 'mass', key, what + f'total mass changed {m0!r} -> {m1!r}', residual=abs(m1 - m0) / max(m0, 1e-300))
    a0, a1 = R.atoms_of(flows), R.atoms_of(got); amax = max(a0)
    rec.check(all(abs(x - y) <= 1e-11 * max(abs(x), abs(y)) + 1e-12 * amax for x, y in zip(a0, a1)), 'atoms', key, what + f'element totals changed {a0} -> {a1}',
              residual=max(abs(x - y) / max(abs(x), abs(y), 1e-300) for x, y in zip(a0, a1)))
    if case['comb'] == 'single':
        d = case['members'][0]; r = d['reactant']
        k = (d['ph'][r], r) if d.get('ph') else r
        f0 = flows.get(k, 0.0); f1 = got.get(k, 0.0)
        rec.check(abs((f0 - f1) - d['X'] * f0) <= 1e-11 * f0 + 1e-300, 'reactant-consumed', key, what + f'reactant consumed {f0 - f1!r} != X*feed {d["X"] * f0!r}',
                  residual=abs((f0 - f1) - d['X'] * f0) / max(f0, 1e-300))
    e = sparse_invariant(obj.imol.data); rec.check(e is None, 'invariant', key, f'sparse invariant: {e}')
    if case['target'] in ('stream-foreign', 'stream-subset'):
        pk = stream_package(case).chemicals
        rec.check(obj.chemicals is pk and obj.imol.chemicals is pk, 'package-restored', key, 'after the reaction call the stream is not back on its own property package')
    return True


def stale_flux(case, rec, rx, th, MW, flows, htag, tag, i, j):
    """reactant_flux of a system whose members were re-based after it was built: a refusal is counted; a returned amount must be X * running reactant amount of the
    addressed member (in the units of either basis: the system's and the member's differ, the documentation does not say which one is meant)."""
    obj, read = make_target(case, th, flows, MW)
    parts = case['members']
    key = f'history:{htag}/{parts[i]["k"] + ("" if j is None else "-member")}/{tag}'
    # dense model first: a refusal for infeasibility is granted only where the model finds a part ahead negative
    fl = dict(flows); lowest = 0.0
    for m in parts[:i]:
        fl = model({'comb': m['k'], 'members': m['rx']}, fl); lowest = min([lowest] + list(fl.values()))
    m = parts[i]
    if m['k'] == 'series' and j is not None:
        for d in m['rx'][:j]:
            fl = R.model_apply(fl, d); lowest = min([lowest] + list(fl.values()))
    before = raw_state(obj, obj)
    def untouched(how):
        rec.hit('reactant-flux:material-judged')
        if case['target'] in ('stream-foreign', 'stream-subset'):
            pk = stream_package(case).chemicals
            rec.check(obj.chemicals is pk and obj.imol.chemicals is pk, 'package-restored', f'{how}/{key}', f'after {how} the stream is not back on its own property package')
        unchanged(rec, 'reactant-flux', f'material-changed/{how}/{key}', obj, obj, before, f'{how} changed the material it was asked about')
    try:
        got = rx.reactant_flux(obj, i) if j is None else rx.reactant_flux(obj, i, j)
    except InfeasibleRegion:
        if lowest < -1e-13: rec.refuse('reactant_flux: a part ahead of the addressed one is infeasible on this feed')
        else:
            rec.check(False, 'reactant-flux', f'{spurious_key(case, flows)}/{key}', f'after the history [{htag}] reactant_flux(index={i}, subindex={j}) raised InfeasibleRegion although the dense model finds every part ahead feasible '
                      f'(most negative flow ahead {lowest:.3g})')
        untouched('reactant_flux-infeasible'); return False
    except Exception as e:
        if parts[i]['k'] == 'series' and j is None and isinstance(e, ValueError) and 'subindex' in str(e):
            rec.refuse('reactant_flux of a series part without subindex (documented ValueError)'); untouched('reactant_flux-refused'); return False
        if is_basis_refusal(e):
            rec.hit('hist:stale-container-refused'); rec.refuse(f'reactant_flux of a system whose members were re-based after it was built refused ({type(e).__name__}: bases differ)')
            untouched('reactant_flux-basis-refusal'); return False
        rec.exception('reactant-flux', e, what=f'reactant_flux after history ({htag}/{tag}) raised {type(e).__name__}: {str(e)[:200]}'); return False
    untouched('reactant_flux')
    if lowest < -1e-13:
        rec.refuse('reactant_flux behind an infeasible part (not judged)'); return False
    ds = m['rx'] if j is None else [m['rx'][j]]
    def amount(d, f):
        r = d['reactant']; k = (d['ph'][r], r) if d.get('ph') else r
        return d['X'] * fl.get(k, 0.0) * (MW[r] if f else 1.0)
    exps = [sum(amount(d, f) for d in ds) for f in (False, True)]
    big = max([abs(v) * MW[k[1] if isinstance(k, tuple) else k] for k, v in fl.items()] + [1e-300])
    ok = np.ndim(got) == 0 and any(abs(float(got) - x) <= 1e-11 * max(abs(x), abs(float(got))) + 1e-12 * big for x in exps)
    rec.hit('hist:stale-container-returned')
    rec.check(ok, 'reactant-flux', key,
              f'after the history [{htag}] reactant_flux(index={i}, subindex={j}) = {got!r} but X * running reactant amount = {exps[0]!r} (mol) / {exps[1]!r} (mass)')
    return True


def run_hist(case, rec):
    rec.begin_case(case)
    th = R.thermo(); MW = R.mw(th)
    h = case['hist']; kind = h['kind']; comb = case['comb']
    B0 = case['basis']; B1 = 'wt' if B0 == 'mol' else 'mol'
    phases = tuple(case.get('phases') or ('g', 'l'))
    flows = feed_dict(case)
    descs = leaves_of(case); n = len(descs)
    tag = f'{comb}/{"tagged" if case["tagged"] else "phase-less"}'      # basis, kind of stream and a first call before the history are in the witness, not in the key
    rec.hit('hist:' + kind)
    if case['tagged']: rec.hit('hist:tagged')
    if h.get('warm'): rec.hit('hist:after-first-call')
    try:
        leaves = [build_one(d, th, phases) for d in descs]
    except Exception as e:
        rec.exception('construct', e, what=f'constructing a reaction raised {type(e).__name__}: {str(e)[:200]}'); return
    state = 'consistent'; final = B0; htag = kind; model_case = case
    # -- before the container exists
    if kind == 'member-basis-before':
        try:
            for k in h['which']: leaves[k].basis = B1
        except Exception as e:
            rec.exception('basis-setter', e, what=f'Reaction.basis = {B1!r} raised {type(e).__name__}: {str(e)[:200]}'); return
        htag = 'member-basis-setter-before-construction'
        if len(h['which']) == n: final = B1; rec.hit('hist:all-members-rebased-before')
        else: state = 'mixed'; rec.hit('hist:some-members-rebased-before')
    try:
        rx, parts = assemble(case, leaves)
    except Exception as e:
        if state == 'mixed' and is_basis_refusal(e):
            rec.hit('hist:mixed-bases-refused-by-constructor'); rec.refuse('set / system of reactions on different bases refused by the constructor (ValueError)'); return
        rec.exception('construct', e, what=f'constructing {comb} from its reactions raised {type(e).__name__}: {str(e)[:200]}'); return
    if state == 'mixed': state = 'stale'; htag += ':mixed-accepted'
    # -- the container is used once before the history continues
    if h.get('warm'):
        objw, _ = make_target(case, th, flows, MW)
        try: rx(objw)
        except InfeasibleRegion: pass
        except Exception as e:
            if not (state == 'stale' and is_basis_refusal(e)):
                rec.exception('react', e, what=f'first call ({tag}) raised {type(e).__name__}: {str(e)[:200]}'); return
    # -- after the container exists
    extra = None
    try:
        if kind == 'self-basis':
            rx.basis = B1; final = B1; htag = 'self-basis-setter'
            if h['roundtrip']: rx.basis = B0; final = B0; htag += '-roundtrip'; rec.hit('hist:roundtrip')
        elif kind == 'member-basis-after':
            for k in h['which']: leaves[k].basis = B1
            htag = 'member-basis-setter-after-construction'
            if h['roundtrip']:
                for k in h['which']: leaves[k].basis = B0
                htag += '-roundtrip'; rec.hit('hist:roundtrip')
            else: state = 'stale'
            if comb == 'system':
                part_of = [i for i, m in enumerate(case['members']) for _ in m['rx']]
                cls = 'direct-member' if any(case['members'][part_of[k]]['k'] == 'single' for k in h['which']) else 'set-part-member'
                htag += ':' + cls; rec.hit('hist:system-' + cls)
            else: rec.hit('hist:set-member')
        elif kind == 'refused-setter':
            on = h['on']
            t = rx if on[0] == 'set' else (rx[on[1]] if on[0] in ('item', 'part') else list(rx)[on[1]])
            htag = 'basis-setter-of-' + {'set': 'set', 'item': 'item', 'iter': 'item', 'part': 'set-part'}[on[0]]
            try:
                t.basis = B1
                state = 'stale'; htag += ':accepted'           # accepted: whatever it did, the container must still act like its definition (or refuse)
            except TypeError as e:
                if 'basis' not in str(e): raise
                rec.hit('hist:setter-refused'); rec.refuse('basis setter of a reaction set / item refused (TypeError)'); htag += ':refused'
        elif kind == 'item-copy-rebased':
            holder = parts[h['part']] if comb == 'system' else rx
            p0 = sum(len(m['rx']) for m in case['members'][:h['part']]) if comb == 'system' else 0
            src = leaves[p0 + h['item']] if h['src'] == 'member' else (holder[h['item']] if h['src'] == 'item' else list(holder)[h['item']])
            if h['how'] == 'copy(basis)': cp = src.copy(basis=B1)
            else:
                cp = src.copy(); cp.basis = B1
            htag = f'rebased-copy-of-{"member" if h["src"] == "member" else "item"}'
            extra = (cp, descs[p0 + h['item']])
        elif kind == 'X-setter':
            via = h['via']; X = h['X']; htag = 'X-setter-via-' + via
            vals = [X[str(k)] for k in range(n) if str(k) in X]
            if via == 'self': rx.X = vals[0]
            elif via == 'set': rx.X = vals
            elif via == 'set-array': rx.X = np.array(vals)
            elif via in ('item', 'iter-item'):
                k = int(next(iter(X)))
                (rx[k] if via == 'item' else list(rx)[k]).X = vals[0]
            elif via == 'direct-member':
                for k in X: leaves[int(k)].X = X[k]
            else:
                part_of = [i for i, m in enumerate(case['members']) for _ in m['rx']]
                first = {i: part_of.index(i) for i in set(part_of)}
                if via == 'system':
                    rx.X = [X[str(first[i])] if m['k'] == 'single' else [X[str(first[i] + q)] for q in range(len(m['rx']))] for i, m in enumerate(case['members'])]
                elif via == 'part':
                    i = part_of[int(next(iter(X)))]; rx[i].X = vals
                else:
                    k = int(next(iter(X))); i = part_of[k]; rx[i][k - first[i]].X = vals[0]
            model_case = with_X(case, X)
    except Exception as e:
        rec.exception('setter', e, what=f'history step [{kind}] ({tag}) raised {type(e).__name__}: {str(e)[:200]}'); return
    model_case = dict(model_case, basis=final)
    call = h.get('call', 'call')
    if call != 'call': rec.hit('hist:call:' + call)
    if state == 'stale': rec.hit('hist:stale-container')
    judged = False
    if call == 'flux':
        i, j = h['flux']
        if state == 'stale': judged = stale_flux(model_case, rec, rx, th, MW, flows, htag, tag, i, j)
        else:
            obj, read = make_target(model_case, th, flows, MW)
            scale = max([abs(v) for v in flows.values()] + [1e-300])
            def restored(how):
                if case['target'] in ('stream-foreign', 'stream-subset'):
                    pk = stream_package(case).chemicals; s = read.stream
                    rec.check(s.chemicals is pk and s.imol.chemicals is pk, 'package-restored', f'{how}/history:{htag}/{tag}', f'after {how} the stream is not back on its own property package')
            siblings('flux', dict(model_case, flux=[i, j]), case, rec, rx, obj, read, flows, model(model_case, flows), th, MW, f'history:{htag}/{tag}', scale, restored)
    elif call == 'conversion':
        obj, read = make_target(model_case, th, flows, MW)
        scale = max([abs(v) for v in flows.values()] + [1e-300])
        def restored(how):
            if case['target'] in ('stream-foreign', 'stream-subset'):
                pk = stream_package(case).chemicals; s = read.stream
                rec.check(s.chemicals is pk and s.imol.chemicals is pk, 'package-restored', f'{how}/history:{htag}/{tag}', f'after {how} the stream is not back on its own property package')
        siblings('conversion', model_case, case, rec, rx, obj, read, flows, model(model_case, flows), th, MW, f'history:{htag}/{tag}', scale, restored)
    else:
        judged = judge_history_call(model_case, rec, rx, th, MW, flows, htag, tag, call, state)
    if extra is not None:
        # the re-based copy alone is the member reaction on the other basis
        cp, d = extra
        single = dict(case, comb='single', members=[d], basis=B1)
        judge_history_call(single, rec, cp, th, MW, flows, htag + ':the-copy', f'single/{"tagged" if case["tagged"] else "phase-less"}', 'call', 'consistent')
    if judged and any(0 < r['X'] and flows.get((r['ph'][r['reactant']], r['reactant']) if r.get('ph') else r['reactant'], 0) > 0 and len(r['st']) >= 3 for r in leaves_of(model_case)):
        rec.mark_nontrivial(case_hash(case))


def replay(case, rec):
    R.check_atoms()
    (run_sum if case.get('t') == 'sum' else run_hist if case.get('t') == 'hist' else run_case)(case, rec)


def run(rec, rng, tier, shard, nshards):
    R.check_atoms()
    n = 6000 if tier == 'quick' else 60000
    for i in range(n):
        case = gen_case(rng)
        try:
            run_case(case, rec)
        except Exception as e:
            rec.exception('harness', e, what=f'harness error: {type(e).__name__}: {e}')
        if i % 401 == 0: rec.sample(case)
    for i in range(400 if tier == 'quick' else 4000):
        case = gen_sum(rng)
        try:
            run_sum(case, rec)
        except Exception as e:
            rec.exception('harness', e, what=f'harness error: {type(e).__name__}: {e}')
    for i in range(3000 if tier == 'quick' else 30000):
        case = gen_hist(rng)
        try:
            run_hist(case, rec)
        except Exception as e:
            rec.exception('harness', e, what=f'harness error: {type(e).__name__}: {e}')
        if i % 301 == 0: rec.sample(case)
