"""C05 — reactions conserve mass and atoms and convert exactly X of the reactant.

Monitor: molar flows / total mass / element totals are recorded before and after the real call and compared with a dense
stoichiometric model whose stoichiometries are balanced by construction (rational null space of the formula matrix).
"""
import numpy as np
import thermosteam as tmo
from thermosteam.exceptions import InfeasibleRegion
from vt.core import case_hash
from vt import rxn as R
from vt.common import SV, SA, sparse_invariant

PID = 'C05'
RULE = ('random cases: 1-4 balanced reactions (null space of the C/H/O formula matrix over 16 chemicals, fractional coefficients, plus textbook reactions), '
        'combined as single / ParallelReaction / SeriesReaction / ReactionSystem, mol and wt basis (wt reactions constructed from mass coefficients), '
        'string and dict definitions, phase-less and phase-tagged (g/l); targets: Stream, MultiStream, stream on a permuted property package, bare SparseVector, '
        'ndarray, SparseArray, 2-d ndarray; feeds 10^U(-3,3) made sufficient in the co-reactants with probability 0.7. '
        'non-trivial = some conversion in (0,1] with non-zero reactant feed, >=3 species, normal return; distinct = hash of the case')
MIN_NONTRIVIAL = {'quick': 500, 'thorough': 20000}
ASSUMPTIONS = ['element counts come from a table written in the harness and cross-checked against the library at start-up',
               'between a predicted negative total of -1e-9 and -1e-13 (the library threshold is -1e-12) neither raising nor returning is judged']


def required(tier):
    return ['target:multistream', 'single', 'parallel', 'series', 'system', 'basis-equivalence', 'target:stream', 'target:stream-foreign', 'target:sv', 'target:nd',
            'target:sa', 'target:nd2', 'must-raise', 'phase-tagged']


def gen_case(rng):
    comb = rng.choice(['single', 'single', 'parallel', 'series', 'system'])
    tagged = rng.random() < 0.3
    basis = rng.choice(['mol', 'mol', 'wt'])
    phmap = {i: rng.choice('lg') for i in R.IDS} if tagged else None
    def one(allowed=None):
        d = R.gen_reaction(rng, allowed=allowed, phases_p=0)
        d['basis'] = basis
        if tagged: d['ph'] = {i: phmap[i] for i in d['st']}
        return d
    if comb == 'single': members = [one()]
    elif comb in ('parallel', 'series'): members = [one() for _ in range(rng.randrange(2, 5))]
    else:
        members = []
        for _ in range(rng.randrange(2, 4)):
            k = rng.choice(['single', 'parallel', 'series'])
            members.append({'k': k, 'rx': [one() for _ in range(1 if k == 'single' else rng.randrange(2, 4))]})
    # feed
    flows = {}
    for i in R.IDS:
        if rng.random() < 0.45: flows[i] = round(10 ** rng.uniform(-3, 3), rng.choice([3, 8]))
    all_rx = members if comb != 'system' else [r for m in members for r in m['rx']]
    for r in all_rx:
        if rng.random() < 0.85 and r['reactant'] not in flows: flows[r['reactant']] = round(10 ** rng.uniform(-2, 3), 4)
    if rng.random() < 0.7:
        # make the co-reactants sufficient (for the first-order extents)
        for r in all_rx:
            st = r['st']; fr = flows.get(r['reactant'], 0.0)
            for i, v in st.items():
                if v < 0 and i != r['reactant']:
                    need = fr * r['X'] * v / st[r['reactant']] * len(all_rx) * 1.5
                    flows[i] = max(flows.get(i, 0.0), need * rng.uniform(1.0, 3.0))
    if tagged:
        feed = {}
        for i, v in flows.items():
            if rng.random() < 0.8: feed[phmap[i] + '/' + i] = v
            else: feed[('l' if phmap[i] == 'g' else 'g') + '/' + i] = v   # material sitting in the other phase
    else:
        feed = flows
    if tagged: target = rng.choice(['stream', 'stream', 'stream-foreign', 'sa', 'nd2'])
    else: target = rng.choice(['stream', 'stream', 'stream-foreign', 'sv', 'nd'] * 4 + ['multistream'])     # phase-less reaction offered a multi-phase stream: refused or conserving, never silently wrong
    return {'comb': comb, 'members': members, 'tagged': tagged, 'basis': basis, 'feed': feed, 'target': target, 'phase': rng.choice('lg')}


def build(case, th):
    def one(d): return R.build_reaction(d, th)
    comb = case['comb']
    if comb == 'single': return one(case['members'][0])
    if comb == 'parallel': return tmo.ParallelReaction([one(d) for d in case['members']])
    if comb == 'series': return tmo.SeriesReaction([one(d) for d in case['members']])
    parts = []
    for m in case['members']:
        rs = [one(d) for d in m['rx']]
        parts.append(rs[0] if m['k'] == 'single' else (tmo.ParallelReaction(rs) if m['k'] == 'parallel' else tmo.SeriesReaction(rs)))
    return tmo.ReactionSystem(*parts)


def model(case, flows):
    """dense model: flows keyed by ID or (phase, ID) in mol."""
    def parallel(fl, ds):
        out = dict(fl)
        for d in ds:
            ext = R.model_extent(fl, d)
            nu = {i: v / -d['st'][d['reactant']] for i, v in d['st'].items()}
            for i, v in nu.items():
                k = (d['ph'][i], i) if d.get('ph') else i
                out[k] = out.get(k, 0.0) + ext * v
        return out
    def series(fl, ds):
        for d in ds: fl = R.model_apply(fl, d)
        return fl
    comb = case['comb']
    if comb == 'single': return R.model_apply(flows, case['members'][0])
    if comb == 'parallel': return parallel(flows, case['members'])
    if comb == 'series': return series(flows, case['members'])
    fl = flows
    for m in case['members']:
        fl = parallel(fl, m['rx']) if m['k'] == 'parallel' else series(fl, m['rx'])
    return fl


def feed_dict(case):
    if case['tagged']:
        return {(k.split('/')[0], k.split('/')[1]): v for k, v in case['feed'].items()}
    return dict(case['feed'])


def make_target(case, th, flows, MW):
    """returns (object passed to the reaction, reader() -> molar flows dict in the same keying as flows)"""
    t = case['target']; tagged = case['tagged']; basis = case['basis']
    ids = th.chemicals.IDs
    if t in ('stream', 'stream-foreign'):
        sth = R.thermo(perm=True) if t == 'stream-foreign' else th
        if tagged:
            s = tmo.MultiStream(None, phases=('g', 'l'), thermo=sth)
            for (ph, i), v in flows.items(): s.imol[ph, i] = v
            def read():
                out = {}
                for ph, row in zip(s.phases, s.imol.data.rows):
                    for j, v in row.dct.items(): out[(ph, s.chemicals.IDs[j])] = v
                return out
        else:
            s = tmo.Stream(None, phase=case['phase'], thermo=sth)
            for i, v in flows.items(): s.imol[i] = v
            def read():
                return {s.chemicals.IDs[j]: v for j, v in s.imol.data.dct.items()}
        return s, read
    # bare arrays are in the units of the reaction's basis
    f = (lambda i: MW[i]) if basis == 'wt' else (lambda i: 1.0)
    if not tagged:
        arr = np.zeros(len(ids))
        for i, v in flows.items(): arr[ids.index(i)] = v * f(i)
        obj = SV(arr) if t == 'sv' else arr
        def read():
            a = obj.to_array() if t == 'sv' else obj
            return {ids[j]: a[j] / f(ids[j]) for j in range(len(ids)) if a[j]}
        return obj, read
    arr = np.zeros((2, len(ids)))
    for (ph, i), v in flows.items(): arr[0 if ph == 'g' else 1, ids.index(i)] = v * f(i)
    obj = SA(arr) if t == 'sa' else arr
    def read():
        a = obj.to_array() if t == 'sa' else obj
        return {('g' if r == 0 else 'l', ids[j]): a[r, j] / f(ids[j]) for r in range(2) for j in range(len(ids)) if a[r, j]}
    return obj, read


def run_case(case, rec):
    rec.begin_case(case)
    th = R.thermo()
    MW = R.mw(th)
    flows = feed_dict(case)
    try:
        rx = build(case, th)
    except Exception as e:
        rec.exception('construct', e, what=f'constructing {case["comb"]} reaction raised {type(e).__name__}: {str(e)[:200]}'); return
    expected = model(case, flows)
    neg_mol = sum(v for v in expected.values() if v < 0)
    neg_mass = sum(MW[k[1] if isinstance(k, tuple) else k] * v for k, v in expected.items() if v < 0)
    neg = neg_mass if case['basis'] == 'wt' else neg_mol
    # series reactions act on the running composition: a step that needs more than the running composition holds is infeasible even if a later step
    # (running backwards on the negative amount) would bring the final flows back to zero
    inter_neg = 0.0
    if case['comb'] in ('series', 'system'):
        groups = [('series', case['members'])] if case['comb'] == 'series' else [(m['k'], m['rx']) for m in case['members']]
        fl = flows
        for kind_, ds in groups:
            if kind_ == 'series':
                for d in ds:
                    fl = R.model_apply(fl, d)
                    inter_neg = min(inter_neg, min(list(fl.values()) + [0.0]))
            else:
                fl = model({'comb': 'parallel', 'members': ds}, fl) if kind_ == 'parallel' else R.model_apply(fl, ds[0])
                inter_neg = min(inter_neg, min(list(fl.values()) + [0.0]))
    if case['target'] == 'multistream':
        ids_ = th.chemicals.IDs
        ms = tmo.MultiStream(None, phases=('g', 'l'), thermo=th)
        for i, v in flows.items(): ms.imol['g' if ids_.index(i) % 2 == 0 else 'l', i] = v
        b0 = ms.imol.data.to_array().copy()
        rec.hit('target:multistream')
        try:
            rx(ms)
        except InfeasibleRegion:
            rec.refuse('InfeasibleRegion'); return
        except Exception as e:
            a0 = ms.imol.data.to_array()
            rec.refuse(f'phase-less reaction on a multi-phase stream refused ({type(e).__name__})')
            rec.check(np.array_equal(a0, b0), 'multiphase-target', 'refusal-changed-stream', f'the call raised {type(e).__name__} but changed the stream: {b0.tolist()} -> {a0.tolist()}')
            return
        a0 = ms.imol.data.to_array()
        tot0, tot1 = b0.sum(0), a0.sum(0)
        MWa = th.chemicals.MW
        m0, m1 = float(tot0 @ MWa), float(tot1 @ MWa)
        rec.check(abs(m1 - m0) <= 1e-11 * max(m0, m1), 'multiphase-target', 'mass', f'phase-less {case["comb"]} reaction applied to a multi-phase stream returned normally and changed total mass {m0!r} -> {m1!r} (rows {b0.tolist()} -> {a0.tolist()})',
                  residual=abs(m1 - m0) / max(m0, 1e-300))
        rec.check(bool((a0 >= 0).all()), 'multiphase-target', 'negative', f'negative phase flows after a normal return: {a0.tolist()}')
        return
    obj, read = make_target(case, th, flows, MW)
    tag = f'{case["comb"]}/{case["basis"]}/{"tagged" if case["tagged"] else "phase-less"}/{case["target"]}'
    rec.hit('target:' + case['target']); rec.hit(case['comb'])
    if case['tagged']: rec.hit('phase-tagged')
    scale = max([abs(v) for v in flows.values()] + [1e-300])
    try:
        rx(obj)
        raised = None
    except InfeasibleRegion as e:
        raised = e
    except Exception as e:
        rec.exception('react', e, what=f'reaction call ({tag}) raised {type(e).__name__}: {str(e)[:200]}'); return
    if raised is not None:
        if neg >= -1e-13 and inter_neg < -1e-13:
            rec.hit('series:intermediate-infeasible'); rec.refuse('InfeasibleRegion (an intermediate composition of the series would be negative)'); return
        if neg < -1e-13:
            rec.ok('must-raise'); rec.refuse('InfeasibleRegion (model agrees: a flow would be negative)')
        else:
            rec.check(False, 'react', f'spurious-infeasible/{tag}', f'InfeasibleRegion raised although the dense model predicts no negative flow (most negative total {neg:.3g})',
                      detail={'expected': {str(k): v for k, v in expected.items()}})
        return
    if inter_neg < -1e-9 and neg >= -1e-9:
        rec.refuse('series passes through a negative intermediate composition but ends non-negative (outside the decided domain)'); return
    if neg < -1e-9:
        rec.check(False, 'must-raise', f'returned-negative/{tag}', f'call returned normally although the conversion requires a negative flow (predicted negative total {neg:.3g})',
                  detail={'expected': {str(k): v for k, v in expected.items()}, 'got': {str(k): v for k, v in read().items()}})
        return
    got = read()
    # (1) species by the dense model
    bad = []; worst = 0.0
    for k in set(got) | set(expected):
        a, b = got.get(k, 0.0), expected.get(k, 0.0)
        if b < 0 and b > -1e-9: b = 0.0     # round-off negatives are zeroed by the library
        tol = 1e-11 * max(abs(a), abs(b)) + 1e-12 * scale
        if abs(a - b) > tol: bad.append((str(k), a, b))
        worst = max(worst, abs(a - b) / scale)
    rec.check(not bad, 'species', f'{tag}', f'species flows differ from feed + X*feed_r*nu: {bad[:4]}', residual=worst,
              detail={'expected': {str(k): v for k, v in expected.items()}, 'got': {str(k): v for k, v in got.items()}})
    # (2) no negative flow
    negs = [(str(k), v) for k, v in got.items() if v < 0]
    rec.check(not negs, 'non-negative', f'{tag}', f'negative flows after a normal return: {negs[:4]}')
    # (3) mass and atoms (independent of the model: only needs the stoichiometry to be balanced, which it is by construction)
    m0, m1 = R.mass_of(flows, MW), R.mass_of(got, MW)
    rec.check(abs(m1 - m0) <= 1e-11 * max(m0, m1) + 1e-9 * 0, 'mass', f'{tag}', f'total mass changed {m0!r} -> {m1!r}', residual=abs(m1 - m0) / max(m0, 1e-300))
    a0, a1 = R.atoms_of(flows), R.atoms_of(got)
    aw = max(abs(x - y) / max(abs(x), abs(y), 1e-300) for x, y in zip(a0, a1))
    amax = max(a0)
    rec.check(all(abs(x - y) <= 1e-11 * max(abs(x), abs(y)) + 1e-12 * amax for x, y in zip(a0, a1)), 'atoms', f'{tag}', f'element totals changed {a0} -> {a1}', residual=aw)
    # (4) single reaction: reactant consumed = X * feed
    if case['comb'] == 'single':
        d = case['members'][0]; r = d['reactant']
        k = (d['ph'][r], r) if d.get('ph') else r
        f0 = flows.get(k, 0.0); f1 = got.get(k, 0.0)
        rec.check(abs((f0 - f1) - d['X'] * f0) <= 1e-11 * f0 + 1e-300, 'reactant-consumed', f'{tag}', f'reactant consumed {f0 - f1!r} != X*feed {d["X"] * f0!r}',
                  residual=abs((f0 - f1) - d['X'] * f0) / max(f0, 1e-300))
    # (5) invariants of sparse targets
    if isinstance(obj, (SV, SA)):
        e = sparse_invariant(obj); rec.check(e is None, 'invariant', tag, f'sparse invariant: {e}')
    elif isinstance(obj, tmo.Stream):
        e = sparse_invariant(obj.imol.data); rec.check(e is None, 'invariant', tag, f'sparse invariant: {e}')
        if case['target'] == 'stream-foreign':
            rec.check(obj.chemicals is R.thermo(perm=True).chemicals, 'package-restored', tag, 'stream did not get its own property package back')
    # (6) mol and wt copies of the same reaction give the same stream
    if isinstance(obj, tmo.Stream) and case['comb'] in ('single', 'parallel', 'series'):
        other = 'wt' if case['basis'] == 'mol' else 'mol'
        try:
            rx2 = build(case, th).copy(basis=other)
            obj2, read2 = make_target(case, th, flows, MW)
            rx2(obj2)
            got2 = read2()
            bad2 = [(str(k), got.get(k, 0.0), got2.get(k, 0.0)) for k in set(got) | set(got2)
                    if abs(got.get(k, 0.0) - got2.get(k, 0.0)) > 1e-10 * max(abs(got.get(k, 0.0)), abs(got2.get(k, 0.0))) + 1e-11 * scale]
            rec.check(not bad2, 'basis-equivalence', f'{tag}', f'copy(basis={other}) gives another result on the same stream: {bad2[:4]}')
        except InfeasibleRegion:
            rec.refuse('basis copy infeasible at round-off level')
        except Exception as e:
            rec.exception('basis-equivalence', e, what=f'copy(basis={other}) path raised {type(e).__name__}: {str(e)[:200]}')
    allrx = case['members'] if case['comb'] != 'system' else [r for m in case['members'] for r in m['rx']]
    if any(0 < r['X'] and flows.get((r['ph'][r['reactant']], r['reactant']) if r.get('ph') else r['reactant'], 0) > 0 and len(r['st']) >= 3 for r in allrx):
        rec.mark_nontrivial(case_hash(case))


def replay(case, rec):
    R.check_atoms()
    run_case(case, rec)


def run(rec, rng, tier, shard, nshards):
    R.check_atoms()
    n = 6000 if tier == 'quick' else 60000
    for i in range(n):
        case = gen_case(rng)
        try:
            run_case(case, rec)
        except Exception as e:
            rec.exception('harness', e, what=f'harness error: {type(e).__name__}: {e}')
        if i % 401 == 0: rec.sample(case)
