"""C08 — bubble and dew points satisfy their equations and bracket the two-phase region.

Monitor: the real BubblePoint / DewPoint solvers are called on random compositions; the oracle recomputes the residual
of the defining equation from the solver's own public model objects (gamma, phi, pcf, Psat) at the returned point and
checks normalisation, the T<->P inverse relation, bracketing, the single-component limit, permutation equivariance and
independence of the scale of z.
"""
import itertools
import numpy as np
import thermosteam as tmo
from thermosteam import equilibrium as eq
from vt.core import case_hash

PID = 'C08'
RULE = ('1-5 of 11 volatile chemicals, compositions incl. zeros and traces (1e-12..1), T 260-480 K inside every Psat range, P 5e3-3e6 Pa, Dortmund-activity and ideal packages, scale factors '
        'k in {0.5, 2, 1e-3, 1e3}, every permutation for n<=4; clauses: residual of the bubble / dew equation at the returned point, normalised y / x, solve_T(solve_P(T)) = T, T_bubble <= T_dew and '
        'P_dew <= P_bubble, single component = Tsat/Psat, permutation, scale. non-trivial = >=2 components above 1e-6 and a converged residual evaluated; distinct = hash of the case')
MIN_NONTRIVIAL = {'quick': 300, 'thorough': 8000}
ASSUMPTIONS = ['residuals are recomputed from the solver object\'s own gamma/phi/pcf/Psat members', 'dew-side permutation tolerance is 1e-4 K / 1e-6 relative in P (the inner dew iteration is not converged tighter than that); input classes: "family" = all members from one homologous family or ideal package; "cross-family" = non-ideal package with members of different families']
FAMILIES = {'alcohol': ('Methanol', 'Ethanol', 'Propanol', 'Butanol'), 'alkane-aromatic': ('Hexane', 'Heptane', 'Octane', 'Benzene', 'Toluene'), 'other': ('Water', 'Acetone')}
ALL = tuple(i for f in FAMILIES.values() for i in f)

_th = {}


def required(tier):
    return ['bubble-residual', 'dew-residual', 'normalised', 'inverse', 'bracket', 'single-component', 'permutation', 'scale', 'pkg:ideal', 'pkg:dortmund']


def thermo(ids, ideal):
    k = (tuple(ids), ideal)
    if k not in _th:
        th = tmo.Thermo(tmo.Chemicals(list(ids), cache=True))
        _th[k] = th.ideal() if ideal else th
    return _th[k]


def gen_case(rng):
    n = rng.choice([1, 2, 2, 3, 3, 4, 5])
    fam = rng.random() < 0.5
    if fam:
        f = rng.choice(['alcohol', 'alkane-aromatic'])
        ids = rng.sample(FAMILIES[f], min(n, len(FAMILIES[f])))
    else:
        ids = rng.sample(ALL, n)
    ideal = rng.random() < 0.35
    z = []
    for _ in ids:
        r = rng.random()
        z.append(0.0 if r < 0.12 else (10 ** rng.uniform(-12, -3) if r < 0.25 else rng.uniform(0.05, 1)))
    if not any(v > 1e-3 for v in z): z[0] = 1.0
    s = sum(z); z = [v / s for v in z]
    return {'ids': ids, 'ideal': ideal, 'z': z, 'T': round(rng.uniform(260, 480), 2), 'P': round(10 ** rng.uniform(math_log10(5e3), math_log10(3e6)), 1),
            'k': rng.choice([0.5, 2.0, 1e-3, 1e3]), 'pseed': rng.randrange(10 ** 6)}


def math_log10(x):
    import math
    return math.log10(x)


def families_of(ids):
    out = set()
    for i in ids:
        for f, m in FAMILIES.items():
            if i in m: out.add(f)
    return out


def input_class(case):
    if case['ideal']: return 'ideal-package'
    fam = families_of([i for i, v in zip(case['ids'], case['z']) if v > 0])
    return 'family' if len(fam) <= 1 and fam != {'other'} else 'cross-family'


def bubble_residual(bp, z, T, P, y):
    zn = z / z.sum()
    Psats = np.array([p(T) for p in bp.Psats], float)
    yphi = zn * Psats * bp.gamma(zn.copy(), T) * bp.pcf(T, P, Psats) / P
    phi = bp.phi(y.copy(), T, P)
    return 1.0 - float((yphi / phi).sum()), yphi / phi


def dew_residual(dp, z, T, P, x):
    zn = z / z.sum()
    Psats = np.array([p(T) for p in dp.Psats], float)
    m = zn > 0
    xs = x.copy(); xs[xs < 1e-32] = 1e-32; xs = xs / xs.sum()
    gamma = dp.gamma(xs.copy(), T)
    xi = zn * dp.phi(zn.copy(), T, P) * P / (Psats * dp.pcf(T, P, Psats) * gamma)
    return 1.0 - float(xi[m].sum()), xi


def dew_status(dp, z, T, P, x, method):
    """'ok' | 'unconverged' (the solver's own error function is not at a root at the returned point: an iterate returned
    silently because the iteration runs with checkiter=False) | 'wrong' (the solver believes it converged but the dew equation does not hold)"""
    try:
        res, _ = dew_residual(dp, z, T, P, np.asarray(x, float))
    except Exception:
        return 'unconverged', float('nan')
    if abs(res) <= 1e-6 and (np.asarray(x) >= 0).all(): return 'ok', res
    zn = z / z.sum()
    try:
        xx = np.asarray(x, float).copy()
        if method == 'solve_Tx': own = dp._T_error(T, P, zn, zn * P, xx)
        else:
            Psats = np.array([p(T) for p in dp.Psats], float)
            own = dp._P_error(P, T, zn, zn / Psats, Psats, xx)
        inner = float(np.abs(xx / max(xx.sum(), 1e-300) - np.asarray(x, float)).max())
    except Exception:
        return 'unconverged', res
    if abs(own) > 1e-7 or inner > 1e-7 or not np.isfinite(own): return 'unconverged', res
    return 'wrong', res


def run_case(case, rec):
    rec.begin_case(case)
    ids = case['ids']; z = np.array(case['z'], float); T0 = case['T']; P0 = case['P']
    th = thermo(ids, case['ideal'])
    chems = tuple(th.chemicals)
    cls = input_class(case)
    rec.hit('pkg:ideal' if case['ideal'] else 'pkg:dortmund')
    try:
        bp = eq.BubblePoint(chems, th); dp = eq.DewPoint(chems, th)
    except Exception as e:
        rec.exception('construct', e, what=f'BubblePoint/DewPoint construction raised {type(e).__name__}: {e}'); return
    # keep T inside every vapour-pressure range and the solvers' own domain
    T0 = min(max(T0, bp.Tmin + 5), bp.Tmax - 5)
    npos = int((z > 0).sum())
    results = {}
    def call(name, fn):
        try:
            r = fn()
            results[name] = r
            return r
        except Exception as e:
            nm = type(e).__name__
            if nm in ('InfeasibleRegion', 'DomainError', 'NoEquilibrium'):
                rec.refuse(f'{name}: {nm}'); return None
            rec.exception(name.split(':')[0] + '/' + cls, e, what=f'{name} ({cls}, n={npos}) raised {nm}: {str(e)[:120]}'); return None
    Pb = call('bubble-residual:solve_Py', lambda: bp.solve_Py(z.copy(), T0))
    Tb = call('bubble-residual:solve_Ty', lambda: bp.solve_Ty(z.copy(), P0))
    Pd = call('dew-residual:solve_Px', lambda: dp.solve_Px(z.copy(), T0))
    Td = call('dew-residual:solve_Tx', lambda: dp.solve_Tx(z.copy(), P0))
    dew_key = '' if cls != 'cross-family' else '/cross-family-nonideal'
    # ---- single component: exactly the saturation values
    if npos == 1:
        k = int(np.argmax(z)); c = chems[k]
        for name, r, exp in (('Py', Pb, c.Psat(T0) if T0 <= c.Tc else c.Pc), ('Ty', Tb, c.Tsat(P0, check_validity=False) if P0 <= c.Pc else c.Tc),
                             ('Px', Pd, c.Psat(T0) if T0 <= c.Tc else c.Pc), ('Tx', Td, c.Tsat(P0, check_validity=False) if P0 <= c.Pc else c.Tc)):
            if r is None: continue
            rec.check(r[0] == exp, 'single-component', name, f'single component {c.ID}: {name} gives {r[0]!r} but the saturation value is {exp!r}')
            comp = np.asarray(r[1], float)
            rec.check(abs(comp.sum() - 1) <= 1e-12 and comp[k] == comp.sum(), 'single-component', name + '/composition', f'single component {c.ID}: returned composition {comp.tolist()}')
        rec.mark_nontrivial(case_hash(case)); return
    Tlo, Thi = bp.Tmin, bp.Tmax
    # ---- residuals and normalisation
    if Pb is not None:
        P, y = Pb; y = np.asarray(y, float)
        res, _ = bubble_residual(bp, z, T0, P, y)
        rec.check(abs(res) <= 1e-6, 'bubble-residual', f'solve_Py/{cls}', f'bubble pressure {P!r} at T={T0}: 1 - sum(y) recomputed = {res!r} (z={z.tolist()}, ids={ids})', residual=abs(res))
        rec.check(abs(y.sum() - 1) <= 1e-12 and (y >= 0).all(), 'normalised', 'solve_Py', f'returned y {y.tolist()} sums to {y.sum()!r}')
    if Tb is not None:
        T, y = Tb; y = np.asarray(y, float)
        if Tlo < T < Thi:
            res, _ = bubble_residual(bp, z, T, P0, y)
            sfx = ''
            if abs(res) > 1e-6:
                # is the solver's own error function at a root here?  (the secant / IQ fallback run with checkiter=False)
                try:
                    zn = z / z.sum(); own = bp._T_error(T, P0, z / P0, zn, y.copy())
                    if abs(own) > 1e-7 or not np.isfinite(own): sfx = '/unconverged-iterate'
                except Exception: sfx = '/unconverged-iterate'
            rec.check(abs(res) <= 1e-6, 'bubble-residual', f'solve_Ty/{cls}{sfx}', f'bubble temperature {T!r} at P={P0}: 1 - sum(y) recomputed = {res!r} (z={z.tolist()}, ids={ids})', residual=abs(res))
        else: rec.refuse('bubble temperature at the edge of the vapour-pressure domain (not judged)')
        rec.check(abs(y.sum() - 1) <= 1e-12 and (y >= 0).all(), 'normalised', 'solve_Ty', f'returned y {y.tolist()} sums to {y.sum()!r}')
    dew_bad = {}
    for mname, r, TT, PP in (('solve_Px', Pd, T0, None), ('solve_Tx', Td, None, P0)):
        if r is None: continue
        val, x = r; x = np.asarray(x, float)
        T_, P_ = (TT, val) if mname == 'solve_Px' else (val, PP)
        if mname == 'solve_Tx' and not (Tlo < T_ < Thi):
            rec.refuse('dew temperature at the edge of the vapour-pressure domain (not judged)'); dew_bad[mname] = 'edge'; continue
        st, res = dew_status(dp, z, T_, P_, x, mname)
        dew_bad[mname] = st
        if st == 'ok':
            rec.ok('dew-residual', abs(res))
            rec.check(abs(x.sum() - 1) <= 1e-12, 'normalised', f'{mname}/{cls}', f'returned x {x.tolist()} sums to {x.sum()!r}')
        else:
            rec.violation(f'C08/dew-residual/{mname}/{cls}/{"unconverged-iterate" if st == "unconverged" else "converged-but-wrong"}',
                          f'{mname}: returned {"P" if mname == "solve_Px" else "T"}={val!r} at {"T=%s" % T0 if mname == "solve_Px" else "P=%s" % P0}: the dew equation gives 1 - sum(x) = {res!r}, x={x.tolist()} '
                          f'(z={z.tolist()}, ids={ids}, class={cls}); status: {st}')
    def dew_sfx(*methods):
        return '/dew-unconverged' if any(dew_bad.get(m) == 'unconverged' for m in methods) else ''
    # ---- inverse relation
    if Pb is not None and 5e3 <= Pb[0] <= 3e6:
        r = call('inverse:solve_Ty(solve_Py)', lambda: bp.solve_Ty(z.copy(), Pb[0]))
        if r is not None and Tlo + 1 < T0 < Thi - 1 and 5e3 <= Pb[0] <= 3e6: rec.check(abs(r[0] - T0) <= 1e-4, 'inverse', f'bubble/{cls}', f'solve_Ty(z, solve_Py(z,{T0}).P={Pb[0]!r}).T = {r[0]!r}', residual=abs(r[0] - T0))
    if Pd is not None and 5e3 <= Pd[0] <= 3e6:
        r = call('inverse:solve_Tx(solve_Px)', lambda: dp.solve_Tx(z.copy(), Pd[0]))
        if r is not None and Tlo + 1 < T0 < Thi - 1:
            st2, _ = dew_status(dp, z, r[0], Pd[0], r[1], 'solve_Tx') if Tlo < r[0] < Thi else ('unconverged', 0)
            sfx = '/dew-unconverged' if (dew_bad.get('solve_Px') == 'unconverged' or st2 == 'unconverged') else ''
            if not sfx and abs(r[0] - T0) > 1e-4 and dew_bad.get('solve_Px') == 'ok' and st2 == 'ok':
                sfx = '/multiple-roots'     # both points satisfy the dew equation at this pressure: two incipient liquids (partially miscible mixture)
            rec.check(abs(r[0] - T0) <= 1e-4, 'inverse', f'dew/{cls}{sfx}', f'solve_Tx(z, solve_Px(z,{T0}).P={Pd[0]!r}).T = {r[0]!r}', residual=abs(r[0] - T0))
    # ---- bracketing
    if Pb is not None and Pd is not None:
        rec.check(Pd[0] <= Pb[0] + 1e-3, 'bracket', f'P/{cls}' + (dew_sfx('solve_Px') or ('/multiple-roots' if cls == 'cross-family' and dew_bad.get('solve_Px') == 'ok' else '')), f'dew pressure {Pd[0]!r} exceeds bubble pressure {Pb[0]!r} at T={T0} (z={z.tolist()}, ids={ids})')
    if Tb is not None and Td is not None and Tlo < Tb[0] < Thi and Tlo < Td[0] < Thi:
        rec.check(Tb[0] <= Td[0] + 1e-6, 'bracket', f'T/{cls}' + (dew_sfx('solve_Tx') or ('/multiple-roots' if cls == 'cross-family' and dew_bad.get('solve_Tx') == 'ok' else '')), f'bubble temperature {Tb[0]!r} exceeds dew temperature {Td[0]!r} at P={P0} (z={z.tolist()}, ids={ids})')
    # ---- permutation of the chemical list (fresh solver per permutation)
    n = len(ids)
    if n <= 4: perms = list(itertools.permutations(range(n)))[1:]
    else:
        import random
        r_ = random.Random(case['pseed']); perms = []
        for _ in range(4):
            p = list(range(n)); r_.shuffle(p); perms.append(tuple(p))
    for p in perms[:6]:
        pid = [ids[i] for i in p]
        thp = thermo(pid, case['ideal']); chp = tuple(thp.chemicals)
        try:
            bpp = eq.BubblePoint(chp, thp); dpp = eq.DewPoint(chp, thp)
            zp = z[list(p)]
            if Pb is not None:
                r = bpp.solve_Py(zp.copy(), T0)
                rec.check(abs(r[0] - Pb[0]) <= 1e-9 * Pb[0] + 1e-2 and np.allclose(r[1], np.asarray(Pb[1])[list(p)], rtol=1e-8, atol=1e-14), 'permutation', f'bubble-P/{cls}', f'bubble pressure depends on the order of the chemicals: {Pb[0]!r} vs {r[0]!r} for order {pid}')
            if Tb is not None and Tlo < Tb[0] < Thi:
                r = bpp.solve_Ty(zp.copy(), P0)
                rec.check(abs(r[0] - Tb[0]) <= 1e-9 * Tb[0] + 1e-8, 'permutation', f'bubble-T/{cls}', f'bubble temperature depends on the order of the chemicals: {Tb[0]!r} vs {r[0]!r} for order {pid}')
            if Pd is not None:
                r = dpp.solve_Px(zp.copy(), T0)
                stp, _ = dew_status(dpp, zp, T0, r[0], r[1], 'solve_Px')
                rec.check(abs(r[0] - Pd[0]) <= 1e-6 * Pd[0] + 1e-2, 'permutation', f'dew-P/{cls}' + ('/dew-unconverged' if (stp == 'unconverged' or dew_bad.get('solve_Px') == 'unconverged') else ''), f'dew pressure depends on the order of the chemicals: {Pd[0]!r} vs {r[0]!r} for order {pid}')
            if Td is not None and Tlo < Td[0] < Thi:
                r = dpp.solve_Tx(zp.copy(), P0)
                stp, _ = dew_status(dpp, zp, r[0], P0, r[1], 'solve_Tx') if Tlo < r[0] < Thi else ('unconverged', 0)
                rec.check(abs(r[0] - Td[0]) <= 1e-4, 'permutation', f'dew-T/{cls}' + ('/dew-unconverged' if (stp == 'unconverged' or dew_bad.get('solve_Tx') == 'unconverged') else ''), f'dew temperature depends on the order of the chemicals: {Td[0]!r} vs {r[0]!r} for order {pid}')
        except Exception as e:
            if type(e).__name__ in ('InfeasibleRegion', 'DomainError'): rec.refuse('permuted call refused'); continue
            rec.exception(f'permutation/{cls}', e, what=f'solver on the permuted list {pid} raised {type(e).__name__}: {str(e)[:100]}'); break
    # ---- scale of z: through the public call form and through the solve_* methods
    k = case['k']
    for name, obj, kw, base in (('BubblePoint(z,T)', bp, {'T': T0}, Pb), ('BubblePoint(z,P)', bp, {'P': P0}, Tb), ('DewPoint(z,T)', dp, {'T': T0}, Pd), ('DewPoint(z,P)', dp, {'P': P0}, Td)):
        if base is None: continue
        try:
            a = obj(z.copy(), **kw); b = obj(k * z, **kw)
            va, vb = (a.P, b.P) if 'T' in kw else (a.T, b.T)
            if 'P' in kw and not (Tlo < va < Thi): continue
            sfx = ''
            if name.startswith('Dew'):
                m_ = 'solve_Px' if 'T' in kw else 'solve_Tx'
                sa = dew_status(dp, z, T0 if 'T' in kw else a.T, a.P if 'T' in kw else P0, a.x, m_)[0]
                # only an unconverged result for z itself excuses the comparison: the call form normalises, so k*z reaches the solver as z
                # (a wrong answer for k*z alone is exactly what this clause is about and must not be classified away)
                if sa == 'unconverged': sfx = '/dew-unconverged'
            rec.check(abs(va - vb) <= 1e-7 * abs(va), 'scale', f'call/{name}/{cls}{sfx}', f'{name}: z gives {va!r} but {k}*z gives {vb!r}', detail={'z': z.tolist(), 'k': k, 'ids': ids})
        except Exception as e:
            if type(e).__name__ in ('InfeasibleRegion', 'DomainError'): rec.refuse('scaled call refused'); continue
            rec.exception('scale', e, what=f'{name} with k*z raised {type(e).__name__}: {str(e)[:100]}')
    for name, fn, base in (('BubblePoint.solve_Py', lambda zz: bp.solve_Py(zz, T0), Pb), ('BubblePoint.solve_Ty', lambda zz: bp.solve_Ty(zz, P0), Tb),
                           ('DewPoint.solve_Px', lambda zz: dp.solve_Px(zz, T0), Pd), ('DewPoint.solve_Tx', lambda zz: dp.solve_Tx(zz, P0), Td)):
        if base is None: continue
        if name.endswith(('Ty', 'Tx')) and not (Tlo < base[0] < Thi): continue
        try:
            r = fn(k * z)
            rec.check(abs(r[0] - base[0]) <= 1e-7 * abs(base[0]), 'scale', f'method/{name}', f'{name}: z gives {base[0]!r} but {k}*z gives {r[0]!r}', detail={'z': z.tolist(), 'k': k, 'ids': ids})
        except Exception as e:
            if type(e).__name__ in ('InfeasibleRegion', 'DomainError'): rec.refuse('scaled call refused'); continue
            rec.exception('scale', e, what=f'{name} with k*z raised {type(e).__name__}: {str(e)[:100]}')
    if int((z > 1e-6).sum()) >= 2: rec.mark_nontrivial(case_hash(case))


def replay(case, rec):
    run_case(case, rec)


REGRESSION = [
    {"ids": ["Octane", "Methanol", "Hexane", "Propanol"], "ideal": False, "z": [3.4131775467273646e-09, 0.7227108132677728, 0.277288956819603, 2.2649944662301849e-07],
     "T": 409.57, "P": 1593107.0, "k": 1000.0, "pseed": 981803},
]


def run(rec, rng, tier, shard, nshards):
    n = 300 if tier == 'quick' else 5000
    if shard == 0:
        for case in REGRESSION: run_case(case, rec)
    for i in range(n):
        case = gen_case(rng)
        try:
            run_case(case, rec)
        except Exception as e:
            rec.exception('harness', e, what=f'harness error: {type(e).__name__}: {e}')
        if i % 97 == 0: rec.sample(case)
