"""C08 — bubble and dew points satisfy their equations and bracket the two-phase region.

Monitor: the real BubblePoint / DewPoint solvers are called on random compositions; the oracle recomputes the residual
of the defining equation at the returned point from models the harness builds itself from the package (th.Gamma, th.Phi, th.PCF,
Chemical.Psat - not the objects the solver holds; that the solver holds objects of these classes is a clause of its own) and
checks normalisation, the T<->P inverse relation, bracketing, the single-component limit, permutation equivariance and
independence of the scale of z.
"""
import itertools
import numpy as np
import thermosteam as tmo
from thermosteam import equilibrium as eq
from vt.core import case_hash

PID = 'C08'
RULE = ('1-5 of 11 volatile chemicals, compositions incl. zeros and traces (1e-12..1), T 260-480 K inside every Psat range, P 5e3-3e6 Pa, Dortmund-activity and ideal packages, scale factors '
        'k in {0.5, 2, 1e-3, 1e3}, every permutation for n<=4; clauses: residual of the bubble / dew equation at the returned point, normalised y / x, solve_T(solve_P(T)) = T, T_bubble <= T_dew and '
        'P_dew <= P_bubble, single component = Tsat/Psat, permutation, scale. added by the coverage audit: UNIFAC activity coefficients and the ideal-gas Poynting factor; solve_P(solve_T(P)) = P; the call form '
        'BubblePoint / DewPoint(z as list / tuple, T= | P=) and its result object (echoed value, IDs, normalised z, y / x, value of the solve_* method); Stream.bubble_point_at_T / _at_P / dew_point_at_T / _at_P with flows k*z (default, '
        'explicit and IDs= forms) against the solver; permuted compositions for all four solvers, random permutations for n = 4; single component with k*z, through the call form and at another list position; a solver on a subset of the '
        'package against a package of that subset; the cached instance against a fresh one. oracle audit: reference models built from the package (clause wiring: the solver holds models of the classes of the package for exactly its chemicals); a temperature returned at / outside the domain of the solver is a violation when the evaluation by the harness of the equation at both ends of the common vapour-pressure window brackets a root, and a refusal (InfeasibleRegion / DomainError / NoEquilibrium) is granted only where the harness sees no root; an iterate that is not a root is tolerated as the recorded non-convergence only for T-solves above 5e5 Pa / P-solves above 0.85 Tc or 5e5 Pa (family, ideal) and judged strictly below; k*z through solve_Ty / solve_Px / solve_Tx must be the root of the as-given equation (the recorded mechanism) where the harness sees one; a bubble temperature for k*z that misses it is keyed by what the error function of the solver says there (.../unconverged-iterate = not at a root: the recorded unchecked secant; cross-family, or as-given pressure above 5e5 Pa). non-trivial = >=2 components above 1e-6 and a converged residual evaluated; distinct = hash of the case')
MIN_NONTRIVIAL = {'quick': 300, 'thorough': 8000}
ASSUMPTIONS = ['residuals are recomputed from harness-side models built from the package: th.Gamma(chemicals), th.Phi(chemicals), th.PCF(chemicals), Chemical.Psat (the activity / Poynting / vapour-pressure models themselves are data here; C16 judges them)',
               'the classification "unconverged iterate" (recorded finding) still reads the solver\'s private _T_error / _P_error at the returned point; it is granted for family / ideal inputs only in the high-pressure / near-critical bucket decided from the inputs and a harness-side Raoult estimate',
               'dew-side permutation tolerance is 1e-4 K / 1e-6 relative in P (the inner dew iteration is not converged tighter than that); input classes: "family" = all members from one homologous family or ideal package; "cross-family" = non-ideal package with members of different families']
FAMILIES = {'alcohol': ('Methanol', 'Ethanol', 'Propanol', 'Butanol'), 'alkane-aromatic': ('Hexane', 'Heptane', 'Octane', 'Benzene', 'Toluene'), 'other': ('Water', 'Acetone')}
ALL = tuple(i for f in FAMILIES.values() for i in f)

_th = {}


def required(tier):
    return ['bubble-residual', 'dew-residual', 'normalised', 'inverse', 'bracket', 'single-component', 'permutation', 'scale', 'pkg:ideal', 'pkg:dortmund',
            # coverage audit
            'pkg:unifac', 'pkg:pcf', 'call-form', 'call-form:list', 'call-form:tuple', 'stream-level', 'stream-level:default', 'stream-level:IDs', 'single:scaled', 'single:call-form', 'single:permuted', 'single:saturation-residual', 'single:inverse',
            'permutation:random', 'subset-of-package', 'fresh-instance', 'cache',
            # oracle audit
            'wiring', 'wiring:permuted', 'scale:as-given-root:BubblePoint.solve_Ty', 'scale:as-given-root:DewPoint.solve_Px', 'scale:as-given-root:DewPoint.solve_Tx',
            'bucket:solve_Tx/low-pressure/family', 'bucket:solve_Tx/low-pressure/ideal-package', 'bucket:solve_Px/low-pressure/family', 'bucket:solve_Px/low-pressure/ideal-package']


def thermo(ids, ideal, pkg=None):
    k = (tuple(ids), ideal) if not pkg else (tuple(ids), ideal, pkg)
    if k not in _th:
        kw = {}
        if pkg and 'unifac' in pkg: kw['Gamma'] = eq.UNIFACActivityCoefficients
        if pkg and 'pcf' in pkg: kw['PCF'] = eq.IdealGasPoyintingCorrectionFactors
        th = tmo.Thermo(tmo.Chemicals(list(ids), cache=True), **kw)
        _th[k] = th.ideal() if ideal else th
    return _th[k]


def gen_case(rng):
    n = rng.choice([1, 2, 2, 3, 3, 4, 5])
    fam = rng.random() < 0.5
    if fam:
        f = rng.choice(['alcohol', 'alkane-aromatic'])
        ids = rng.sample(FAMILIES[f], min(n, len(FAMILIES[f])))
    else:
        ids = rng.sample(ALL, n)
    ideal = rng.random() < 0.35
    z = []
    for _ in ids:
        r = rng.random()
        z.append(0.0 if r < 0.12 else (10 ** rng.uniform(-12, -3) if r < 0.25 else rng.uniform(0.05, 1)))
    if not any(v > 1e-3 for v in z): z[0] = 1.0
    s = sum(z); z = [v / s for v in z]
    c = {'ids': ids, 'ideal': ideal, 'z': z, 'T': round(rng.uniform(260, 480), 2), 'P': round(10 ** rng.uniform(math_log10(5e3), math_log10(3e6)), 1),
            'k': rng.choice([0.5, 2.0, 1e-3, 1e3]), 'pseed': rng.randrange(10 ** 6)}
    # coverage audit: the other activity-coefficient class offered (UNIFAC) and a Poynting factor that is not 1; a fresh solver instance against the cached one
    c['pkg'] = None if ideal else rng.choice([None, None, None, 'unifac', 'pcf', 'unifac+pcf'])
    c['fresh'] = rng.random() < 0.2
    return c


def math_log10(x):
    import math
    return math.log10(x)


def families_of(ids):
    out = set()
    for i in ids:
        for f, m in FAMILIES.items():
            if i in m: out.add(f)
    return out


def input_class(case):
    if case['ideal']: return 'ideal-package'
    fam = families_of([i for i, v in zip(case['ids'], case['z']) if v > 0])
    return 'family' if len(fam) <= 1 and fam != {'other'} else 'cross-family'


class HarnessModelError(Exception):
    """raised (and caught) by the harness itself: no library frame is on its traceback, so Recorder.exception files it as a harness error (run inconclusive)"""


def harness_error(rec, clause, msg):
    try: raise HarnessModelError(msg)
    except HarnessModelError as e: rec.exception(clause, e)


PROGRAMMING = (AttributeError, TypeError, NameError, KeyError, IndexError, ImportError, NotImplementedError)
REFUSALS = ('InfeasibleRegion', 'DomainError', 'NoEquilibrium')
KTAG = {0.5: 'k=0.5', 2.0: 'k=2', 1e-3: 'k=1e-3', 1e3: 'k=1e3'}       # the four scale factors as key segments (k=1e*: the as-given problem lies three decades outside the pressure range)


class RefModels:
    """the models of modified Raoult's law built by the harness from the package (never read off the solver under test)"""
    __slots__ = ('th', 'chemicals', 'gamma', 'phi', 'pcf', 'Psats')

    def __init__(self, th, chems):
        self.th = th; self.chemicals = tuple(chems)
        self.gamma = th.Gamma(self.chemicals); self.phi = th.Phi(self.chemicals); self.pcf = th.PCF(self.chemicals)
        self.Psats = [c.Psat for c in self.chemicals]


_ref = {}


def ref_models(th, chems):
    k = (id(th), tuple(c.ID for c in chems))
    m = _ref.get(k)
    if m is None or m.th is not th: m = _ref[k] = RefModels(th, chems)
    return m


def check_wiring(rec, solver, ref, tag):
    """the solver holds models of the package's classes for exactly its chemicals (a default Gamma, the Psat handles of another tuple or an instance cached
    for another package would leave every solver-against-solver clause silent)"""
    rec.hit('wiring' if '/' not in tag else 'wiring:' + tag.split('/')[1])
    facts = (('gamma', type(solver.gamma) is type(ref.gamma)), ('phi', type(solver.phi) is type(ref.phi)), ('pcf', type(solver.pcf) is type(ref.pcf)),
             ('chemicals', tuple(solver.chemicals) == ref.chemicals), ('IDs', tuple(solver.IDs) == tuple(c.ID for c in ref.chemicals)),
             ('Psats', len(solver.Psats) == len(ref.Psats) and all(a is b for a, b in zip(solver.Psats, ref.Psats))))
    if all(ok for _, ok in facts): rec.ok('wiring'); return
    for member, ok in facts:
        if ok: continue
        rec.check(False, 'wiring', f'{tag}/{member}', f'{type(solver).__name__} built on {[c.ID for c in ref.chemicals]} with Gamma={ref.th.Gamma.__name__}, Phi={ref.th.Phi.__name__}, PCF={ref.th.PCF.__name__}: '
                  f'member {member} is {getattr(solver, member, None)!r:.200}')


def bubble_residual(ref, z, T, P, y, w=None):
    """1 - sum(y) of modified Raoult's law at (T, P) from the harness-side models; w: the amounts as given (k*z) for the as-given equation of the recorded scale finding"""
    zn = z / z.sum()
    Psats = np.array([p(T) for p in ref.Psats], float)
    yphi = (zn if w is None else w) * Psats * ref.gamma(zn.copy(), T) * ref.pcf(T, P, Psats) / P
    phi = ref.phi(y.copy(), T, P)
    return 1.0 - float((yphi / phi).sum()), yphi / phi


def dew_residual(ref, z, T, P, x, w=None):
    zn = z / z.sum()
    Psats = np.array([p(T) for p in ref.Psats], float)
    m = zn > 0
    xs = x.copy(); xs[xs < 1e-32] = 1e-32; xs = xs / xs.sum()
    gamma = ref.gamma(xs.copy(), T)
    xi = (zn if w is None else w) * ref.phi(zn.copy(), T, P) * P / (Psats * ref.pcf(T, P, Psats) * gamma)
    return 1.0 - float(xi[m].sum()), xi


# ---- the harness's own evaluation of the two equations as functions of T (P): used only to decide whether a root exists where the solver returned an edge of
#      its domain or refused (never as the expected value of a judged result)
def bubble_f(ref, zn, T, P, w=None):
    Psats = np.array([p(T) for p in ref.Psats], float)
    yphi = (zn if w is None else w) * Psats * ref.gamma(zn.copy(), T) * ref.pcf(T, P, Psats) / P
    yy = yphi; y = yphi / yphi.sum()
    for _ in range(4):
        yy = yphi / ref.phi(y, T, P); y = yy / yy.sum()
    return 1.0 - float(np.sum(yy)), True


def dew_f(ref, zn, T, P, w=None, maxiter=80):
    """1 - sum(x) with x from the harness's own successive substitution x <- c / gamma(x) (plain for 10 sweeps, then damped); (value, converged)"""
    Psats = np.array([p(T) for p in ref.Psats], float)
    m = zn > 0
    c = (zn if w is None else w) * ref.phi(zn.copy(), T, P) * P / (Psats * ref.pcf(T, P, Psats))
    x = c.copy()
    for it in range(maxiter):
        xs = x.copy(); xs[xs < 1e-32] = 1e-32; xs = xs / xs.sum()
        xn = c / ref.gamma(xs, T)
        if float(np.abs(xn - x).max()) <= 1e-12 * max(1.0, float(np.abs(xn).max())): return 1.0 - float(xn[m].sum()), True
        x = xn if it < 10 else 0.5 * (x + xn)
    return 1.0 - float(x[m].sum()), False


def psat_window(ref, z, Tlo, Thi):
    """the temperatures inside the vapour-pressure range of every chemical present, one kelvin inside the solver's own domain"""
    present = [j for j in range(len(z)) if z[j] > 0]
    return max([Tlo + 1.0] + [float(ref.Psats[j].Tmin) for j in present]), min([Thi - 1.0] + [float(ref.Psats[j].Tmax) for j in present])


def root_interior(kind, ref, z, P, Tlo, Thi, w=None):
    """True: the equation (bubble: 1 - sum y, dew: 1 - sum x, at pressure P) changes sign between the ends of the window, so a root lies inside it;
    False: it does not (P outside the bubble / dew pressures over the window); None: could not be decided (own iteration not converged, non-finite)"""
    lo, hi = psat_window(ref, z, Tlo, Thi)
    if not (lo < hi and np.isfinite(P) and P > 0): return None
    zn = z / z.sum()
    f = bubble_f if kind == 'bubble' else dew_f
    try:
        (flo, c1), (fhi, c2) = f(ref, zn, lo, P, w), f(ref, zn, hi, P, w)
    except Exception:
        return None
    if not (c1 and c2 and np.isfinite(flo) and np.isfinite(fhi)): return None
    # both sums grow (bubble: sum y) / fall (dew: sum x) with temperature
    return bool(flo > 1e-6 and fhi < -1e-6) if kind == 'bubble' else bool(flo < -1e-6 and fhi > 1e-6)


def dew_P_root_exists(ref, z, T, w=None):
    """does the harness see a dew pressure at T (the as-given equation for w)?  brackets the Raoult estimate by a factor 50"""
    zn = z / z.sum()
    try:
        Psats = np.array([p(T) for p in ref.Psats], float)
        est = 1.0 / float(((zn if w is None else w) / Psats).sum())
        (flo, c1), (fhi, c2) = dew_f(ref, zn, T, est / 50, w), dew_f(ref, zn, T, est * 50, w)
    except Exception:
        return None
    if not (c1 and c2 and np.isfinite(flo) and np.isfinite(fhi)): return None
    return bool(flo > 1e-6 and fhi < -1e-6)


def bucket(ref, z, method, T, P):
    """input class of one solve for the recorded non-convergence (secant / IQ fallback with checkiter=False): 'high-pressure' = T-solve above 5e5 Pa, P-solve above
    0.85 of the lowest critical temperature present or with a Raoult estimate of the answer above 5e5 Pa.  decided from the given value and harness-side data only"""
    if method in ('solve_Tx', 'solve_Ty'): return 'high-pressure' if not (P <= 5e5) else 'low-pressure'
    present = [j for j in range(len(z)) if z[j] > 0]
    if not (T <= 0.85 * min(ref.chemicals[j].Tc for j in present)): return 'high-pressure'
    zn = z / z.sum()
    Psats = np.array([p(T) for p in ref.Psats], float)
    est = 1.0 / float((zn / Psats).sum()) if method == 'solve_Px' else float((zn * Psats).sum())
    return 'high-pressure' if not (est <= 5e5) else 'low-pressure'


def dew_status(rec, dp, ref, z, T, P, x, method, cls):
    """'ok' | 'unconverged' (the recorded finding: the solver's own error function is not at a root at the returned point - an iterate returned silently because
    the iteration runs with checkiter=False; granted on cross-family inputs and, for family / ideal inputs, in the high-pressure bucket only) | 'unconverged-low'
    (the same observation in the low-pressure bucket of a family / ideal input: judged strictly) | 'wrong' (the solver believes it converged but the dew equation does
    not hold) | 'unclassified' (not a root, and the solver's own error function raised there) | 'non-physical' (non-finite or non-positive value / composition) |
    'harness-error' (the harness could not evaluate: filed as a harness error, run inconclusive)"""
    x = np.asarray(x, float)
    if not (np.isfinite(x).all() and np.isfinite(T) and np.isfinite(P) and T > 0 and P > 0): return 'non-physical', float('nan')
    try:
        res, _ = dew_residual(ref, z, T, P, x)
    except Exception as e:
        harness_error(rec, 'dew-residual', f'the harness-side dew residual could not be evaluated at T={T!r}, P={P!r}, x={x.tolist()}: {type(e).__name__}: {e}')
        return 'harness-error', float('nan')
    if abs(res) <= 1e-6 and (x >= 0).all(): return 'ok', res
    zn = z / z.sum()
    own = inner = None
    try:
        xx = x.copy()
        if method == 'solve_Tx': own = dp._T_error(T, P, zn, zn * P, xx)
        else:
            Psats = np.array([p(T) for p in dp.Psats], float)
            own = dp._P_error(P, T, zn, zn / Psats, Psats, xx)
        inner = float(np.abs(xx / max(xx.sum(), 1e-300) - x).max())
    except PROGRAMMING as e:
        # the private helper this classification relies on is gone / has another signature: that decides nothing about the property
        harness_error(rec, 'dew-residual', f'the solver\'s private error function could not be called for the classification: {type(e).__name__}: {e}')
        return 'harness-error', res
    except Exception:
        own = None
    if own is not None and np.isfinite(own) and abs(own) <= 1e-7 and inner <= 1e-7: return 'wrong', res
    if cls == 'cross-family': return 'unconverged', res
    if own is None: return 'unclassified', res
    return ('unconverged' if bucket(ref, z, method, T, P) == 'high-pressure' else 'unconverged-low'), res


DEW_KEY = {'unconverged': 'unconverged-iterate', 'unconverged-low': 'low-pressure/iterate-not-a-root', 'wrong': 'converged-but-wrong', 'unclassified': 'not-a-root/own-error-function-raised',
           'non-physical': 'non-physical-result'}


def bubble_iterate_sfx(rec, bp, ref, z, T, P, y, cls):
    """classification of a bubble temperature that is not a root: '/unconverged-iterate' (recorded finding: the solver's own error function is not at a root there; cross-family
    inputs, and family / ideal inputs above 5e5 Pa), '/low-pressure/iterate-not-a-root' (the same below 5e5 Pa on family / ideal inputs: strict), '' (own error function at a root)"""
    own = None
    try:
        own = bp._T_error(T, P, z / P, z / z.sum(), np.asarray(y, float).copy())
    except PROGRAMMING as e:
        harness_error(rec, 'bubble-residual', f'the solver\'s private error function could not be called for the classification: {type(e).__name__}: {e}')
        return ''
    except Exception:
        own = None
    if own is not None and np.isfinite(own) and abs(own) <= 1e-7: return ''
    if cls == 'cross-family' or bucket(ref, z, 'solve_Ty', T, P) == 'high-pressure': return '/unconverged-iterate'
    return '/low-pressure/iterate-not-a-root'


def as_given_class(ref, method, z, k, T0, P0, r, Tlo, Thi):
    """the recorded scale finding says solve_Ty / solve_Px / solve_Tx use the amounts as given (k*z) in the linear factor of the equation: 'root' = the returned point is the
    root of that as-given equation (the recorded mechanism and nothing else), 'missed' = it is not although the harness sees a root inside the window, 'no-root' = it is not and
    the harness sees no such root (the as-given problem has left the domain) or cannot decide"""
    w = k * z
    val, comp = r[0], np.asarray(r[1], float)
    T_, P_ = (T0, val) if method == 'solve_Px' else (val, P0)
    if np.isfinite(val) and val > 0 and np.isfinite(comp).all() and (method == 'solve_Px' or Tlo < T_ < Thi):
        try: res = (bubble_residual if method == 'solve_Ty' else dew_residual)(ref, z, T_, P_, comp, w=w)[0]
        except Exception: res = None
        if res is not None and abs(res) <= 1e-6: return 'root'
    if method == 'solve_Px': inside = dew_P_root_exists(ref, z, T0, w)
    else: inside = root_interior('bubble' if method == 'solve_Ty' else 'dew', ref, z, P0, Tlo, Thi, w)
    return 'missed' if inside is True else 'no-root'


def as_given_ty_mechanism(rec, bp, ref, z, k, P0, r, Tlo, Thi, cls):
    """a solve_Ty result for k*z that missed the root of the as-given bubble equation (= the bubble temperature of the normalised composition at P0 / k): the same classification as
    bubble_iterate_sfx gives the direct clause, with the solver's own error function evaluated on the amounts as given.  '/unconverged-iterate' (recorded finding: the unchecked
    secant of BubblePoint.solve_Ty returned a point at which its own error function is not at a root; cross-family inputs, and family / ideal inputs whose as-given problem lies above
    5e5 Pa), '/low-pressure/iterate-not-a-root' (the same on family / ideal inputs below 5e5 Pa: no recorded finding), '' (own error function at a root, or the point lies outside the domain)"""
    T = float(r[0]); y = np.asarray(r[1], float)
    if not (np.isfinite(T) and Tlo < T < Thi and np.isfinite(y).all()): return ''
    w = k * z
    try:
        own = bp._T_error(T, P0, w / P0, z / z.sum(), y.copy())
    except PROGRAMMING as e:
        harness_error(rec, 'scale', f'the solver\'s private error function could not be called for the classification: {type(e).__name__}: {e}')
        return ''
    except Exception:
        return ''
    if np.isfinite(own) and abs(own) <= 1e-7: return ''
    if cls == 'cross-family' or not (P0 / float(w.sum()) <= 5e5): return '/unconverged-iterate'
    return '/low-pressure/iterate-not-a-root'


def run_case(case, rec):
    rec.begin_case(case)
    ids = case['ids']; z = np.array(case['z'], float); T0 = case['T']; P0 = case['P']
    th = thermo(ids, case['ideal'], case.get('pkg'))
    chems = tuple(th.chemicals)
    if case.get('pkg'):
        for part in case['pkg'].split('+'): rec.hit('pkg:' + part)
    cls = input_class(case)
    rec.hit('class:' + cls)      # denominators of the per-class rate bounds of the recorded dew / bubble findings
    rec.hit('pkg:ideal' if case['ideal'] else 'pkg:dortmund')
    try:
        bp = eq.BubblePoint(chems, th); dp = eq.DewPoint(chems, th)
    except Exception as e:
        rec.exception('construct', e, what=f'BubblePoint/DewPoint construction raised {type(e).__name__}: {e}'); return
    ref = ref_models(th, chems)            # harness-side models from the package: every residual below is computed from these, not from the solver's members
    check_wiring(rec, bp, ref, 'BubblePoint'); check_wiring(rec, dp, ref, 'DewPoint')
    # keep T inside every vapour-pressure range and the solvers' own domain
    T0 = min(max(T0, bp.Tmin + 5), bp.Tmax - 5)
    Tlo, Thi = bp.Tmin, bp.Tmax
    npos = int((z > 0).sum())
    results = {}
    def call(name, fn, vkey=None, root=None, exc_clause=None):
        """vkey = (clause, key) under which a refusal the harness does not see warranted is reported; root: None = the problem posed has a root by construction
        (a pressure at a temperature inside the domain; the inverse of a value just computed), else a callable giving the harness's own verdict (True = a root lies inside the window)"""
        try:
            r = fn()
            results[name] = r
            return r
        except Exception as e:
            nm = type(e).__name__
            if nm in REFUSALS:
                inside = True if root is None else root()
                if inside is True and vkey is not None:
                    rec.hit('refusal:not-warranted')
                    rec.check(False, vkey[0], vkey[1] + '/refused-although-a-root-exists', f'{name} ({cls}, n={npos}) raised {nm}: {str(e)[:120]} although the harness sees a root of the equation inside the common vapour-pressure window (z={z.tolist()}, ids={ids}, T={T0}, P={P0})')
                else:
                    rec.refuse(f'{name}: {nm}' + (' (the harness sees no root inside the common vapour-pressure window)' if inside is False else ' (the existence of a root could not be decided by the harness)'))
                return None
            rec.exception(exc_clause or (name.split(':')[0] + '/' + cls), e, what=f'{name} ({cls}, n={npos}) raised {nm}: {str(e)[:120]}'); return None
    def dew_exc(m, T, P, clause='dew-residual'):
        # exceptions of the dew solves carry method and pressure bucket on family / ideal inputs (the recorded divergence of the unchecked inner iteration is a high-pressure phenomenon there)
        if cls == 'cross-family': return f'{clause}/cross-family'
        b = bucket(ref, z, m, T, P)
        if clause == 'dew-residual': rec.hit(f'bucket:{m}/{b}/{cls}')
        return f'{clause}/{m}/{cls}/{b}'
    if npos > 1 and cls != 'cross-family': rec.hit(f'bucket:solve_Ty/{bucket(ref, z, "solve_Ty", T0, P0)}/{cls}')
    Pb = call('bubble-residual:solve_Py', lambda: bp.solve_Py(z.copy(), T0), ('bubble-residual', f'solve_Py/{cls}'))
    Tb = call('bubble-residual:solve_Ty', lambda: bp.solve_Ty(z.copy(), P0), ('bubble-residual', f'solve_Ty/{cls}'), lambda: root_interior('bubble', ref, z, P0, Tlo, Thi))
    Pd = call('dew-residual:solve_Px', lambda: dp.solve_Px(z.copy(), T0), ('dew-residual', f'solve_Px/{cls}'), None, dew_exc('solve_Px', T0, P0) if npos > 1 else None)
    Td = call('dew-residual:solve_Tx', lambda: dp.solve_Tx(z.copy(), P0), ('dew-residual', f'solve_Tx/{cls}'), lambda: root_interior('dew', ref, z, P0, Tlo, Thi), dew_exc('solve_Tx', T0, P0) if npos > 1 else None)
    # ---- single component: exactly the saturation values
    if npos == 1:
        k = int(np.argmax(z)); c = chems[k]
        for name, r, exp in (('Py', Pb, c.Psat(T0) if T0 <= c.Tc else c.Pc), ('Ty', Tb, c.Tsat(P0, check_validity=False) if P0 <= c.Pc else c.Tc),
                             ('Px', Pd, c.Psat(T0) if T0 <= c.Tc else c.Pc), ('Tx', Td, c.Tsat(P0, check_validity=False) if P0 <= c.Pc else c.Tc)):
            if r is None: continue
            rec.check(r[0] == exp, 'single-component', name, f'single component {c.ID}: {name} gives {r[0]!r} but the saturation value is {exp!r}')
            comp = np.asarray(r[1], float)
            rec.check(abs(comp.sum() - 1) <= 1e-12 and comp[k] == comp.sum(), 'single-component', name + '/composition', f'single component {c.ID}: returned composition {comp.tolist()}')
        # independent of Chemical.Tsat: the returned temperature must satisfy Psat(T) = P to the solver's own resolution (1e-6 K, 1e-2 Pa),
        # and solving for T at the pressure obtained from T0 must give T0 back (statement: inverse relation, single-component limit)
        lim = c.Psat.T_limits.get(c.Psat.method) if getattr(c.Psat, 'method', None) else None
        inside = lambda T: T <= c.Tc and (lim is None or lim[0] <= T <= lim[1])
        for name, r in (('Ty', Tb), ('Tx', Td)):
            if r is None or not (P0 <= c.Pc) or not inside(r[0]): continue
            rec.hit('single:saturation-residual')
            res = c.Psat(r[0]) - P0
            rec.check(abs(res) <= 1e-6 * P0 + 0.1, 'single-component', name + '/saturation-residual', f'single component {c.ID}: {name} at P={P0} gives T={r[0]!r} where Psat(T) - P = {res!r} Pa', residual=abs(res) / P0)
        for name, r, solver in (('bubble', Pb, lambda P: bp.solve_Ty(z.copy(), P)), ('dew', Pd, lambda P: dp.solve_Tx(z.copy(), P))):
            if r is None or not inside(T0) or not (5e3 <= r[0] <= 3e6) or r[0] > c.Pc: continue
            back = call('inverse:single:' + name, lambda: solver(r[0]), ('inverse', f'{name}/single-component'))
            if back is None: continue
            rec.hit('single:inverse')
            rec.check(abs(back[0] - T0) <= 1e-4, 'inverse', f'{name}/single-component', f'single component {c.ID}: T at the {name} pressure {r[0]!r} obtained from T={T0} is {back[0]!r}', residual=abs(back[0] - T0))
        try: single_extra(case, rec, th, chems, bp, dp, z, T0, P0, k)
        except Exception as e: rec.exception('harness', e, what=f'harness error in the additional single-component clauses: {type(e).__name__}: {e}')
        rec.mark_nontrivial(case_hash(case)); return
    # ---- residuals and normalisation
    if Pb is not None:
        P, y = Pb; y = np.asarray(y, float)
        res, _ = bubble_residual(ref, z, T0, P, y)
        rec.check(abs(res) <= 1e-6, 'bubble-residual', f'solve_Py/{cls}', f'bubble pressure {P!r} at T={T0}: 1 - sum(y) recomputed = {res!r} (z={z.tolist()}, ids={ids})', residual=abs(res))
        rec.check(abs(y.sum() - 1) <= 1e-12 and (y >= 0).all(), 'normalised', 'solve_Py', f'returned y {y.tolist()} sums to {y.sum()!r}')
    bub_bad = {}
    if Tb is not None:
        T, y = Tb; y = np.asarray(y, float)
        if Tlo < T < Thi:
            res, _ = bubble_residual(ref, z, T, P0, y)
            sfx = ''
            if not abs(res) <= 1e-6:
                # is the solver's own error function at a root here?  (the secant / IQ fallback run with checkiter=False)
                sfx = bubble_iterate_sfx(rec, bp, ref, z, T, P0, y, cls)
            if sfx == '/unconverged-iterate': bub_bad['solve_Ty'] = 'unconverged'
            rec.check(abs(res) <= 1e-6, 'bubble-residual', f'solve_Ty/{cls}{sfx}', f'bubble temperature {T!r} at P={P0}: 1 - sum(y) recomputed = {res!r} (z={z.tolist()}, ids={ids})', residual=abs(res))
        else:
            # an edge of the domain is "not judged" only where the harness itself sees no root of the bubble equation inside the common vapour-pressure window
            inside = root_interior('bubble', ref, z, P0, Tlo, Thi)
            rec.hit('edge:bubble')
            if inside is True or not np.isfinite(T):
                rec.check(False, 'bubble-residual', f'solve_Ty/{cls}/domain-edge-returned/root-interior', f'bubble temperature {T!r} at P={P0} lies at / outside the solver\'s domain ({Tlo}, {Thi}) although 1 - sum(y) changes sign inside the '
                          f'common vapour-pressure window {psat_window(ref, z, Tlo, Thi)} (z={z.tolist()}, ids={ids})')
            else: rec.refuse('bubble temperature at the edge of the vapour-pressure domain (not judged)' + (': the harness sees no root inside the window' if inside is False else ': the existence of a root could not be decided'))
        rec.check(abs(y.sum() - 1) <= 1e-12 and (y >= 0).all(), 'normalised', 'solve_Ty', f'returned y {y.tolist()} sums to {y.sum()!r}')
    dew_bad = {}
    for mname, r, TT, PP in (('solve_Px', Pd, T0, None), ('solve_Tx', Td, None, P0)):
        if r is None: continue
        val, x = r; x = np.asarray(x, float)
        T_, P_ = (TT, val) if mname == 'solve_Px' else (val, PP)
        if mname == 'solve_Tx' and not (Tlo < T_ < Thi):
            inside = root_interior('dew', ref, z, P0, Tlo, Thi)
            rec.hit('edge:dew'); dew_bad[mname] = 'edge'
            if inside is True or not np.isfinite(T_):
                rec.check(False, 'dew-residual', f'solve_Tx/{cls}/domain-edge-returned/root-interior', f'dew temperature {T_!r} at P={P0} lies at / outside the solver\'s domain ({Tlo}, {Thi}) although 1 - sum(x) (harness-side fixed point) changes sign inside the '
                          f'common vapour-pressure window {psat_window(ref, z, Tlo, Thi)} (z={z.tolist()}, ids={ids})')
            else: rec.refuse('dew temperature at the edge of the vapour-pressure domain (not judged)' + (': the harness sees no root inside the window' if inside is False else ': the existence of a root could not be decided'))
            continue
        st, res = dew_status(rec, dp, ref, z, T_, P_, x, mname, cls)
        dew_bad[mname] = st
        if st == 'harness-error': continue
        if st == 'ok':
            rec.ok('dew-residual', abs(res))
            rec.check(abs(x.sum() - 1) <= 1e-12, 'normalised', f'{mname}/{cls}', f'returned x {x.tolist()} sums to {x.sum()!r}')
        else:
            rec.violation(f'C08/dew-residual/{mname}/{cls}/{DEW_KEY[st]}',
                          f'{mname}: returned {"P" if mname == "solve_Px" else "T"}={val!r} at {"T=%s" % T0 if mname == "solve_Px" else "P=%s" % P0}: the dew equation gives 1 - sum(x) = {res!r}, x={x.tolist()} '
                          f'(z={z.tolist()}, ids={ids}, class={cls}); status: {st}')
    def dew_sfx(*methods):
        return '/dew-unconverged' if any(dew_bad.get(m) == 'unconverged' for m in methods) else ''
    # ---- inverse relation
    if Pb is not None and 5e3 <= Pb[0] <= 3e6:
        r = call('inverse:solve_Ty(solve_Py)', lambda: bp.solve_Ty(z.copy(), Pb[0]), ('inverse', f'bubble/{cls}'))
        if r is not None and Tlo + 1 < T0 < Thi - 1 and 5e3 <= Pb[0] <= 3e6:
            isfx = ''
            if not abs(r[0] - T0) <= 1e-4:
                # same classification as the bubble-residual clause: is the returned temperature a root of the solver's own error function?
                isfx = bubble_iterate_sfx(rec, bp, ref, z, r[0], Pb[0], r[1], cls) if Tlo < r[0] < Thi else ''
            rec.check(abs(r[0] - T0) <= 1e-4, 'inverse', f'bubble/{cls}{isfx}', f'solve_Ty(z, solve_Py(z,{T0}).P={Pb[0]!r}).T = {r[0]!r}', residual=abs(r[0] - T0))
    if Pd is not None and 5e3 <= Pd[0] <= 3e6:
        r = call('inverse:solve_Tx(solve_Px)', lambda: dp.solve_Tx(z.copy(), Pd[0]), ('inverse', f'dew/{cls}' + ('/dew-unconverged' if dew_bad.get('solve_Px') == 'unconverged' else '')), None, dew_exc('solve_Tx', T0, Pd[0], 'inverse'))
        if r is not None and Tlo + 1 < T0 < Thi - 1:
            # (a temperature at the edge of the domain is not "unconverged": T0 lies inside, so the dew pressure just computed has a root there)
            st2, _ = dew_status(rec, dp, ref, z, r[0], Pd[0], r[1], 'solve_Tx', cls) if Tlo < r[0] < Thi else ('edge', 0)
            sfx = '/dew-unconverged' if (dew_bad.get('solve_Px') == 'unconverged' or st2 == 'unconverged') else ''
            if not sfx and abs(r[0] - T0) > 1e-4 and dew_bad.get('solve_Px') == 'ok' and st2 == 'ok':
                sfx = '/multiple-roots'     # both points satisfy the dew equation at this pressure: two incipient liquids (partially miscible mixture)
            rec.check(abs(r[0] - T0) <= 1e-4, 'inverse', f'dew/{cls}{sfx}', f'solve_Tx(z, solve_Px(z,{T0}).P={Pd[0]!r}).T = {r[0]!r}', residual=abs(r[0] - T0))
    # ---- bracketing
    if Pb is not None and Pd is not None:
        rec.check(Pd[0] <= Pb[0] + 1e-3, 'bracket', f'P/{cls}' + (dew_sfx('solve_Px') or ('/multiple-roots' if cls == 'cross-family' and dew_bad.get('solve_Px') == 'ok' else '')), f'dew pressure {Pd[0]!r} exceeds bubble pressure {Pb[0]!r} at T={T0} (z={z.tolist()}, ids={ids})')
    if Tb is not None and Td is not None and Tlo < Tb[0] < Thi and Tlo < Td[0] < Thi:
        rec.check(Tb[0] <= Td[0] + 1e-6, 'bracket', f'T/{cls}' + (dew_sfx('solve_Tx') or ('/multiple-roots' if cls == 'cross-family' and dew_bad.get('solve_Tx') == 'ok' else '')), f'bubble temperature {Tb[0]!r} exceeds dew temperature {Td[0]!r} at P={P0} (z={z.tolist()}, ids={ids})')
    # ---- permutation of the chemical list (fresh solver per permutation)
    n = len(ids)
    if n <= 4: perms = list(itertools.permutations(range(n)))[1:]
    else:
        import random
        r_ = random.Random(case['pseed']); perms = []
        for _ in range(4):
            p = list(range(n)); r_.shuffle(p); perms.append(tuple(p))
    for p in perms[:6]:
        pid = [ids[i] for i in p]
        thp = thermo(pid, case['ideal'], case.get('pkg')); chp = tuple(thp.chemicals)
        stage = 'construct'
        try:
            bpp = eq.BubblePoint(chp, thp); dpp = eq.DewPoint(chp, thp)
            refp = ref_models(thp, chp)
            check_wiring(rec, bpp, refp, 'BubblePoint/permuted'); check_wiring(rec, dpp, refp, 'DewPoint/permuted')
            zp = z[list(p)]
            if Pb is not None:
                stage = 'bubble-P'
                r = bpp.solve_Py(zp.copy(), T0)
                rec.check(abs(r[0] - Pb[0]) <= 1e-9 * Pb[0] + 1e-2 and np.allclose(r[1], np.asarray(Pb[1])[list(p)], rtol=1e-8, atol=1e-14), 'permutation', f'bubble-P/{cls}', f'bubble pressure depends on the order of the chemicals: {Pb[0]!r} vs {r[0]!r} for order {pid}')
            if Tb is not None and Tlo < Tb[0] < Thi:
                stage = 'bubble-T'
                r = bpp.solve_Ty(zp.copy(), P0)
                rec.check(abs(r[0] - Tb[0]) <= 1e-9 * Tb[0] + 1e-8, 'permutation', f'bubble-T/{cls}' + ('/bubble-unconverged' if bub_bad.get('solve_Ty') else ''), f'bubble temperature depends on the order of the chemicals: {Tb[0]!r} vs {r[0]!r} for order {pid}')
                rec.check(np.allclose(r[1], np.asarray(Tb[1])[list(p)], rtol=1e-6, atol=1e-12), 'permutation', f'bubble-T-y/{cls}' + ('/bubble-unconverged' if bub_bad.get('solve_Ty') else ''), f'the vapour composition at the bubble temperature is not permuted with the list: {np.asarray(Tb[1])[list(p)].tolist()} vs {np.asarray(r[1]).tolist()} for order {pid}')
            if Pd is not None:
                stage = 'dew-P'
                r = dpp.solve_Px(zp.copy(), T0)
                stp, _ = dew_status(rec, dpp, refp, zp, T0, r[0], r[1], 'solve_Px', cls)
                rec.check(abs(r[0] - Pd[0]) <= 1e-6 * Pd[0] + 1e-2, 'permutation', f'dew-P/{cls}' + ('/dew-unconverged' if (stp == 'unconverged' or dew_bad.get('solve_Px') == 'unconverged') else ''), f'dew pressure depends on the order of the chemicals: {Pd[0]!r} vs {r[0]!r} for order {pid}')
                if stp == 'ok' and dew_bad.get('solve_Px') == 'ok' and abs(r[0] - Pd[0]) <= 1e-6 * Pd[0] + 1e-2:
                    rec.check(np.allclose(r[1], np.asarray(Pd[1])[list(p)], rtol=0, atol=1e-5), 'permutation', f'dew-P-x/{cls}', f'the liquid composition at the dew pressure is not permuted with the list: {np.asarray(Pd[1])[list(p)].tolist()} vs {np.asarray(r[1]).tolist()} for order {pid}')
            if Td is not None and Tlo < Td[0] < Thi:
                stage = 'dew-T'
                r = dpp.solve_Tx(zp.copy(), P0)
                # (the base result lies inside the domain: an edge returned for the permuted list is a dependence on the order, not "unconverged")
                stp, _ = dew_status(rec, dpp, refp, zp, r[0], P0, r[1], 'solve_Tx', cls) if Tlo < r[0] < Thi else ('edge', 0)
                rec.check(abs(r[0] - Td[0]) <= 1e-4, 'permutation', f'dew-T/{cls}' + ('/dew-unconverged' if (stp == 'unconverged' or dew_bad.get('solve_Tx') == 'unconverged') else ''), f'dew temperature depends on the order of the chemicals: {Td[0]!r} vs {r[0]!r} for order {pid}')
                if stp == 'ok' and dew_bad.get('solve_Tx') == 'ok' and abs(r[0] - Td[0]) <= 1e-4:
                    rec.check(np.allclose(r[1], np.asarray(Td[1])[list(p)], rtol=0, atol=1e-5), 'permutation', f'dew-T-x/{cls}', f'the liquid composition at the dew temperature is not permuted with the list: {np.asarray(Td[1])[list(p)].tolist()} vs {np.asarray(r[1]).tolist()} for order {pid}')
        except Exception as e:
            if type(e).__name__ in ('InfeasibleRegion', 'DomainError'):
                # the same problem on the list in its first order has just been solved: a refusal here is a dependence on the order
                rec.hit('refusal:not-warranted')
                rec.check(False, 'permutation', f'{stage}/{cls}/refused' + (('/dew-unconverged' if dew_bad.get('solve_Px' if stage == 'dew-P' else 'solve_Tx') == 'unconverged' else '') if stage.startswith('dew') else ''),
                          f'the solver on the permuted list {pid} refused ({type(e).__name__}: {str(e)[:100]}) the problem ({stage}) it solved for the order {ids}'); continue
            rec.exception(f'permutation/{cls}', e, what=f'solver on the permuted list {pid} raised {type(e).__name__}: {str(e)[:100]}'); break
    # ---- scale of z: through the public call form and through the solve_* methods
    k = case['k']
    for name, obj, kw, base in (('BubblePoint(z,T)', bp, {'T': T0}, Pb), ('BubblePoint(z,P)', bp, {'P': P0}, Tb), ('DewPoint(z,T)', dp, {'T': T0}, Pd), ('DewPoint(z,P)', dp, {'P': P0}, Td)):
        if base is None: continue
        if 'P' in kw and not (Tlo < base[0] < Thi): continue         # the solve_* result on this input lies at an edge of the domain: judged (or refused) above
        try:
            a = obj(z.copy(), **kw); b = obj(k * z, **kw)
            va, vb = (a.P, b.P) if 'T' in kw else (a.T, b.T)
            sfx = ''
            if name.startswith('Dew'):
                m_ = 'solve_Px' if 'T' in kw else 'solve_Tx'
                sa = dew_status(rec, dp, ref, z, T0 if 'T' in kw else a.T, a.P if 'T' in kw else P0, a.x, m_, cls)[0] if ('T' in kw or Tlo < a.T < Thi) else 'edge'
                # only an unconverged result for z itself excuses the comparison: the call form normalises, so k*z reaches the solver as z
                # (a wrong answer for k*z alone is exactly what this clause is about and must not be classified away)
                if sa == 'unconverged': sfx = '/dew-unconverged'
            rec.check(abs(va - vb) <= 1e-7 * abs(va), 'scale', f'call/{name}/{cls}{sfx}', f'{name}: z gives {va!r} but {k}*z gives {vb!r}', detail={'z': z.tolist(), 'k': k, 'ids': ids})
        except Exception as e:
            if type(e).__name__ in ('InfeasibleRegion', 'DomainError'):
                # the call form normalises: both calls pose the problem the solve_* method has just solved
                rec.hit('refusal:not-warranted')
                rec.check(False, 'scale', f'call/{name}/{cls}/refused', f'{name} with z or {k}*z refused ({type(e).__name__}: {str(e)[:100]}) the problem its solve_* method solved', detail={'z': z.tolist(), 'k': k, 'ids': ids}); continue
            rec.exception(f'scale/call/{name}/{cls}', e, what=f'{name} with k*z raised {type(e).__name__}: {str(e)[:100]}')
    for name, fn, base in (('BubblePoint.solve_Py', lambda zz: bp.solve_Py(zz, T0), Pb), ('BubblePoint.solve_Ty', lambda zz: bp.solve_Ty(zz, P0), Tb),
                           ('DewPoint.solve_Px', lambda zz: dp.solve_Px(zz, T0), Pd), ('DewPoint.solve_Tx', lambda zz: dp.solve_Tx(zz, P0), Td)):
        if base is None: continue
        if name.endswith(('Ty', 'Tx')) and not (Tlo < base[0] < Thi): continue
        meth = name.split('.')[1]
        def as_given_root():
            if meth == 'solve_Px': return dew_P_root_exists(ref, z, T0, k * z)
            return root_interior('bubble' if meth == 'solve_Ty' else 'dew', ref, z, P0, Tlo, Thi, k * z)
        try:
            r = fn(k * z)
        except Exception as e:
            if type(e).__name__ in ('InfeasibleRegion', 'DomainError'):
                # solve_Py normalises (the problem just solved); the other three use the amounts as given (recorded finding): refusal warranted where the harness sees no root of the as-given equation
                inside = True if meth == 'solve_Py' else as_given_root()
                if inside is True:
                    rec.hit('refusal:not-warranted')
                    rec.check(False, 'scale', f'method/{name}/refused/{cls}', f'{name} with {k}*z refused ({type(e).__name__}: {str(e)[:100]}) although the harness sees a root of the ' + ('equation' if meth == 'solve_Py' else 'as-given equation') + ' inside the window', detail={'z': z.tolist(), 'k': k, 'ids': ids})
                else: rec.refuse(f'scaled call refused: {name} with k*z, no root of the as-given equation inside the window')
                continue
            # (an exception of the as-given problem is the recorded mechanism only where that problem has left the domain: the harness's own verdict on its root is part of the key)
            inside = True if meth == 'solve_Py' else as_given_root()
            rec.exception(f'scale/method/{name}/{"as-given-root-exists" if inside is True else "no-as-given-root"}/{KTAG.get(k, "k=other")}/{cls}', e, what=f'{name} with k*z raised {type(e).__name__}: {str(e)[:100]}'); continue
        same = abs(r[0] - base[0]) <= 1e-7 * abs(base[0])
        sfx = ''
        if not same and meth != 'solve_Py':
            # the recorded finding is one mechanism: the amounts are used as given.  a result for k*z is classed under it only when it is the root of that as-given equation
            ag = as_given_class(ref, meth, z, k, T0, P0, r, Tlo, Thi)
            rec.hit(f'scale:as-given-{ag}:{name}')
            if ag == 'missed': sfx = f'/as-given-root-missed/{KTAG.get(k, "k=other")}/{cls}'
            elif ag == 'no-root': sfx = f'/no-as-given-root/{KTAG.get(k, "k=other")}'
            # (bubble side: a missed as-given root at which the solver's own error function is not at a root is the recorded unchecked-secant mechanism; the key says so and keeps the input class)
            if ag == 'missed' and meth == 'solve_Ty': sfx += as_given_ty_mechanism(rec, bp, ref, z, k, P0, r, Tlo, Thi, cls)
        rec.check(same, 'scale', f'method/{name}{sfx}', f'{name}: z gives {base[0]!r} but {k}*z gives {r[0]!r}' + (f' (as-given equation: {sfx[1:]})' if sfx else ''), detail={'z': z.tolist(), 'k': k, 'ids': ids})
    try: extra(case, rec, th, chems, bp, dp, z, T0, P0, cls, Pb, Tb, Pd, Td, dew_bad, call, bub_bad)
    except Exception as e: rec.exception('harness', e, what=f'harness error in the additional clauses: {type(e).__name__}: {e}')
    if int((z > 1e-6).sum()) >= 2: rec.mark_nontrivial(case_hash(case))


def refusal(e):
    return type(e).__name__ in ('InfeasibleRegion', 'DomainError', 'NoEquilibrium')


def single_extra(case, rec, th, chems, bp, dp, z, T0, P0, k_pos):
    """single-component mixture: the saturation value must not depend on the scale of z, on the call form, or on where the chemical stands in a longer list"""
    c = chems[k_pos]; k = case['k']
    expP = c.Psat(T0) if T0 <= c.Tc else c.Pc
    expT = c.Tsat(P0, check_validity=False) if P0 <= c.Pc else c.Tc
    n = len(chems)
    unit = np.zeros(n); unit[k_pos] = 1.0
    forms = (('solve_Py(k*z)', lambda: bp.solve_Py(k * z, T0), expP), ('solve_Ty(k*z)', lambda: bp.solve_Ty(k * z, P0), expT),
             ('solve_Px(k*z)', lambda: dp.solve_Px(k * z, T0), expP), ('solve_Tx(k*z)', lambda: dp.solve_Tx(k * z, P0), expT))
    for name, fn, exp in forms:
        try: r = fn()
        except Exception as e:
            if refusal(e):
                rec.hit('refusal:not-warranted')
                rec.check(False, 'single-component', name.split('(')[0] + '/scaled/refused', f'single component {c.ID} (k={k}): {name} refused ({type(e).__name__}: {str(e)[:100]}) although the saturation value is {exp!r}'); continue
            rec.exception('single-component', e, what=f'single component {c.ID}: {name} raised {type(e).__name__}: {str(e)[:100]}'); continue
        rec.hit('single:scaled')
        rec.check(r[0] == exp and np.array_equal(np.asarray(r[1], float), unit), 'single-component', name.split('(')[0] + '/scaled', f'single component {c.ID} (k={k}): {name} gives {r[0]!r}, {np.asarray(r[1]).tolist()} but the saturation value is {exp!r}')
    for name, obj, kw, exp in (('BubblePoint(z,T)', bp, {'T': T0}, expP), ('BubblePoint(z,P)', bp, {'P': P0}, expT), ('DewPoint(z,T)', dp, {'T': T0}, expP), ('DewPoint(z,P)', dp, {'P': P0}, expT)):
        try: a = obj(list(k * z), **kw)
        except Exception as e:
            if refusal(e):
                rec.hit('refusal:not-warranted')
                rec.check(False, 'single-component', 'call/' + name + '/refused', f'single component {c.ID}: {name} with {k}*z as a list refused ({type(e).__name__}: {str(e)[:100]}) although the saturation value is {exp!r}'); continue
            rec.exception('single-component', e, what=f'single component {c.ID}: {name} raised {type(e).__name__}: {str(e)[:100]}'); continue
        val = a.P if 'T' in kw else a.T
        comp = np.asarray(a.y if name.startswith('Bubble') else a.x, float)
        rec.hit('single:call-form')
        rec.check(val == exp and np.array_equal(comp, unit) and np.array_equal(np.asarray(a.z, float), unit), 'single-component', 'call/' + name,
                  f'single component {c.ID}: {name} with {k}*z as a list gives {val!r}, composition {comp.tolist()}, z {np.asarray(a.z).tolist()} but the saturation value is {exp!r}')
    if n > 1:
        # the same chemical at another position of the list
        import random
        p = list(range(n)); random.Random(case['pseed']).shuffle(p)
        pid = [case['ids'][i] for i in p]
        thp = thermo(pid, case['ideal'], case.get('pkg')); chp = tuple(thp.chemicals)
        try:
            bpp = eq.BubblePoint(chp, thp); dpp = eq.DewPoint(chp, thp); zp = z[p]
            for name, r, exp in (('Py', bpp.solve_Py(zp.copy(), T0), expP), ('Ty', bpp.solve_Ty(zp.copy(), P0), expT), ('Px', dpp.solve_Px(zp.copy(), T0), expP), ('Tx', dpp.solve_Tx(zp.copy(), P0), expT)):
                rec.hit('single:permuted')
                rec.check(r[0] == exp and np.array_equal(np.asarray(r[1], float), unit[p]), 'single-component', name + '/permuted', f'single component {c.ID} listed as {pid}: {name} gives {r[0]!r}, {np.asarray(r[1]).tolist()} but the saturation value is {exp!r}')
        except Exception as e:
            if refusal(e):
                rec.hit('refusal:not-warranted')
                rec.check(False, 'single-component', 'permuted/refused', f'single component {c.ID} listed as {pid}: refused ({type(e).__name__}: {str(e)[:100]}) although the saturation values are {expP!r}, {expT!r}')
            else: rec.exception('single-component', e, what=f'single component on the permuted list {pid} raised {type(e).__name__}: {str(e)[:100]}')


def extra(case, rec, th, chems, bp, dp, z, T0, P0, cls, Pb, Tb, Pd, Td, dew_bad, call, bub_bad=None):
    bub_bad = bub_bad or {}
    ids = case['ids']; k = case['k']; n = len(ids)
    Tlo, Thi = bp.Tmin, bp.Tmax
    zn = z / z.sum()
    ref = ref_models(th, chems)
    # ---- inverse relation, the other way round: the pressure at the temperature obtained from a pressure
    if Tb is not None and Tlo + 1 < Tb[0] < Thi - 1:
        r = call('inverse:solve_Py(solve_Ty)', lambda: bp.solve_Py(z.copy(), Tb[0]), ('inverse', f'bubble-P/{cls}' + ('/bubble-unconverged' if bub_bad.get('solve_Ty') else '')))
        # (equivalent of the 1e-4 K bound of the T<-P<-T direction: d ln P / dT of a bubble line is below 0.1 / K)
        if r is not None: rec.check(abs(r[0] - P0) <= 1e-5 * P0, 'inverse', f'bubble-P/{cls}' + ('/bubble-unconverged' if bub_bad.get('solve_Ty') else ''), f'solve_Py(z, solve_Ty(z,{P0}).T={Tb[0]!r}).P = {r[0]!r}', residual=abs(r[0] - P0) / P0)
    if Td is not None and Tlo + 1 < Td[0] < Thi - 1 and dew_bad.get('solve_Tx') in ('ok', 'unconverged', 'wrong', 'unconverged-low', 'unclassified'):
        r = call('inverse:solve_Px(solve_Tx)', lambda: dp.solve_Px(z.copy(), Td[0]), ('inverse', (f'dew-P/{cls}/dew-unconverged' if dew_bad.get('solve_Tx') == 'unconverged' else f'dew/{cls}/P-from-T')), None,
                 'inverse/cross-family' if cls == 'cross-family' else f'inverse/solve_Px/{cls}/{bucket(ref, z, "solve_Px", Td[0], P0)}')
        if r is not None:
            st2, _ = dew_status(rec, dp, ref, z, Td[0], r[0], r[1], 'solve_Px', cls)
            sfx = '/dew-unconverged' if (dew_bad.get('solve_Tx') == 'unconverged' or st2 == 'unconverged') else ''
            if not sfx and abs(r[0] - P0) > 1e-5 * P0 and dew_bad.get('solve_Tx') == 'ok' and st2 == 'ok': sfx = '/multiple-roots'
            key = f'dew-P/{cls}/dew-unconverged' if sfx == '/dew-unconverged' else f'dew/{cls}/P-from-T{sfx}'
            rec.check(abs(r[0] - P0) <= 1e-5 * P0, 'inverse', key, f'solve_Px(z, solve_Tx(z,{P0}).T={Td[0]!r}).P = {r[0]!r}', residual=abs(r[0] - P0) / P0)
    # ---- the public call form and its result object: the given value is echoed, z and y / x are returned normalised, the value is that of the solve_* method on the normalised z
    for name, obj, kw, base, meth in (('BubblePoint(z,T)', bp, {'T': T0}, Pb, 'solve_Py'), ('BubblePoint(z,P)', bp, {'P': P0}, Tb, 'solve_Ty'), ('DewPoint(z,T)', dp, {'T': T0}, Pd, 'solve_Px'), ('DewPoint(z,P)', dp, {'P': P0}, Td, 'solve_Tx')):
        if base is None: continue
        for form, arg in ((('list', list(k * z)), ('tuple', tuple(k * z)))[case['pseed'] % 2],):
            try: a = obj(arg, **kw)
            except Exception as e:
                if refusal(e):
                    # the call form normalises: it poses the problem the solve_* method has just solved
                    if 'T' in kw or Tlo < base[0] < Thi:
                        rec.hit('refusal:not-warranted')
                        rec.check(False, 'call-form', f'value/{name}/{cls}/refused' + ('/dew-unconverged' if name.startswith('Dew') and dew_bad.get(meth) == 'unconverged' else ''), f'{name} with z as a {form} refused ({type(e).__name__}: {str(e)[:100]}) the problem {meth} solved')
                    else: rec.refuse('call form refused (the solve_* result on this input lies at an edge of the domain)')
                    continue
                rec.exception(f'call-form/{cls}', e, what=f'{name} with z as a {form} raised {type(e).__name__}: {str(e)[:100]}'); continue
            rec.hit('call-form:' + form)
            given, val = (a.T, a.P) if 'T' in kw else (a.P, a.T)
            comp = np.asarray(a.y if name.startswith('Bubble') else a.x, float)
            dsfx = ''
            if name.startswith('Dew'):
                if dew_bad.get(meth) == 'unconverged': dsfx = '/dew-unconverged'
                elif dew_bad.get(meth) != 'ok': dsfx = '/' + cls + '-dew-not-ok'
            rec.check(given == (T0 if 'T' in kw else P0) and tuple(a.IDs) == tuple(c.ID for c in chems), 'call-form', f'echo/{name}', f'{name}: result carries {"T" if "T" in kw else "P"}={given!r} and IDs {a.IDs} for the given {kw} on {ids}')
            rec.check(abs(np.asarray(a.z, float).sum() - 1) <= 1e-12 and np.allclose(np.asarray(a.z, float), zn, rtol=1e-12, atol=0), 'normalised', f'call/{name}/z', f'{name}: result z {np.asarray(a.z).tolist()} is not the normalised composition {zn.tolist()}')
            if not dsfx or dsfx == '/dew-unconverged':
                rec.check(abs(comp.sum() - 1) <= 1e-12 and (comp >= 0).all(), 'normalised', f'call/{name}/{cls}{dsfx}', f'{name}: returned {"y" if name.startswith("Bubble") else "x"} {comp.tolist()} sums to {comp.sum()!r}')
            if 'T' in kw or Tlo < base[0] < Thi:
                # the call form normalises: it is the solve_* method on z / sum(z)
                rec.check(abs(val - base[0]) <= 1e-7 * abs(base[0]), 'call-form', f'value/{name}/{cls}{dsfx}', f'{name} gives {val!r} but {meth} on the same normalised z gives {base[0]!r}', residual=abs(val - base[0]) / abs(base[0]))
    # ---- stream-level entry points (the chemicals with flow are selected, the flows normalised): same answer as the solver on the normalised composition
    try:
        s = tmo.Stream(None, thermo=th, T=T0, P=P0, phase='l')
        for i, v in zip(ids, k * z):
            if v: s.imol[i] = v
        sub = [j for j in range(n) if z[j] > 0]
        for name, fn, base, meth in (('bubble_point_at_T', lambda **kw: s.bubble_point_at_T(**kw), Pb, 'solve_Py'), ('bubble_point_at_P', lambda **kw: s.bubble_point_at_P(**kw), Tb, 'solve_Ty'),
                                     ('dew_point_at_T', lambda **kw: s.dew_point_at_T(**kw), Pd, 'solve_Px'), ('dew_point_at_P', lambda **kw: s.dew_point_at_P(**kw), Td, 'solve_Tx')):
            if base is None: continue
            if name.endswith('_P') and not (Tlo < base[0] < Thi): continue
            dsfx = ''
            if name.startswith('dew'):
                if dew_bad.get(meth) == 'unconverged': dsfx = '/dew-unconverged'
                elif dew_bad.get(meth) != 'ok': continue
                if cls == 'cross-family': rec.refuse('stream-level dew point on a cross-family non-ideal mixture: not judged (dew-side clauses are judged on family / ideal inputs)'); continue
            for form in (('default', 'explicit', 'IDs')[case['pseed'] % 3],):
                kw = {}
                if form != 'default': kw['T' if name.endswith('_T') else 'P'] = T0 if name.endswith('_T') else P0
                if form == 'IDs': kw['IDs'] = tuple(ids)                      # every chemical of the package, the absent ones at zero
                try: a = fn(**kw)
                except Exception as e:
                    if refusal(e):
                        rec.hit('refusal:not-warranted')
                        rec.check(False, 'stream-level', f'{name}/{form}/{cls}/refused{dsfx}', f'Stream.{name}({kw}) with flows {k}*z refused ({type(e).__name__}: {str(e)[:100]}) the problem {meth} solved on the normalised composition (ids={ids}, z={zn.tolist()})'); continue
                    rec.exception(f'stream-level/{cls}', e, what=f'Stream.{name}({kw}) on {ids} raised {type(e).__name__}: {str(e)[:100]}'); continue
                # the solver behind the stream-level call is built on the chemicals with flow: its vapour-pressure domain (Tmin, Tmax) can be narrower than the
                # package's, and outside it the solvers clamp the temperature (documented edge of the domain: not judged)
                sub_solver = (s.get_bubble_point if name.startswith('bubble') else s.get_dew_point)(kw.get('IDs'))
                T_used = T0 if name.endswith('_T') else a.T
                if not (sub_solver.Tmin < T_used < sub_solver.Tmax): rec.refuse('stream-level call at the edge of the vapour-pressure domain of the chemicals with flow (temperature clamped: not judged)'); continue
                rec.hit('stream-level:' + form)
                val = a.P if name.endswith('_T') else a.T
                comp = np.asarray(a.y if name.startswith('bubble') else a.x, float)
                full = np.zeros(n)
                if form == 'IDs': full = comp
                else: full[sub] = comp
                refc = np.asarray(base[1], float)
                dsfx2 = dsfx
                if name.startswith('dew') and not dsfx2:
                    # is the stream-level result itself a converged dew point of the solver that produced it?
                    dps = s.get_dew_point(kw.get('IDs')); zs_ = z if form == 'IDs' else z[sub]
                    refs = ref if form == 'IDs' else ref_models(th, tuple(chems[j] for j in sub))
                    check_wiring(rec, dps, refs, 'DewPoint/stream-level')
                    # (the solver's result lies inside the domain: an edge returned at stream level is a disagreement, not "unconverged")
                    st_ = dew_status(rec, dps, refs, zs_, T0 if name.endswith('_T') else a.T, a.P if name.endswith('_T') else P0, comp, meth, cls)[0] if (name.endswith('_T') or Tlo < a.T < Thi) else 'edge'
                    if st_ == 'unconverged': dsfx2 = '/dew-unconverged'
                # the subset solver sees the same mixture without the absent members: same value to the solvers' resolution (1e-7 relative as for the scale clause; compositions 1e-6)
                tolv = (1e-7 * abs(base[0]) + (2e-3 if name.endswith('_T') else 0.0)) if not name.startswith('dew') else (1e-6 * abs(base[0]) + 1e-2 if name.endswith('_T') else 1e-4)
                if name == 'bubble_point_at_P' and bub_bad.get('solve_Ty'): dsfx2 = '/bubble-unconverged'
                if name == 'dew_point_at_P' and not dsfx2 and abs(val - base[0]) > tolv and min(val, base[0]) > 480.:
                    # both are converged dew points above the quantifier's 480 K (near-critical: at 2.5-3 MPa the dew curve of a hydrocarbon mixture has two branches, retrograde region)
                    rec.hit('stream-level:dew-above-480K-two-branches'); rec.refuse('stream-level dew temperature above the 480 K of the quantifier where two converged dew points exist (near-critical; not judged)'); continue
                rec.check(abs(val - base[0]) <= tolv and (bool(dsfx2) or np.allclose(full, refc, rtol=0, atol=1e-5)), 'stream-level', f'{name}/{form}/{cls}{dsfx2}',
                          f'Stream.{name}({kw}) with flows {k}*z gives {val!r}, {full.tolist()} but {meth} on the normalised composition gives {base[0]!r}, {refc.tolist()} (ids={ids}, z={zn.tolist()})', residual=abs(val - base[0]) / abs(base[0]))
    except Exception as e:
        rec.exception(f'stream-level/{cls}', e, what=f'stream-level bubble / dew point on {ids} raised {type(e).__name__}: {str(e)[:100]}')
    # ---- permutation: the returned compositions are permuted with the list (all four solvers); for n >= 4 permutations drawn at random instead of the lexicographic head
    import random
    r_ = random.Random(case['pseed'] + 1)
    perms = []
    head = [list(q) for q in list(itertools.permutations(range(n)))[:7]] if n == 4 else None       # the permutations the loop above has taken
    for _ in range(2 if n == 4 else 0):
        p = list(range(n)); r_.shuffle(p)
        if p not in head and p not in perms: perms.append(p)
    for p in perms:
        pid = [ids[i] for i in p]
        stage = 'construct'
        try:
            thp = thermo(pid, case['ideal'], case.get('pkg')); chp = tuple(thp.chemicals)
            bpp = eq.BubblePoint(chp, thp); dpp = eq.DewPoint(chp, thp); zp = z[p]
            refp = ref_models(thp, chp)
            check_wiring(rec, bpp, refp, 'BubblePoint/permuted'); check_wiring(rec, dpp, refp, 'DewPoint/permuted')
            rec.hit('permutation:random')
            if Pb is not None:
                stage = 'bubble-P'
                r = bpp.solve_Py(zp.copy(), T0)
                rec.check(abs(r[0] - Pb[0]) <= 1e-9 * Pb[0] + 1e-2 and np.allclose(r[1], np.asarray(Pb[1])[p], rtol=1e-8, atol=1e-14), 'permutation', f'bubble-P/{cls}', f'bubble pressure / y depend on the order of the chemicals: {Pb[0]!r} vs {r[0]!r} for order {pid}')
            if Tb is not None and Tlo < Tb[0] < Thi:
                stage = 'bubble-T'
                r = bpp.solve_Ty(zp.copy(), P0)
                rec.check(abs(r[0] - Tb[0]) <= 1e-9 * Tb[0] + 1e-8 and np.allclose(r[1], np.asarray(Tb[1])[p], rtol=1e-6, atol=1e-12), 'permutation', f'bubble-T/{cls}' + ('/bubble-unconverged' if bub_bad.get('solve_Ty') else ''), f'bubble temperature / y depend on the order of the chemicals: {Tb[0]!r}, {np.asarray(Tb[1])[p].tolist()} vs {r[0]!r}, {np.asarray(r[1]).tolist()} for order {pid}')
            if Pd is not None and dew_bad.get('solve_Px') in ('ok', 'unconverged'):
                stage = 'dew-P'
                r = dpp.solve_Px(zp.copy(), T0)
                stp, _ = dew_status(rec, dpp, refp, zp, T0, r[0], r[1], 'solve_Px', cls)
                sfx = '/dew-unconverged' if (stp == 'unconverged' or dew_bad.get('solve_Px') == 'unconverged') else ''
                rec.check(abs(r[0] - Pd[0]) <= 1e-6 * Pd[0] + 1e-2 and (bool(sfx) or np.allclose(r[1], np.asarray(Pd[1])[p], rtol=0, atol=1e-5)), 'permutation', f'dew-P/{cls}{sfx}', f'dew pressure / x depend on the order of the chemicals: {Pd[0]!r}, {np.asarray(Pd[1])[p].tolist()} vs {r[0]!r}, {np.asarray(r[1]).tolist()} for order {pid}')
            if Td is not None and Tlo < Td[0] < Thi and dew_bad.get('solve_Tx') in ('ok', 'unconverged'):
                stage = 'dew-T'
                r = dpp.solve_Tx(zp.copy(), P0)
                stp, _ = dew_status(rec, dpp, refp, zp, r[0], P0, r[1], 'solve_Tx', cls) if Tlo < r[0] < Thi else ('edge', 0)
                sfx = '/dew-unconverged' if (stp == 'unconverged' or dew_bad.get('solve_Tx') == 'unconverged') else ''
                rec.check(abs(r[0] - Td[0]) <= 1e-4 and (bool(sfx) or np.allclose(r[1], np.asarray(Td[1])[p], rtol=0, atol=1e-5)), 'permutation', f'dew-T/{cls}{sfx}', f'dew temperature / x depend on the order of the chemicals: {Td[0]!r}, {np.asarray(Td[1])[p].tolist()} vs {r[0]!r}, {np.asarray(r[1]).tolist()} for order {pid}')
        except Exception as e:
            if refusal(e):
                rec.hit('refusal:not-warranted')
                rec.check(False, 'permutation', f'{stage}/{cls}/refused' + (('/dew-unconverged' if dew_bad.get('solve_Px' if stage == 'dew-P' else 'solve_Tx') == 'unconverged' else '') if stage.startswith('dew') else ''),
                          f'the solver on the permuted list {pid} refused ({type(e).__name__}: {str(e)[:100]}) the problem ({stage}) it solved for the order {ids}'); continue
            rec.exception(f'permutation/{cls}', e, what=f'solver on the permuted list {pid} raised {type(e).__name__}: {str(e)[:100]}'); break
    # ---- a solver built on a subset of the package's chemicals (the way the flash builds them) against a package that holds only that subset;
    #      and the cached instance (used by every earlier case on this list) against a freshly constructed one
    sub = [j for j in range(n) if z[j] > 0]
    if 2 <= len(sub) < n:
        try:
            sc = tuple(chems[j] for j in sub); zs = z[sub]; stage = 'construct'
            b1 = eq.BubblePoint(sc, th); d1 = eq.DewPoint(sc, th)
            th2 = thermo([ids[j] for j in sub], case['ideal'], case.get('pkg')); c2 = tuple(th2.chemicals)
            b2 = eq.BubblePoint(c2, th2); d2 = eq.DewPoint(c2, th2)
            rec.hit('subset-of-package')
            ref1 = ref_models(th, sc)
            check_wiring(rec, b1, ref1, 'BubblePoint/subset'); check_wiring(rec, d1, ref1, 'DewPoint/subset')
            for name, f1, f2, base in (('solve_Py', lambda: b1.solve_Py(zs.copy(), T0), lambda: b2.solve_Py(zs.copy(), T0), Pb), ('solve_Ty', lambda: b1.solve_Ty(zs.copy(), P0), lambda: b2.solve_Ty(zs.copy(), P0), Tb),
                                       ('solve_Px', lambda: d1.solve_Px(zs.copy(), T0), lambda: d2.solve_Px(zs.copy(), T0), Pd), ('solve_Tx', lambda: d1.solve_Tx(zs.copy(), P0), lambda: d2.solve_Tx(zs.copy(), P0), Td)):
                if base is None: continue
                if name.endswith(('Ty', 'Tx')) and not (Tlo < base[0] < Thi): continue
                stage = name
                r1 = f1(); r2 = f2()
                rec.check(r1[0] == r2[0] and np.array_equal(np.asarray(r1[1]), np.asarray(r2[1])), 'subset', f'{name}/{cls}', f'{name} of a solver built on {[c.ID for c in sc]} inside the package {ids} gives {r1[0]!r} but {r2[0]!r} in a package of exactly these chemicals')
        except Exception as e:
            if refusal(e):
                # the solver on the whole list has just solved this problem (the absent members carry zero)
                rec.hit('refusal:not-warranted')
                rec.check(False, 'subset', f'{stage}/{cls}/refused', f'{stage} of a solver on the subset {[c.ID for c in sc]} of {ids} refused ({type(e).__name__}: {str(e)[:100]}) the problem solved on the whole list')
            else: rec.exception(f'subset/{cls}', e, what=f'solver on a subset of {ids} raised {type(e).__name__}: {str(e)[:100]}')
    if case.get('fresh'):
        saved_b, saved_d = dict(eq.BubblePoint._cached), dict(eq.DewPoint._cached)
        stage = 'construct'
        try:
            eq.BubblePoint._cached.clear(); eq.DewPoint._cached.clear()
            bf = eq.BubblePoint(chems, th); df = eq.DewPoint(chems, th)
            rec.hit('fresh-instance')
            check_wiring(rec, bf, ref, 'BubblePoint/fresh'); check_wiring(rec, df, ref, 'DewPoint/fresh')
            rec.check(bf is not bp and df is not dp, 'cache', 'new-after-clear', 'clearing the instance cache did not produce a new solver object')
            for name, fn, base in (('solve_Py', lambda: bf.solve_Py(z.copy(), T0), Pb), ('solve_Ty', lambda: bf.solve_Ty(z.copy(), P0), Tb), ('solve_Px', lambda: df.solve_Px(z.copy(), T0), Pd), ('solve_Tx', lambda: df.solve_Tx(z.copy(), P0), Td)):
                if base is None: continue
                stage = name
                r = fn()
                rec.check(r[0] == base[0] and np.array_equal(np.asarray(r[1]), np.asarray(base[1])), 'cache', f'{name}/{cls}', f'{name}: the cached solver (used by earlier cases) gives {base[0]!r} but a freshly constructed one gives {r[0]!r} (ids={ids}, z={z.tolist()})')
        except Exception as e:
            if refusal(e):
                rec.hit('refusal:not-warranted')
                rec.check(False, 'cache', f'{stage}/{cls}/refused', f'{stage}: a freshly constructed solver refused ({type(e).__name__}: {str(e)[:100]}) the problem the cached one solved (ids={ids}, z={z.tolist()})')
            else: rec.exception(f'cache/{cls}', e, what=f'fresh solver on {ids} raised {type(e).__name__}: {str(e)[:100]}')
        finally:
            eq.BubblePoint._cached.clear(); eq.BubblePoint._cached.update(saved_b); eq.DewPoint._cached.clear(); eq.DewPoint._cached.update(saved_d)
        bq = eq.BubblePoint(chems, th)
        rec.check(bq is bp, 'cache', 'same-key-same-instance', 'BubblePoint(chemicals, thermo) with the same chemicals and models did not return the cached instance')


def replay(case, rec):
    run_case(case, rec)


REGRESSION = [
    {"ids": ["Octane", "Methanol", "Hexane", "Propanol"], "ideal": False, "z": [3.4131775467273646e-09, 0.7227108132677728, 0.277288956819603, 2.2649944662301849e-07],
     "T": 409.57, "P": 1593107.0, "k": 1000.0, "pseed": 981803},
]


def run(rec, rng, tier, shard, nshards):
    n = 300 if tier == 'quick' else 5000
    if shard == 0:
        for case in REGRESSION: run_case(case, rec)
    for i in range(n):
        case = gen_case(rng)
        try:
            run_case(case, rec)
        except Exception as e:
            rec.exception('harness', e, what=f'harness error: {type(e).__name__}: {e}')
        if i % 97 == 0: rec.sample(case)
