"""C09 — sparse containers behave like the dense NumPy arrays they represent.

Differential monitor: every operation is executed on the real sparse objects and on
NumPy twins built from the same dense images; dense images of results, operands after
the call, the stored-entries invariant and rejections are compared.
"""
import itertools, math, operator as op, sys
import numpy as np
import thermosteam  # noqa
from vt.core import case_hash

sp = sys.modules['thermosteam.base.sparse']
SV, SLV, SA = sp.SparseVector, sp.SparseLogicalVector, sp.SparseArray
SPARSE = (SV, SLV, SA)

PID = 'C09'
RULE = ('cases: (1) single operations op(L,R) with L a sparse vector/logical vector/array of shape <=3x6 and R any operand kind '
        'of the decided domain D (DESIGN C09), values from {0, a, -a, 1/3, 1e-100, 1e100, ...}; (2) get/set by int, slice, int list/array, '
        'boolean mask, [i,j], [:,j], [rows,cols]; (3) reductions x axis x keepdims; (4) construction/copy/conversion; (5) rejection domain R; '
        '(6) histories of 5-30 operations on a pool of 4 objects with aliasing and row views, NumPy twins updated in lock-step; '
        '(7) bounded exhaustive enumeration over the alphabet {0,1,-1,0.5} for vectors of size<=3 and arrays<=2x2. '
        'Added: length-1 / single-row LEFT operands, 1-d left with 2-d right operands, Python bool lists, integer ndarrays and NumPy int / bool scalars as right operands; negative reduction axes (refusal counted); '
        'construction / conversion forms (from_size, size=, from_dict / from_set, from_rows and SparseArray(rows) adopting rows, two arrays on shared rows, SparseVector(sparse), sparse(copy=True), to_array(dtype) / astype, '
        'to_flat_array(out), np.asarray, iter / len, scalar casts, shape / size / dtype / value); public methods with their NumPy meaning (mix_from incl. self among the mixed vectors, copy_like, sum_of, '
        'remove_negatives, clear, index / key / value queries, sparse_equal, shares_data_with, sum_sparse_vectors); get-then-write (views for basic indexing, copies for fancy / boolean indexing); '
        'history steps: logical and in-place logical operators, abs, invert, reflected operators, reductions, clear, row / row-slice selections kept in the pool, logical 2-d pool members; empty operands in reductions and constructions. '
        'non-trivial = result (or target after the call) has at least one non-zero and one zero entry, or a rejection was demanded; '
        'Oracle audit: dtype kind (logical vs numeric) of every operator result except true division; rejections judged for exception type and unchanged operands; '
        'mismatching slice assignment keyed by shorter / longer and also offered to logical vectors; get-then-write refusals only for the documented read-only dense forms. '
        'distinct = hash of the serialised case')
MIN_NONTRIVIAL = {'quick': 2000, 'thorough': 50000}
ASSUMPTIONS = ['NumPy is the reference semantics', 'numba disabled as in the repository test configuration',
               'operations where NumPy itself raises or yields inf/nan are not judged (only the stored-entry invariant applies)',
               'refusals are granted from the inputs only: sa[rowslice, :] = <2-d value with several rows> (IndexError "cannot broadcast 2-d array on to 1-d sparse array") and '
               'in-place writes to the documented read-only dense selections (column-cutting index forms of an array, a non-open slice of a vector: ndarray, writeable False, '
               'ValueError read-only); every other raise where NumPy computes, including ZeroDivisionError where NumPy is finite, is reported',
               'a rejection is a ValueError / IndexError that leaves both operands and the stored-entries invariant as before; logical / logical true division keeps the logical kind in the library (values compared, kind not)']


def required(tier):
    return ['op', 'inplace', 'getitem', 'setitem', 'reduce', 'construct', 'reject', 'history', 'enum', 'invariant',
            'op:left(1)', 'op:left(1xn)', 'op:vector-with-2d-right', 'op:right-blist', 'op:right-iarr1', 'op:right-npint', 'op:right-npbool', 'reduce:negative-axis', 'empty-operand',
            'method', 'method:mix_from', 'method:copy_like', 'method:sum_of', 'method:queries', 'method:sparse_equal', 'method:sum_sparse_vectors', 'getmut', 'getmut:numpy-view', 'getmut:numpy-copy',
            'construct:shared-rows', 'construct:from_rows', 'construct:sparse(copy=True)', 'construct:to_array(dtype)', 'construct:casts',
            'history:log', 'history:ilog', 'history:ref', 'history:red', 'history:clear', 'history:get', 'history:abs',
            # oracle audit: every get-then-write form that must be judged (a selection that silently became a read-only dense copy would otherwise
            # only lower a counter), dtype kind of operator results, state after rejections, the relation classes of mismatching assignments
            'op:dtype-kind', 'op:dtype-kind/bin', 'op:dtype-kind/log', 'reject:state-checked/op', 'reject:state-checked/readonly',
            'reject:setitem/sv/:/shorter', 'reject:setitem/sv/:/longer', 'reject:setitem/slv/:/shorter', 'reject:setitem/slv/:/longer',
            'reject:setitem/sv/ilist/longer', 'reject:setitem/sa/:/longer', 'reject:setitem/sa/:/shorter'] + [f'getmut:judged/{k}/{f}' for k, f in GETMUT_JUDGED_FORMS]

# ---------------------------------------------------------------------------
# building operands from descriptions

def build(d):
    k, v = d['k'], d['v']
    if k == 'sv': return SV(list(v))
    if k == 'slv': return SLV([bool(i) for i in v])
    if k == 'sa': return SA([list(r) for r in v])
    if k == 'sab': return SA([[bool(i) for i in r] for r in v])
    if k == 'scalar': return float(v)
    if k == 'iscalar': return int(v)
    if k == 'bscalar': return bool(v)
    if k == 'npscalar': return np.float64(v)
    if k == 'arr0': return np.array(float(v))
    if k in ('list', 'list1'): return [float(i) for i in v]
    if k in ('arr1', 'arr1_1'): return np.array(v, dtype=float)
    if k == 'barr1': return np.array(v, dtype=bool)
    if k == 'blist': return [bool(i) for i in v]
    if k == 'iarr1': return np.array(v, dtype=int)
    if k == 'npint': return np.int64(v)
    if k == 'npbool': return np.bool_(v)
    if k == 'list2': return [[float(i) for i in r] for r in v]
    if k == 'arr2': return np.array(v, dtype=float)
    if k == 'barr2': return np.array(v, dtype=bool)
    raise ValueError(k)


class Corrupt(Exception):
    pass


def dense(x):
    if isinstance(x, SPARSE):
        try:
            return x.to_array()
        except Exception as e:
            raise Corrupt(f'to_array() fails ({type(e).__name__}: {e}); invariant: {invariant(x)}')
    return np.asarray(x)


def twin(d):
    """NumPy twin of an operand description."""
    k, v = d['k'], d['v']
    if k in ('sv', 'list', 'list1', 'arr1', 'arr1_1'): return np.array(v, dtype=float)
    if k in ('slv', 'barr1', 'blist'): return np.array(v, dtype=bool)
    if k in ('sa', 'list2', 'arr2'): return np.array(v, dtype=float).reshape(len(v), -1)
    if k in ('sab', 'barr2'): return np.array(v, dtype=bool).reshape(len(v), -1)
    if k in ('scalar', 'npscalar'): return float(v)
    if k == 'iscalar': return int(v)
    if k == 'bscalar': return bool(v)
    if k == 'arr0': return np.array(float(v))
    if k == 'iarr1': return np.array(v, dtype=int)
    if k == 'npint': return int(v)
    if k == 'npbool': return bool(v)
    raise ValueError(k)


def invariant(x, depth=0):
    """stored entries are exactly the non-zero elements, keys are ints inside the size, rows share one size."""
    if isinstance(x, SA):
        sizes = {r.size for r in x.rows}
        if len(sizes) > 1:
            return 'rows of different sizes %s' % sorted(sizes)
        for r in x.rows:
            e = invariant(r)
            if e: return e
    elif isinstance(x, SV):
        for i, v in x.dct.items():
            if not isinstance(i, (int, np.integer)) or isinstance(i, (bool, np.bool_)): return f'non-integer key {i!r}'
            if not (0 <= i < x.size): return f'key {i} outside size {x.size}'
            if v == 0: return f'stored zero at {i}'
            if not isinstance(v, (bool, np.bool_, int, float, np.integer, np.floating)): return f'non-numeric value {type(v).__name__} at {i}'
            if v != v: return f'stored nan at {i}'
    elif isinstance(x, SLV):
        for i in x.set:
            if not isinstance(i, (int, np.integer)) or isinstance(i, (bool, np.bool_)): return f'non-integer key {i!r}'
            if not (0 <= i < x.size): return f'key {i} outside size {x.size}'
    return None


BIN = {'add': op.add, 'sub': op.sub, 'mul': op.mul, 'truediv': op.truediv, 'eq': op.eq, 'ne': op.ne,
       'gt': op.gt, 'lt': op.lt, 'ge': op.ge, 'le': op.le}
LOG = {'and': op.and_, 'or': op.or_, 'xor': op.xor}
INP = {'iadd': op.iadd, 'isub': op.isub, 'imul': op.imul, 'itruediv': op.itruediv}
ILOG = {'iand': op.iand, 'ior': op.ior, 'ixor': op.ixor}
REF = {'radd': lambda a, b: b + a, 'rsub': lambda a, b: b - a, 'rmul': lambda a, b: b * a, 'rtruediv': lambda a, b: b / a}
UN = {'neg': op.neg, 'abs': abs, 'invert': op.invert}
TABLES = {'bin': BIN, 'log': LOG, 'inp': INP, 'ilog': ILOG, 'ref': REF, 'un': UN}
BOOLK = ('bscalar', 'barr1', 'slv', 'barr2', 'sab', 'blist', 'npbool')


# Literal whitelist of (container kind, index form, value class) triples that the library refuses deliberately although NumPy accepts them, each with the
# exception type and message of the refusal.  Measured over 3.6e5 generated get / set / get-then-write cases and 6000 histories on the unchanged library:
# this is the ONLY explicit refusal that occurs (SparseArray.__setitem__ hands the whole 2-d value to every selected row when the row index is a
# non-open slice and the column index is ':'; the row refuses it before anything is written).  Any other raise where NumPy computes is reported.
UNSUPPORTED_SET = {('sa', '[slice,:]', '2d-rows>1'): (IndexError, 'cannot broadcast 2-d array on to 1-d sparse array'),
                   ('sab', '[slice,:]', '2d-rows>1'): (IndexError, 'cannot broadcast 2-d array on to 1-d sparse array')}


def value_class(dv):
    """class of an assigned value as the library sees it (reduce_ndim strips leading axes of length 1)."""
    sh = np.shape(dv)
    if len(sh) == 2: return '2d-rows>1' if sh[0] > 1 else '2d-1row'
    return f'{len(sh)}d'


def kind_of(x):
    if isinstance(x, SA): return 'sab' if x.dtype is bool else 'sa'
    if isinstance(x, SLV): return 'slv'
    if isinstance(x, SV): return 'sv'
    return type(x).__name__


def documented_set_refusal(kind, ix, dv, e):
    """True only when the harness itself sees from the inputs that (kind, index form, value class) is a whitelisted unsupported form AND the
    exception is the documented one (type and message)."""
    spec = UNSUPPORTED_SET.get((kind, ix_tag(ix), value_class(dv)))
    return spec is not None and type(e) is spec[0] and spec[1] in str(e)


def same_kind(res, ref):
    """logical results stay logical and numeric results numeric: (dtype is bool) must agree with NumPy."""
    a = dense(res).dtype == bool
    b = np.asarray(ref).dtype == bool
    return a == b, f'result dtype {"bool" if a else "numeric"} vs numpy {np.asarray(ref).dtype}'


def same_values(dr, r):
    dr = np.asarray(dr); r = np.asarray(r)
    if dr.shape != r.shape:
        return False, f'shape {dr.shape} vs numpy {r.shape}'
    try:
        a = dr.astype(float); b = r.astype(float)
    except Exception as e:
        return False, f'not numeric: {e}'
    if np.array_equal(a, b):
        return True, ''
    return False, f'values {a.tolist()} vs numpy {b.tolist()}'


def nontrivial_image(x):
    a = np.asarray(x, dtype=float).ravel()
    return a.size >= 2 and (a != 0).any() and (a == 0).any()

# ---------------------------------------------------------------------------
# case executors.  Each returns nothing; they record through rec.

def run_op(case, rec):
    fam, o = case['fam'], case['o']
    fn = TABLES[fam][o]
    a = build(case['L']); da = twin(case['L'])
    if fam == 'un':
        try:
            with np.errstate(all='ignore'): ref = fn(da.copy())
        except Exception:
            rec.refuse('numpy raises'); return
        try: res = fn(a)
        except Exception as e:
            rec.exception('op', e, what=f'unary {o} on {case["L"]["k"]} raised'); return
        okv, why = same_values(dense(res), ref)
        rec.check(okv, 'op', f'unary/{o}/{case["L"]["k"]}', f'unary {o}: {why}')
        okk, whyk = same_kind(res, ref); rec.hit('op:dtype-kind')
        rec.check(okk, 'op', f'dtype-kind/unary/{o}/{case["L"]["k"]}', f'unary {o} on {case["L"]["k"]}: {whyk}')
        e = invariant(res) or invariant(a)
        rec.check(e is None, 'invariant', f'unary/{o}', f'invariant after unary {o}: {e}')
        ok2, _ = same_values(dense(a), da)
        rec.check(ok2, 'operand-unchanged', f'unary/{o}', f'unary {o} changed its operand')
        if nontrivial_image(ref): rec.mark_nontrivial(case_hash(case))
        return
    alias = case['R'] == 'same'
    if alias:
        b, db = a, da
        rk = case['L']['k']
    else:
        b = build(case['R']); db = twin(case['R']); rk = case['R']['k']
    lk = case['L']['k']
    inplace = fam in ('inp', 'ilog')
    da0 = da.copy()
    db0 = db.copy() if isinstance(db, np.ndarray) else db
    # reference
    try:
        with np.errstate(all='ignore'):
            if alias:
                x = da.copy(); ref = fn(x, x)
            else:
                ref = fn(da.copy(), db.copy() if isinstance(db, np.ndarray) else db)
        rerr = None
    except Exception as e:
        ref = None; rerr = e
    if rerr is None:
        try:
            if not np.all(np.isfinite(np.asarray(ref, dtype=float))):
                rec.refuse('numpy result not finite (not judged)'); ref = None; rerr = 'nonfinite'
        except Exception:
            rec.refuse('numpy result not numeric'); return
    if inplace and rerr is None and np.asarray(ref).shape != da0.shape:
        rec.refuse('in-place growth (not judged)'); return
    try:
        res = fn(a, b); serr = None
    except Exception as e:
        res = None; serr = e
    clause = 'inplace' if inplace else 'op'
    tag = f'{o}/{lk}/{"same" if alias else rk}'
    if case.get('Lform'): tag = f'broadcast-left{case["Lform"]}/{lk}/{rk}'          # added forms: one key per operand-kind pairing (the operator is in the witness)
    if case.get('Lform'): rec.hit('op:left' + case['Lform'])
    if not alias and lk in ('sv', 'slv') and np.ndim(db) == 2: rec.hit('op:vector-with-2d-right')
    if rk in ('blist', 'iarr1', 'npint', 'npbool'): rec.hit('op:right-' + rk)
    if rerr is not None:
        # NumPy has no answer: only the representation invariant is judged
        rec.refuse('numpy raises or non-finite: only invariant judged')
        if serr is None:
            e = invariant(res) or invariant(a) or (invariant(b) if isinstance(b, SPARSE) else None)
            rec.check(e is None, 'invariant', f'{tag}', f'invariant after {o}: {e}')
        return
    if serr is not None:
        # (this point is reached only when NumPy returned a finite result, so no element of the divisor is zero: a ZeroDivisionError here is as
        #  much a defect as any other raise and is reported under exception/ZeroDivisionError@<site>)
        if isinstance(serr, ZeroDivisionError): rec.hit('op:zerodivision-where-numpy-finite')
        rec.exception(clause, serr, what=f'{o}({lk},{rk}) raised {type(serr).__name__}: {serr} but NumPy computes a result')
        return
    okv, why = same_values(dense(res), ref)
    rec.check(okv, clause, f'value/{tag}', f'{o}({lk},{rk}): {why}')
    if o not in ('truediv', 'rtruediv', 'itruediv'):
        # comparisons and logical operators give logical results, arithmetic keeps NumPy's kind (logical / logical is left out: the library keeps the
        # result logical where NumPy promotes True / True to 1.0; the values are equal and are compared above)
        okk, whyk = same_kind(res, ref); rec.hit('op:dtype-kind'); rec.hit('op:dtype-kind/' + fam)
        rec.check(okk, clause, f'dtype-kind/{tag}', f'{o}({lk},{rk}): {whyk}')
    if inplace:
        rec.check(res is a, 'inplace', f'identity/{tag}', f'in-place {o} returned a different object')
    else:
        ok2, why2 = same_values(dense(a), da0)
        rec.check(ok2, 'operand-unchanged', f'left/{tag}', f'{o} mutated its left operand: {why2}')
    if isinstance(b, SPARSE) or isinstance(b, (np.ndarray, list)):
        if not alias:
            ok3, why3 = same_values(dense(b), db0)
            rec.check(ok3, 'operand-unchanged', f'right/{tag}', f'{o} mutated its right operand: {why3}')
    e = invariant(res) or invariant(a) or (invariant(b) if isinstance(b, SPARSE) else None)
    rec.check(e is None, 'invariant', f'{tag}', f'invariant after {o}({lk},{rk}): {e}')
    if nontrivial_image(ref): rec.mark_nontrivial(case_hash(case))


def mk_index(ix):
    """index description -> (python index for sparse, python index for numpy)"""
    t = ix['t']
    if t == 'int': return ix['i'], ix['i']
    if t == 'slice':
        s = slice(ix.get('a'), ix.get('b'), ix.get('c')); return s, s
    if t == 'ilist': return list(ix['v']), list(ix['v'])
    if t == 'iarr': return np.array(ix['v'], dtype=int), np.array(ix['v'], dtype=int)
    if t == 'blist': return [bool(i) for i in ix['v']], np.array(ix['v'], dtype=bool)
    if t == 'barr': return np.array(ix['v'], dtype=bool), np.array(ix['v'], dtype=bool)
    if t == 'barr2': return np.array(ix['v'], dtype=bool), np.array(ix['v'], dtype=bool)
    if t == 'tuple':
        a = [mk_index(i) for i in ix['v']]
        return tuple(i[0] for i in a), tuple(i[1] for i in a)
    if t == 'ellipsis_all': return slice(None), slice(None)
    raise ValueError(t)


def run_get(case, rec):
    a = build(case['L']); da = twin(case['L'])
    si, ni = mk_index(case['ix'])
    try: ref = da[ni]
    except Exception:
        rec.refuse('numpy index error'); return
    if np.size(ref) == 0:
        rec.refuse('empty selection (zero-size result, not judged)'); return
    try: res = a[si]
    except Exception as e:
        # (no index form of the generated domain is refused by the library: every raise where NumPy returns is reported)
        rec.exception('getitem', e, what=f'getitem {case["ix"]} on {case["L"]["k"]} raised but NumPy returns'); return
    okv, why = same_values(dense(res), ref)
    rec.check(okv, 'getitem', f'value/{case["L"]["k"]}/{ix_tag(case["ix"])}', f'getitem {case["ix"]}: {why}')
    e = invariant(a) or (invariant(res) if isinstance(res, SPARSE) else None)
    rec.check(e is None, 'invariant', 'getitem', f'invariant after getitem: {e}')
    ok2, _ = same_values(dense(a), da)
    rec.check(ok2, 'operand-unchanged', 'getitem', 'getitem changed the array')
    if nontrivial_image(da): rec.mark_nontrivial(case_hash(case))


def index_in_range(ix, shape):
    """True when every int index / slice bound of ix lies inside shape (out-of-range forms are not generated: DESIGN C09)."""
    t = ix['t']
    if t == 'tuple':
        return len(ix['v']) == len(shape) and all(index_in_range(i, (n,)) for i, n in zip(ix['v'], shape))
    n = shape[0]
    if t == 'int': return 0 <= ix['i'] < n
    if t == 'slice': return all(ix.get(k) is None or 0 <= ix.get(k) <= n for k in ('a', 'b'))
    if t in ('ilist', 'iarr'): return all(0 <= i < n for i in ix['v'])
    if t in ('blist', 'barr'): return len(ix['v']) == n
    if t == 'barr2': return np.shape(ix['v']) == tuple(shape)
    return True


def ix_tag(ix):
    if ix['t'] == 'tuple':
        return '[' + ','.join(ix_tag(i) for i in ix['v']) + ']'
    if ix['t'] == 'slice':
        return 'slice' if (ix.get('a') is not None or ix.get('b') is not None or ix.get('c') is not None) else ':'
    return ix['t']


def run_set(case, rec):
    a = build(case['L']); da = twin(case['L'])
    si, ni = mk_index(case['ix'])
    alias = case['V'] == 'same'
    if alias:
        v, dv = a, da.copy()
    else:
        v = build(case['V']); dv = twin(case['V'])
    dv0 = dv.copy() if isinstance(dv, np.ndarray) else dv
    ref = da.copy()
    try:
        ref[ni] = dv
        rerr = None
    except Exception as e:
        rerr = e
    try:
        a[si] = v; serr = None
    except Exception as e:
        serr = e
    tag = f'{case["L"]["k"]}/{ix_tag(case["ix"])}/{"same" if alias else case["V"]["k"]}'
    if rerr is not None:
        # NumPy rejects (shape mismatch): the property demands rejection too
        if case.get('must_reject'):
            e = None
            # the relation between value and selection is part of the key: a value SHORTER than the vector in v[:] = value is the recorded finding
            # (the repository's own test relies on it), a LONGER one was repaired and must never be accepted again
            nsel = int(np.size(da[ni])); nval = int(np.size(dv))
            rel = 'shorter' if nval < nsel else ('longer' if nval > nsel else 'reshaped')
            rec.hit(f'reject:setitem/{case["L"]["k"]}/{ix_tag(case["ix"])}/{rel}')
            if serr is None:
                # (only the 'shorter' relation keeps the recorded key prefix; 'longer' / 'reshaped' get a prefix of their own, so that no glob written for the
                #  recorded prefix assignment can cover them)
                rec.check(False, 'reject', f'setitem-accepted/{tag}/shorter' if rel == 'shorter' else f'setitem-accepted-{rel}/{tag}',
                          f'setitem {case["ix"]} with value of shape {np.shape(dv)} on shape {da.shape} accepted silently '
                          f'(NumPy: {type(rerr).__name__}); array now {dense(a).tolist()}, invariant: {invariant(a)}')
                # what an accepted mismatching assignment leaves behind is judged on its own (these keys are not covered by the recorded finding):
                # the stored-entries invariant, and for the recorded 'shorter' form exactly the documented content (the value, padded with zeros)
                e = invariant(a)
                rec.check(e is None, 'invariant', f'setitem-accepted/{tag}/{rel}', f'invariant after an accepted mismatching setitem: {e}')
                if rel == 'shorter' and da.ndim == 1 and ix_tag(case['ix']) == ':' and np.ndim(dv) == 1:
                    exp = np.zeros(da.shape, dtype=da.dtype); exp[:nval] = np.asarray(dv).astype(da.dtype)
                    okv, why = same_values(dense(a), exp)
                    rec.check(okv, 'reject', f'setitem-shorter-content/{tag}', f'v[:] = <shorter value> (recorded as accepted: the value padded with zeros): {why}')
                if not alias and isinstance(v, SPARSE + (np.ndarray, list)):
                    ok3, why3 = same_values(dense(v), dv0)
                    rec.check(ok3, 'operand-unchanged', f'setitem-accepted-value/{tag}/{rel}', f'accepted mismatching setitem mutated the assigned value: {why3}')
            else:
                # a rejection is a deliberate ValueError / IndexError that leaves the target as it was
                if not isinstance(serr, (ValueError, IndexError)):
                    rec.check(False, 'reject', f'setitem-wrong-type/{tag}/{rel}/{type(serr).__name__}',
                              f'mismatching setitem {case["ix"]} died with {type(serr).__name__}: {serr} instead of a ValueError / IndexError rejection')
                else:
                    rec.ok('reject')
                okv, why = same_values(dense(a), da)
                rec.check(okv, 'reject', f'setitem-partial-write/{tag}/{rel}', f'rejected setitem {case["ix"]} left the target changed: {why}')
                e = invariant(a)
                rec.check(e is None, 'invariant', f'setitem-rejected/{tag}/{rel}', f'invariant after a rejected setitem: {e}')
                rec.mark_nontrivial(case_hash(case))
        else:
            rec.refuse('numpy raises on setitem (not judged)')
            if serr is None:
                e = invariant(a)
                rec.check(e is None, 'invariant', f'setitem/{tag}', f'invariant after setitem: {e}')
        return
    if serr is not None:
        if documented_set_refusal(case['L']['k'], case['ix'], dv, serr):
            # whitelisted (kind, index form, value class) with the documented exception: counted, and the refused call must leave a valid object
            rec.refuse(f'documented unsupported assignment {case["L"]["k"]}{ix_tag(case["ix"])} = <{value_class(dv)} value> ({type(serr).__name__}: not judged)')
            rec.hit(f'refusal:set/{case["L"]["k"]}/{ix_tag(case["ix"])}/{value_class(dv)}')
            e = invariant(a)
            rec.check(e is None, 'invariant', f'setitem-refused/{tag}', f'invariant after a refused setitem: {e}')
            okr, whyr = same_values(dense(a), da)
            rec.check(okr, 'setitem', f'refused-partial-write/{tag}', f'setitem {case["ix"]} = <{value_class(dv)} value> was refused ({type(serr).__name__}: {serr}) but the target was modified before the raise: {whyr}')
            return
        rec.exception('setitem', serr, what=f'setitem {case["ix"]} = {case["V"] if not alias else "self"} on {case["L"]["k"]}{list(da.shape)} raised but NumPy accepts')
        return
    okv, why = same_values(dense(a), ref)
    rec.check(okv, 'setitem', f'value/{tag}', f'setitem {case["ix"]}: {why}')
    e = invariant(a) or (invariant(v) if isinstance(v, SPARSE) else None)
    rec.check(e is None, 'invariant', f'setitem/{tag}', f'invariant after setitem: {e}')
    if not alias and isinstance(v, SPARSE + (np.ndarray, list)):
        ok3, why3 = same_values(dense(v), dv0)
        rec.check(ok3, 'operand-unchanged', f'setitem-value/{tag}', f'setitem mutated the assigned value: {why3}')
    if nontrivial_image(ref): rec.mark_nontrivial(case_hash(case))


def run_reduce(case, rec):
    a = build(case['L']); da = twin(case['L'])
    name, axis, keep = case['f'], case['axis'], case['keepdims']
    kw = {}
    if axis is not None: kw['axis'] = axis
    if keep: kw['keepdims'] = True
    try:
        with np.errstate(all='ignore'): ref = getattr(da, name)(**kw)
    except Exception:
        rec.refuse('numpy raises in reduction'); return
    if da.size == 0:
        rec.hit('empty-operand')
        if not np.all(np.isfinite(np.asarray(ref, dtype=float))): rec.refuse('numpy result not finite (not judged)'); return
    if axis is not None and axis < 0: rec.hit('reduce:negative-axis')
    try: res = getattr(a, name)(**kw)
    except Exception as e:
        if axis is not None and axis < 0 and isinstance(e, ValueError) and 'axis' in str(e):
            rec.refuse('negative axis refused explicitly (axis is out of bounds)'); return
        rec.exception('reduce', e, what=f'{name}({kw}) raised on {case["L"]}'); return
    dr = np.asarray(dense(res), dtype=float); r = np.asarray(ref, dtype=float)
    scale = float(np.abs(da.astype(float)).max()) if da.size else 0.0   # summation order differs: cancellation error is relative to the largest addend
    good = dr.shape == r.shape and np.allclose(dr, r, rtol=1e-12, atol=1e-13 * scale * max(1, da.size))
    rec.check(good, 'reduce', f'{name}/axis={axis}/keepdims={keep}/{case["L"]["k"]}',
              f'{name}({kw}) = {dr.tolist()} (shape {dr.shape}) vs numpy {r.tolist()} (shape {r.shape})')
    e = invariant(a) or (invariant(res) if isinstance(res, SPARSE) else None)
    rec.check(e is None, 'invariant', f'reduce/{name}', f'invariant after {name}: {e}')
    ok2, _ = same_values(dense(a), da)
    rec.check(ok2, 'operand-unchanged', f'reduce/{name}', f'{name} changed the array')
    if nontrivial_image(da): rec.mark_nontrivial(case_hash(case))


def run_construct(case, rec):
    how = case['how']; d = case['L']; da = twin(d)
    try:
        if how == 'sparse()':
            src = build({'k': {'sv': 'list', 'slv': 'blist', 'sa': 'list2', 'sab': 'barr2'}[d['k']], 'v': d['v']})
            x = sp.sparse(src)
        elif how == 'sparse(ndarray)':
            x = sp.sparse(da.copy())
        elif how == 'dict':
            if d['k'] == 'sv': x = SV({i: v for i, v in enumerate(d['v'])}, size=len(d['v']))
            else: x = sp.sparse([{i: v for i, v in enumerate(r)} for r in d['v']], vector_size=len(d['v'][0]))
        elif how == 'set':
            x = SLV({i for i, v in enumerate(d['v']) if v}, size=len(d['v']))
        elif how == 'copy':
            y = build(d); x = y.copy()
            # independence of the copy
            if da.size:
                if isinstance(x, SA): x.rows[0][0] = 0 if da[0, 0] else 1
                else: x[0] = 0 if da[0] else 1
                ok, _ = same_values(dense(y), da)
                rec.check(ok, 'construct', 'copy-independent', 'writing to a copy changed the original')
                x = y.copy()
        elif how == 'tolist':
            y = build(d); lst = y.tolist()
            ok, why = same_values(np.array(lst), da)
            rec.check(ok, 'construct', 'tolist', f'tolist: {why}')
            x = y
        elif how == 'flat':
            y = build(d); flat = y.to_flat_array()
            ok, why = same_values(flat, da.ravel())
            rec.check(ok, 'construct', 'to_flat_array', f'to_flat_array: {why}')
            z = build(d)
            if not isinstance(z, SLV): z.clear()
            z.from_flat_array(flat); x = z
        elif how == 'sparse(sparse)':
            y = build(d); x = sp.sparse(y)
            rec.check(x is y, 'construct', 'sparse-idempotent', 'sparse(x) of a sparse object is not x')
        elif how == 'nonzero':
            y = build(d); idx = y.nonzero_index()
            ref = np.nonzero(da)
            ok = all(sorted(zip(*[list(i) for i in idx])) == sorted(zip(*[i.tolist() for i in ref])) for _ in [0])
            rec.check(ok, 'construct', 'nonzero_index', f'nonzero_index {idx} vs numpy {ref}')
            x = y
        elif how in NEW_HOWS:
            rec.hit('construct:' + how)
            x, exp = construct_added(how, d, da, rec)
            if x is None: return
            if exp is not None: da = exp
        else:
            raise ValueError(how)
    except Corrupt:
        raise
    except Exception as e:
        rec.exception('construct', e, what=f'{how} raised on {d}'); return
    ok, why = same_values(dense(x), da)
    rec.check(ok, 'construct', f'{how}/{d["k"]}', f'{how}: {why}')
    e = invariant(x)
    rec.check(e is None, 'invariant', f'construct/{how}', f'invariant after {how}: {e}')
    if nontrivial_image(da): rec.mark_nontrivial(case_hash(case))


NEW_HOWS = ('zeros', 'SV(size=)', 'from_dict', 'from_rows', 'SA(rows)', 'shared-rows', 'SV(sparse)', 'sparse(copy=True)', 'to_array(dtype)', 'flat(out)', 'asarray', 'iter-len', 'casts', 'attrs')


def poke(x, da):
    """change one element of x (to a value different from the current one)."""
    if isinstance(x, SA): x.rows[0][0] = (not da[0, 0]) if da.dtype == bool else (0. if da[0, 0] else 1.)
    else: x[0] = (not da[0]) if da.dtype == bool else (0. if da[0] else 1.)


def construct_added(how, d, da, rec):
    """added construction / conversion forms; returns (object whose dense image must equal the expectation, expectation or None for da)."""
    k = d['k']; logical = k in ('slv', 'sab')
    if how == 'zeros':
        if k == 'sv': x = SV.from_size(len(d['v']))
        elif k == 'slv': x = SLV.from_size(len(d['v']))
        else: x = SA.from_shape(da.shape)
        return x, np.zeros(da.shape)
    if how == 'SV(size=)':
        x = SV(size=len(d['v'])) if k == 'sv' else (SLV(size=len(d['v'])) if k == 'slv' else SA.from_rows([SV(size=da.shape[1]) for _ in range(da.shape[0])]))
        return x, np.zeros(da.shape)
    if how == 'from_dict':
        mk = (lambda r: SLV.from_set({i for i, v in enumerate(r) if v}, len(r))) if logical else (lambda r: SV.from_dict({i: float(v) for i, v in enumerate(r) if v}, len(r)))
        return (mk(d['v']) if k in ('sv', 'slv') else SA.from_rows([mk(r) for r in d['v']])), None
    if how in ('from_rows', 'SA(rows)'):
        rows = [build({'k': 'slv' if logical else 'sv', 'v': r}) for r in (d['v'] if k in ('sa', 'sab') else [d['v']])]
        x = SA.from_rows(list(rows)) if how == 'from_rows' else SA(list(rows))
        rec.check(all(a is b for a, b in zip(x.rows, rows)), 'construct', f'{how}/adopts-rows', f'{how} did not adopt the row objects it was given (documented: rows are shared, not copied)')
        return x, np.atleast_2d(da)
    if how == 'shared-rows':
        # two arrays built on the same row objects: an in-place write through one is seen through the other, and only in the shared rows
        if k not in ('sa',) or da.size == 0: return None, None
        A = build(d); m = len(A.rows)
        sel = list(range(m))[::-1][:max(1, m - 1)]
        B = SA.from_rows([A.rows[i] for i in sel])
        B *= 2.; B[0, 0] = 5.
        expB = da[sel] * 2.; expB[0, 0] = 5.
        expA = da.copy(); expA[sel] = expB
        ok, why = same_values(dense(B), expB)
        rec.check(ok, 'construct', 'shared-rows/target', f'array built from rows {sel} of another array, after *= 2 and [0,0] = 5: {why}')
        e = invariant(B)
        rec.check(e is None, 'invariant', 'construct/shared-rows', f'invariant of the second array: {e}')
        return A, expA
    if how == 'SV(sparse)':
        if k not in ('sv', 'slv'): return None, None
        y = build(d); x = SV(y) if (k == 'sv' or len(d['v']) % 2) else SLV(y)
        if da.size:
            poke(x, da)
            ok, _ = same_values(dense(y), da)
            rec.check(ok, 'construct', 'SV(sparse)-independent', 'writing to SparseVector(other) changed the other vector')
            x = SV(y)
        return x, None
    if how == 'sparse(copy=True)':
        y = build(d); x = sp.sparse(y, copy=True)
        if da.size:
            poke(x, da)
            ok, _ = same_values(dense(y), da)
            if not rec.check(ok, 'construct', f'sparse(copy=True)-independent/{k}', f'sparse(x, copy=True) returned {"x itself" if x is y else "an object sharing storage with x"}: writing to the result changed x'):
                return None, None
            x = sp.sparse(y, copy=True)
        return x, None
    if how == 'to_array(dtype)':
        y = build(d)
        for dt in (float, bool, int):
            if dt is int and np.abs(da.astype(float)).max(initial=0) > 1e9: continue
            got = y.to_array(dtype=dt); ref = da.astype(dt)
            rec.check(got.dtype == ref.dtype and got.shape == ref.shape and np.array_equal(got, ref), 'construct', f'to_array(dtype={dt.__name__})/{k}', f'to_array(dtype={dt.__name__}) = {got.tolist()} ({got.dtype}) vs numpy astype {ref.tolist()} ({ref.dtype})')
            got2 = y.astype(dt)
            rec.check(got2.dtype == ref.dtype and np.array_equal(got2, ref), 'construct', f'astype({dt.__name__})/{k}', f'astype({dt.__name__}) = {got2.tolist()} vs numpy {ref.tolist()}')
        return y, None
    if how == 'flat(out)':
        y = build(d); out = np.full(da.size, 7.)
        r = y.to_flat_array(out)
        ok, why = same_values(out, da.ravel().astype(float))
        rec.check(r is out and ok, 'construct', f'to_flat_array(out)/{k}', f'to_flat_array(arr=out): returned {"out" if r is out else "another object"}; {why}')
        return y, None
    if how == 'asarray':
        y = build(d)
        for nm, got in (('asarray', np.asarray(y)), ('array(float)', np.array(y, dtype=float))):
            ok, why = same_values(got, da)
            rec.check(ok and got.dtype != object, 'construct', f'np.{nm}/{k}', f'np.{nm}(x): dtype {got.dtype}; {why}')
        return y, None
    if how == 'iter-len':
        y = build(d)
        items = [dense(i) if isinstance(i, SPARSE) else i for i in y]
        ok = len(y) == len(da) and len(items) == len(da) and all(same_values(a, b)[0] for a, b in zip(items, da))
        rec.check(ok, 'construct', f'iter-len/{k}', f'len = {len(y)}, list(x) = {[np.asarray(i).tolist() for i in items]} vs numpy len {len(da)}, {da.tolist()}')
        return y, None
    if how == 'casts':
        y = build(d)
        for fn in ((float, int, bool) if da.size else ()):          # (scalar casts of empty arrays differ between NumPy versions: not judged)
            try: ref = fn(da); rerr = None
            except Exception as e: rerr = e
            try: got = fn(y); serr = None
            except Exception as e: serr = e
            if rerr is not None:
                rec.check(serr is not None, 'reject', f'cast-accepted/{fn.__name__}/{k}', f'{fn.__name__}(x) of shape {da.shape} returned a value where NumPy raises {type(rerr).__name__}')
            elif serr is not None:
                if isinstance(serr, OverflowError) or not np.isfinite(float(da.ravel()[0])): continue
                rec.check(False, 'construct', f'cast-raised/{fn.__name__}/{k}', f'{fn.__name__}(x) raised {type(serr).__name__}: {serr} where NumPy returns {ref!r}')
            else:
                rec.check(got == ref and type(got) is type(ref), 'construct', f'cast/{fn.__name__}/{k}', f'{fn.__name__}(x) = {got!r} vs numpy {ref!r}')
        return y, None
    if how == 'attrs':
        y = build(d)
        good = y.shape == da.shape and y.size == da.size and y.ndim == da.ndim and ((y.dtype is bool) == (da.dtype == bool) if da.size else True) and y.vector_size == da.shape[-1]
        rec.check(good, 'construct', f'attrs/{k}', f'shape {y.shape}, size {y.size}, ndim {y.ndim}, dtype {y.dtype}, vector_size {y.vector_size} vs numpy {da.shape}, {da.size}, {da.ndim}, {da.dtype}')
        if isinstance(y, SA):
            ok, why = same_values(y.value, da)
            rec.check(ok, 'construct', 'value', f'.value: {why}')
        return y, None
    raise ValueError(how)


def run_method(case, rec):
    """public mutators / queries of the sparse classes with their NumPy meaning (added)."""
    f = case['f']; d = case['L']
    a = build(d); da = twin(d); k = d['k']
    rec.hit('method:' + f)
    tag = f'{f}/{k}'
    as_set = lambda idx: sorted(zip(*[[int(j) for j in i] for i in idx])) if idx is not None else None
    try:
        if f == 'mix_from':
            others = []; tw = []
            for o in case['others']:
                if o == 'self': others.append(a); tw.append(da.copy())
                else: others.append(build(o)); tw.append(twin(o))
            keep = [(o, t.copy()) for o, t in zip(others, tw) if o is not a]
            r = a.mix_from(others)
            ref = sum(tw) if tw else np.zeros(da.shape)
            scale = max([float(np.abs(t).max(initial=0)) for t in tw] + [0.0])
            got = dense(a)
            rec.check(r is None and got.shape == ref.shape and np.allclose(got, ref, rtol=1e-12, atol=1e-13 * scale * max(1, len(tw))), 'method', tag + (f'/self-x{case["others"].count("self")}' if 'self' in case['others'] else ''),
                      f'mix_from of {len(others)} vectors (self among them {case["others"].count("self")} times): {got.tolist()} vs numpy sum {np.asarray(ref).tolist()}')
            for o, t in keep:
                ok, why = same_values(dense(o), t)
                rec.check(ok, 'operand-unchanged', 'mix_from', f'mix_from changed one of the mixed vectors: {why}')
            ref_done = ref
        elif f == 'copy_like':
            b = build(case['R']); db = twin(case['R'])
            r = a.copy_like(b)
            ok, why = same_values(dense(a), db)
            rec.check(r is None and ok, 'method', tag, f'copy_like: {why}')
            if db.size:
                poke(a, db)
                ok2, why2 = same_values(dense(b), db)
                rec.check(ok2, 'operand-unchanged', 'copy_like', f'writing to the target after copy_like changed the source: {why2}')
            e = invariant(b); rec.check(e is None, 'invariant', 'copy_like-source', f'invariant of the source after copy_like: {e}')
            ref_done = None
        elif f == 'sum_of':
            ix = case['ix']; idx = ix if isinstance(ix, int) else (list(ix) if case.get('ixk') == 'list' else (tuple(ix) if case.get('ixk') == 'tuple' else np.array(ix)))
            if isinstance(a, SA):
                axis = case.get('axis') or 0                       # documented default: axis=0 (sum over the rows)
                got = a.sum_of(idx, axis) if case.get('axis') is not None else a.sum_of(idx)
                sub = da[:, ix].astype(float)
                ref = sub.sum(0) if axis == 0 else (sub.sum(1) if sub.ndim == 2 else sub)
            else:
                got = a.sum_of(idx); ref = da[ix].astype(float).sum()
            scale = float(np.abs(da.astype(float)).max(initial=0))
            got_ = np.asarray(got, float); ref = np.asarray(ref, float)
            rec.check(got_.shape == ref.shape and np.allclose(got_, ref, rtol=1e-12, atol=1e-13 * scale * max(1, da.size)), 'method', f'{tag}/{"int" if isinstance(ix, int) else case.get("ixk")}/axis={case.get("axis")}',
                      f'sum_of({ix}, axis={case.get("axis")}) = {got_.tolist()} vs numpy {ref.tolist()}')
            ref_done = da
        elif f == 'remove_negatives':
            r = a.remove_negatives(); ref_done = np.where(da < 0, 0, da) if da.dtype != bool else da
            rec.check(r is None, 'method', tag + '/returns', 'remove_negatives returned a value')
        elif f == 'clear':
            r = a.clear(); ref_done = np.zeros(da.shape)
            rec.check(r is None, 'method', tag + '/returns', 'clear returned a value')
        elif f == 'queries':
            neg = da < 0 if da.dtype != bool else np.zeros(da.shape, bool)
            pos = da > 0
            two = da.ndim == 2
            got = {'has_negatives': a.has_negatives(), 'negative_index': as_set(a.negative_index()), 'nonzero_index': as_set(a.nonzero_index()),
                   'negative_keys': a.negative_keys()}
            ref = {'has_negatives': bool(neg.any()), 'negative_index': sorted(zip(*[i.tolist() for i in np.nonzero(neg)])), 'nonzero_index': sorted(zip(*[i.tolist() for i in np.nonzero(da)])),
                   'negative_keys': {int(i) for i in np.nonzero(neg)[-1]}}
            if hasattr(a, 'positive_index'):
                got['positive_index'] = as_set(a.positive_index()); ref['positive_index'] = sorted(zip(*[i.tolist() for i in np.nonzero(pos)]))
            got['nonzero_keys'] = set(a.nonzero_keys()); ref['nonzero_keys'] = {int(i) for i in np.nonzero(da)[-1]}
            got['nonzero_values'] = sorted(float(v) for v in a.nonzero_values()); ref['nonzero_values'] = sorted(float(v) for v in da[da != 0])
            got['nonzero_items'] = {(tuple(i) if isinstance(i, tuple) else (i,)): float(v) for i, v in a.nonzero_items()}
            ref['nonzero_items'] = {tuple(int(j) for j in i): float(da[i]) for i in zip(*np.nonzero(da))}
            if two:
                got['negative_rows'] = sorted(a.negative_rows()); ref['negative_rows'] = [int(i) for i in np.nonzero(neg.any(1))[0]]
                got['nonzero_rows'] = sorted(a.nonzero_rows()); ref['nonzero_rows'] = [int(i) for i in np.nonzero((da != 0).any(1))[0]]
            for q in ref:
                rec.check(got[q] == ref[q], 'method', f'{q}/{k}', f'{q}() = {got[q]!r} but NumPy on the dense image gives {ref[q]!r}')
            ref_done = da
        elif f == 'sparse_equal':
            b = build(case['R']); db = twin(case['R'])
            got = a.sparse_equal(b); ref = bool(np.array_equal(da.astype(float), db.astype(float)))
            rec.check(bool(got) == ref and isinstance(got, (bool, np.bool_)), 'method', f'{tag}/{case["R"]["k"]}', f'sparse_equal = {got!r} but the dense images are {"equal" if ref else "different"}: {da.tolist()} vs {db.tolist()}')
            if isinstance(b, SPARSE + (np.ndarray,)):
                ok, why = same_values(dense(b), db); rec.check(ok, 'operand-unchanged', 'sparse_equal', f'sparse_equal changed its argument: {why}')
            ref_done = da
        elif f == 'shares':
            c = a.copy()
            facts = [a.shares_data_with(a) is True, a.shares_data_with(c) is False]
            if isinstance(a, SA) and a.rows:
                v = SA.from_rows([a.rows[-1]])
                facts += [a.shares_data_with(a.rows[0]) is True, a.rows[0].shares_data_with(a) is True, a.shares_data_with(v) is True, c.shares_data_with(v) is False, c.rows[0].shares_data_with(a) is False]
            rec.check(all(facts), 'method', tag, f'shares_data_with answers {facts} (all must be True)')
            ref_done = da
        elif f == 'sum_sparse_vectors':
            vs = [a] + [build(o) for o in case['others']]; tw = [da] + [twin(o) for o in case['others']]
            got = sp.sum_sparse_vectors(vs)
            ref = sum(t.astype(float) for t in tw)
            scale = max(float(np.abs(t.astype(float)).max(initial=0)) for t in tw)
            arr = np.zeros(da.shape)
            for i, v in got.items(): arr[i] = v
            rec.check(np.allclose(arr, ref, rtol=1e-12, atol=1e-13 * scale * len(tw)) and all(v != 0 for v in got.values()) and all(0 <= i < da.size for i in got), 'method', tag,
                      f'sum_sparse_vectors = {got} but numpy sum = {ref.tolist()}')
            for o, t in zip(vs, tw):
                ok, why = same_values(dense(o), t); rec.check(ok, 'operand-unchanged', 'sum_sparse_vectors', f'sum_sparse_vectors changed an operand: {why}')
            ref_done = da
        else:
            raise ValueError(f)
    except Corrupt:
        raise
    except Exception as e:
        rec.exception('method', e, what=f'{f} on {k} raised {type(e).__name__}: {str(e)[:150]}'); return
    if ref_done is not None and f != 'mix_from':
        ok, why = same_values(dense(a), ref_done)
        rec.check(ok, 'method' if f in ('remove_negatives', 'clear') else 'operand-unchanged', f'{tag}/content', f'{f}: content afterwards: {why}')
    e = invariant(a)
    rec.check(e is None, 'invariant', f'method/{f}', f'invariant after {f}: {e}')
    if nontrivial_image(da): rec.mark_nontrivial(case_hash(case))


# (container kind, index form) whose selection the library returns as a read-only dense ndarray (documented in sparse(): "indexing columns will return
# NumPy dense arrays"; measured on the unchanged library: exactly these forms, always ndarray + writeable False + ValueError 'output array is read-only' /
# 'assignment destination is read-only')
READONLY_DENSE_FORMS = {('sv', 'slice'), ('sa', '[:,int]'), ('sa', '[int,slice]'), ('sa', '[slice,int]'), ('sa', '[slice,slice]'), ('sa', '[:,slice]'),
                        ('sa', '[slice,:]'), ('sa', '[:,ilist]'), ('sa', '[ilist,slice]')}
GETMUT_JUDGED_FORMS = [('sa', 'int'), ('sa', ':'), ('sa', 'slice'), ('sa', '[int,:]'), ('sv', ':'),
                       ('sa', 'ilist'), ('sa', 'iarr'), ('sa', 'barr'), ('sa', 'barr2'), ('sa', '[ilist,ilist]'), ('sa', '[ilist,int]'),
                       ('sv', 'ilist'), ('sv', 'iarr'), ('sv', 'blist'), ('sv', 'barr')]


def run_getmut(case, rec):
    """get, then write in place to what was got: NumPy returns views for basic indexing and copies for fancy / boolean indexing (added)."""
    a = build(case['L']); da = twin(case['L'])
    si, ni = mk_index(case['ix'])
    try: sub_ref = da[ni]
    except Exception: rec.refuse('numpy index error'); return
    if not isinstance(sub_ref, np.ndarray) or sub_ref.size == 0: rec.refuse('selection is a scalar or empty (nothing to write to)'); return
    try: sub = a[si]
    except Exception as e:
        rec.exception('getitem', e, what=f'getitem {case["ix"]} on {case["L"]["k"]} raised but NumPy returns'); return
    o = case['o']; c = case['c']
    try:
        if o == 'imul': sub_ref *= c
        elif o == 'iadd': sub_ref += c
        else: sub_ref[...] = c
    except Exception: rec.refuse('numpy rejects the write'); return
    k = case['L']['k']; form = ix_tag(case['ix'])
    try:
        if o == 'imul': sub *= c
        elif o == 'iadd': sub += c
        else: sub[:] = c
    except Exception as e:
        # documented: selections that cut through the columns (and slices of a vector) are read-only dense copies.  The refusal is granted only for
        # the exact conjunction index form x ndarray x not writeable x NumPy's own ValueError; anything else is reported.
        if (k, form) in READONLY_DENSE_FORMS and type(sub) is np.ndarray and not sub.flags.writeable and type(e) is ValueError and 'read-only' in str(e):
            rec.refuse(f'selection {k}{form} is a documented read-only dense copy: write not judged'); rec.hit(f'getmut:readonly-dense/{k}/{form}')
            okr, whyr = same_values(dense(a), twin(case['L']))
            rec.check(okr, 'operand-unchanged', f'getmut-refused-write/{k}/{form}', f'a refused write to the read-only selection changed the source: {whyr}')
            return
        if isinstance(sub, SPARSE):
            rec.exception('inplace', e, what=f'b = a[{case["ix"]}] is a {type(sub).__name__}; b {o} {c} raised {type(e).__name__}: {e} but NumPy writes to the selection')
        else:
            rec.check(False, 'inplace', f'selection-not-writable/{k}/{form}/{type(sub).__name__}/{type(e).__name__}',
                      f'b = a[{case["ix"]}] is a {type(sub).__name__} (writeable: {getattr(getattr(sub, "flags", None), "writeable", None)}); b {o} {c} raised '
                      f'{type(e).__name__}: {e}; NumPy returns a writable {"view" if np.shares_memory(sub_ref, da) else "copy"} for this index form')
        return
    rec.hit('getmut'); rec.hit(f'getmut:judged/{k}/{form}')
    kind = 'view' if np.shares_memory(sub_ref, da) else 'copy'
    rec.hit('getmut:numpy-' + kind)
    ok, why = same_values(dense(sub), sub_ref)
    rec.check(ok, 'inplace', f'value/get-{ix_tag(case["ix"])}-then-write', f'in-place {o} on the result of getitem {case["ix"]}: {why}')
    ok2, why2 = same_values(dense(a), da)
    rec.check(ok2, 'inplace', f'only-target/get-{ix_tag(case["ix"])}-then-write/numpy-{kind}',
              f'b = a[{case["ix"]}]; b {o} {c}: NumPy treats b as a {kind} of a, so a must be {da.tolist()} afterwards, but the sparse array is {dense(a).tolist()}')
    e = invariant(a) or (invariant(sub) if isinstance(sub, SPARSE) else None)
    rec.check(e is None, 'invariant', 'getmut', f'invariant after get-then-write: {e}')
    if nontrivial_image(da): rec.mark_nontrivial(case_hash(case))


def run_reject(case, rec):
    """operations of the rejection domain R must raise (ValueError / IndexError) and leave every operand as it was."""
    kind = case['kind']
    tag = case['tag']
    a = build(case['L']); da = twin(case['L'])       # (the expectation is the description itself, never to_array() of the object under test)
    b = db = res = None
    if kind == 'op':
        b = build(case['R']); db = twin(case['R'])
        fn = TABLES[case['fam']][case['o']]; what = case['o']
        call = lambda: fn(a, b)
    elif kind == 'readonly':
        a.setflags(0)
        what = case['o']
        if what in ('setitem', 'setitem-slice', 'setitem-fancy', 'setitem-mask') or what in INP or what == 'row-view-iadd': b = build(case['R'])
        def call():
            if what == 'clear': a.clear()
            elif what in ('setitem', 'setitem-slice', 'setitem-fancy'): a[mk_index(case['ix'])[0]] = b
            elif what == 'setitem-mask': a[np.array(case['mask'])] = b
            elif what == 'copy_like': a.copy_like(build({'k': case['L']['k'], 'v': (np.array(case['L']['v']) + 1.).tolist()}))
            elif what == 'mix_from': a.mix_from([build({'k': 'sv', 'v': [1.] * len(case['L']['v'])})])
            elif what == 'remove_negatives': a.remove_negatives()
            elif what == 'from_flat_array': a.from_flat_array(np.ones(int(np.size(da))))
            elif what == 'row-view-iadd':
                row = a[0]; row += b
            else: TABLES['inp'][what](a, b)
    else:
        raise ValueError(kind)
    # only the operation itself sits inside the try: an exception of the harness's own reporting code can no longer pass for a rejection
    try:
        res = call(); err = None
    except Exception as e:
        err = e
    if err is None:
        if kind == 'op':
            rec.check(False, 'reject', f'accepted/{tag}',
                      f'{what}({case["L"]["k"]}{list(np.shape(da))},{case["R"]["k"]}{list(np.shape(db))}) shape mismatch accepted; '
                      f'result shape {np.shape(dense(res))}')
        else:
            changed = not np.array_equal(dense(a), da)
            rec.check(False, 'reject', f'readonly-accepted/{tag}',
                      f'{what} on a read-only {case["L"]["k"]} did not raise (content changed: {changed})')
        return
    # a rejection is a deliberate ValueError / IndexError (NumPy: ValueError) raised BEFORE anything is written.  Another type (RuntimeError
    # 'dictionary changed size', KeyError, ...) is a guard that fired too late or not at all; in every case the operands must be as before.
    rec.mark_nontrivial(case_hash(case))
    if isinstance(err, (ValueError, IndexError)): rec.ok('reject')
    else:
        rec.check(False, 'reject', f'wrong-type/{tag}/{type(err).__name__}',
                  f'{kind} rejection case {tag} died with {type(err).__name__}: {str(err)[:150]} instead of a ValueError / IndexError rejection')
    rec.hit(f'reject:state-checked/{kind}')
    okv, why = same_values(dense(a), da)
    if kind == 'readonly':
        rec.check(okv, 'reject', f'readonly-partial-write/{tag}', f'read-only rejection left the content changed: {why}')
    else:
        rec.check(okv, 'reject', f'partial-write/{tag}', f'rejected {what} (shape mismatch) left the left operand changed: {why}')
        if isinstance(b, SPARSE + (np.ndarray, list)):
            okb, whyb = same_values(dense(b), db)
            rec.check(okb, 'operand-unchanged', f'rejected-right/{tag}', f'rejected {what} changed its right operand: {whyb}')
    e2 = invariant(a) or (invariant(b) if isinstance(b, SPARSE) else None)
    rec.check(e2 is None, 'invariant', f'rejected/{tag}', f'invariant after a rejected operation: {e2}')

# ---------------------------------------------------------------------------
# histories

def run_history(case, rec):
    """pool of objects with NumPy twins updated in lock-step and compared after every step."""
    pool = []; twins = []
    for d in case['pool']:
        pool.append(build(d)); twins.append(twin(d))
    nt = False
    for n, st in enumerate(case['steps']):
        t = st['t']
        try:
            if t == 'bin':   # pool[k] = pool[i] op pool[j]|const
                fn = BIN[st['o']]
                b = pool[st['j']] if 'j' in st else build(st['R']); db = twins[st['j']] if 'j' in st else twin(st['R'])
                if isinstance(pool[st['i']], SLV) or (isinstance(b, SLV) and st['o'] in ('add', 'sub', 'mul', 'truediv')) \
                        or twins[st['i']].dtype == bool: rec.refuse('history step skipped: logical operand in arithmetic'); continue
                try:
                    with np.errstate(all='ignore'): ref = fn(twins[st['i']], db)
                except Exception: rec.refuse('history step skipped: numpy rejects'); continue
                if not np.all(np.isfinite(np.asarray(ref, dtype=float))): rec.refuse('history step skipped: non-finite'); continue
                if np.asarray(ref).dtype == bool and st['o'] in ('add', 'sub', 'mul', 'truediv'): rec.refuse('history step skipped: bool arithmetic'); continue
                res = fn(pool[st['i']], b)
                pool[st['k']] = res; twins[st['k']] = np.array(ref)
            elif t == 'inp':
                fn = INP[st['o']]
                b = pool[st['j']] if 'j' in st else build(st['R']); db = twins[st['j']] if 'j' in st else twin(st['R'])
                tw = twins[st['i']]
                if tw.dtype == bool or isinstance(pool[st['i']], SLV) or np.asarray(db).dtype == bool: rec.refuse('history step skipped: in-place arithmetic on/with logical'); continue
                try:
                    with np.errstate(all='ignore'): ref = fn(tw.copy(), db.copy() if isinstance(db, np.ndarray) else db)
                except Exception: rec.refuse('history step skipped: numpy rejects'); continue
                if ref.shape != tw.shape or not np.all(np.isfinite(ref)): rec.refuse('history step skipped: growth/non-finite'); continue
                if isinstance(db, np.ndarray) and np.shares_memory(db, tw) and b is not pool[st['i']]:
                    rec.refuse('history step skipped: operand is a view of the target (only a op= a is in D)'); continue
                with np.errstate(all='ignore'): fn(tw, db.copy() if (isinstance(db, np.ndarray) and np.shares_memory(db, tw)) else db)
                r = fn(pool[st['i']], b)
                if r is not pool[st['i']]:
                    rec.check(False, 'history', f'inplace-identity/{st["o"]}', 'in-place operator returned another object'); return
            elif t == 'set':
                si, ni = mk_index(st['ix'])
                v = pool[st['j']] if 'j' in st else build(st['R']); dv = twins[st['j']] if 'j' in st else twin(st['R'])
                tw = twins[st['i']]
                if tw.dtype == bool and np.asarray(dv).dtype != bool: rec.refuse('history step skipped: float into logical'); continue
                if not index_in_range(st['ix'], tw.shape): rec.refuse('history step skipped: index outside current shape'); continue
                if isinstance(dv, np.ndarray) and np.shares_memory(dv, tw) and not (v is pool[st['i']] and st['ix'] == {'t': 'slice'}):
                    rec.refuse('history step skipped: value overlaps target (only a[:] = a is in D)'); continue
                trial = tw.copy()
                try: trial[ni] = dv
                except Exception: rec.refuse('history step skipped: numpy rejects'); continue
                before = tw.copy()
                tw[ni] = dv.copy() if isinstance(dv, np.ndarray) else dv
                try:
                    pool[st['i']][si] = v
                except IndexError as e:
                    if not documented_set_refusal(kind_of(pool[st['i']]), st['ix'], dv, e): raise
                    # whitelisted unsupported form (seen from the inputs): the step did not take place.  The twin is put back and the history goes on,
                    # so the comparison below also says whether the refused call left the target as it was
                    tw[...] = before
                    rec.refuse('history step refused: documented unsupported assignment sa[rowslice, :] = <2-d value> (twin put back, history continues)')
                    rec.hit('refusal:history-set/[slice,:]/2d-rows>1')
                    okr, whyr = same_values(dense(pool[st['i']]), tw)
                    if not okr:
                        rec.check(False, 'history', f'refused-set-partial-write/{kind_of(pool[st["i"]])}/{ix_tag(st["ix"])}',
                                  f'after step {n} {st}: the assignment was refused ({type(e).__name__}: {e}) but the target was modified before the raise: {whyr}'); return
            elif t == 'row':  # pool[k] = view of row r of array pool[i]
                if not isinstance(pool[st['i']], SA) or st['r'] >= len(pool[st['i']].rows): rec.refuse('history step skipped: no such row'); continue
                row = pool[st['i']][st['r']]
                if not isinstance(row, (SV, SLV)):       # (documented: indexing rows returns the sparse row; a dense copy would silently stop being a view)
                    rec.check(False, 'history', f'get-not-sparse/{kind_of(pool[st["i"]])}/int', f'after step {n} {st}: row {st["r"]} of a SparseArray came back as {type(row).__name__} instead of the sparse row view'); return
                pool[st['k']] = row; twins[st['k']] = twins[st['i']][st['r']]
            elif t == 'copy':
                pool[st['k']] = pool[st['i']].copy(); twins[st['k']] = twins[st['i']].copy()
            elif t == 'neg':
                if twins[st['i']].dtype == bool: rec.refuse('history step skipped: neg of logical'); continue
                pool[st['k']] = -pool[st['i']]; twins[st['k']] = -twins[st['i']]
            # ---- added step kinds -------------------------------------------------------------------------------------
            elif t in ('log', 'ilog'):
                b = pool[st['j']] if 'j' in st else build(st['R']); db = twins[st['j']] if 'j' in st else twin(st['R'])
                tw = twins[st['i']]
                if tw.dtype != bool or np.asarray(db).dtype != bool: rec.refuse('history step skipped: logical operator needs logical operands'); continue
                if t == 'log':
                    try: ref = LOG[st['o']](tw, db)
                    except Exception: rec.refuse('history step skipped: numpy rejects'); continue
                    res = LOG[st['o']](pool[st['i']], b)
                    pool[st['k']] = res; twins[st['k']] = np.array(ref)
                else:
                    try: ref = LOG[st['o'][1:]](tw, db)
                    except Exception: rec.refuse('history step skipped: numpy rejects'); continue
                    if ref.shape != tw.shape: rec.refuse('history step skipped: growth/non-finite'); continue
                    if isinstance(db, np.ndarray) and np.shares_memory(db, tw) and b is not pool[st['i']]:
                        rec.refuse('history step skipped: operand is a view of the target (only a op= a is in D)'); continue
                    tw[...] = ref
                    r = ILOG[st['o']](pool[st['i']], b)
                    if r is not pool[st['i']]:
                        rec.check(False, 'history', f'inplace-identity/{st["o"]}', 'in-place operator returned another object'); return
                rec.hit('history:' + t)
            elif t == 'abs':
                pool[st['k']] = abs(pool[st['i']]); twins[st['k']] = np.abs(twins[st['i']]); rec.hit('history:abs')
            elif t == 'inv':
                if twins[st['i']].dtype != bool: rec.refuse('history step skipped: invert of a float object'); continue
                pool[st['k']] = ~pool[st['i']]; twins[st['k']] = ~twins[st['i']]; rec.hit('history:inv')
            elif t == 'ref':
                tw = twins[st['i']]
                if tw.dtype == bool: rec.refuse('history step skipped: logical operand in arithmetic'); continue
                c = build(st['R']); dc = twin(st['R'])
                try:
                    with np.errstate(all='ignore'): ref = REF[st['o']](tw, dc)
                except Exception: rec.refuse('history step skipped: numpy rejects'); continue
                if not np.all(np.isfinite(np.asarray(ref, dtype=float))): rec.refuse('history step skipped: non-finite'); continue
                res = REF[st['o']](pool[st['i']], c)
                if not isinstance(res, SPARSE): res = sp.sparse(np.asarray(res))       # a dense left operand may keep the result dense: values are what is compared
                pool[st['k']] = res; twins[st['k']] = np.array(ref); rec.hit('history:ref')
            elif t == 'red':
                tw = twins[st['i']]
                kw = {}
                if st.get('axis') is not None:
                    if st['axis'] >= tw.ndim: rec.refuse('history step skipped: no such axis'); continue
                    kw['axis'] = st['axis']
                if st.get('keepdims'): kw['keepdims'] = True
                try:
                    with np.errstate(all='ignore'): ref = np.asarray(getattr(tw, st['f'])(**kw), float)
                except Exception: rec.refuse('history step skipped: numpy rejects'); continue
                got = np.asarray(dense(getattr(pool[st['i']], st['f'])(**kw)), float)
                scale = float(np.abs(tw.astype(float)).max(initial=0))
                if not (got.shape == ref.shape and np.allclose(got, ref, rtol=1e-12, atol=1e-13 * scale * max(1, tw.size))):
                    rec.check(False, 'history', f'reduce/{st["f"]}', f'after step {n} {st}: {st["f"]}({kw}) = {got.tolist()} vs numpy {ref.tolist()}'); return
                rec.hit('history:red')
            elif t == 'clear':
                if isinstance(pool[st['i']], SLV): rec.refuse('history step skipped: logical vectors offer no clear()'); continue
                pool[st['i']].clear(); twins[st['i']][...] = 0; rec.hit('history:clear')
            elif t == 'get':
                # basic indexing only (a row, a slice of rows, the whole object): views in NumPy and shared rows in the library
                si, ni = mk_index(st['ix'])
                tw = twins[st['i']]
                if not index_in_range(st['ix'], tw.shape[:1]): rec.refuse('history step skipped: index outside current shape'); continue
                ref = tw[ni]
                if not isinstance(ref, np.ndarray) or ref.size == 0: rec.refuse('history step skipped: empty / scalar selection'); continue
                res = pool[st['i']][si]
                if not isinstance(res, SPARSE):
                    # documented dense (read-only) copy only for a non-open slice of a VECTOR; a row, a row slice or ':' of an array and ':' of a vector
                    # are sparse views (shared rows / the object itself)
                    if isinstance(pool[st['i']], (SV, SLV)) and ix_tag(st['ix']) == 'slice' and type(res) is np.ndarray and not res.flags.writeable:
                        rec.refuse('history step skipped: slice of a vector is a dense read-only copy'); continue
                    rec.check(False, 'history', f'get-not-sparse/{kind_of(pool[st["i"]])}/{ix_tag(st["ix"])}',
                              f'after step {n} {st}: basic indexing {st["ix"]} of a {type(pool[st["i"]]).__name__} returned a {type(res).__name__} instead of a sparse view'); return
                pool[st['k']] = res; twins[st['k']] = ref; rec.hit('history:get')
            else:
                raise ValueError(t)
        except Corrupt:
            raise
        except Exception as e:
            # (every step is executed only after NumPy produced a finite result for it, so a ZeroDivisionError is a defect like any other raise;
            #  the only whitelisted refusal is handled inside the 'set' step)
            rec.exception('history', e, what=f'history step {n} {st} raised: {type(e).__name__}: {e}'); return
        for idx, (p, tw) in enumerate(zip(pool, twins)):
            dp = dense(p)
            okv, why = same_values(dp, tw)
            if not okv:
                rec.check(False, 'history', f'value/after-{t}/{st.get("o", "")}', f'after step {n} {st}: object {idx}: {why}'); return
            if (dp.dtype == bool) != (tw.dtype == bool):
                rec.check(False, 'history', f'dtype-kind/after-{t}/{st.get("o", "")}', f'after step {n} {st}: object {idx} is {dp.dtype} but NumPy gives {tw.dtype}'); return
            e = invariant(p)
            if e:
                rec.check(False, 'invariant', f'history/after-{t}/{st.get("o", "")}', f'after step {n} {st}: object {idx}: {e}'); return
            if nontrivial_image(tw): nt = True
        rec.ok('history')
    rec.ok('invariant')
    if nt: rec.mark_nontrivial(case_hash(case))


RUNNERS = {'op': run_op, 'get': run_get, 'set': run_set, 'red': run_reduce, 'con': run_construct, 'rej': run_reject, 'hist': run_history, 'meth': run_method, 'gm': run_getmut}


def run_case(case, rec):
    rec.begin_case(case)
    try:
        RUNNERS[case['t']](case, rec)
    except Corrupt as e:
        rec.violation(f'C09/invariant/corrupt/{case["t"]}/{case.get("o", ix_tag(case["ix"]) if "ix" in case else "")}',
                      f'object left in a state that cannot be converted to dense: {e}')
    except Exception as e:   # harness error: never silently dropped
        rec.exception('harness', e, what=f'harness/unclassified error in case type {case["t"]}')


def replay(case, rec):
    run_case(case, rec)

# ---------------------------------------------------------------------------
# generators

def values(rng, big=True):
    a = rng.choice([0.25, 3., 7.5])
    v = [0., 0., 0., 1., -1., 2., 0.5, -0.5, a, -a, 1 / 3]
    if big: v += [1e-100, 1e100, -1e100]
    return v


def fv(rng, n, vals): return [rng.choice(vals) for _ in range(n)]
def bv(rng, n): return [rng.random() < 0.5 for _ in range(n)]


def gen_left(rng, m, n, vals):
    k = rng.choice(['sv', 'sv', 'slv', 'sa', 'sa', 'sab'])
    if k == 'sv': return {'k': k, 'v': fv(rng, n, vals)}
    if k == 'slv': return {'k': k, 'v': bv(rng, n)}
    if k == 'sa': return {'k': k, 'v': [fv(rng, n, vals) for _ in range(m)]}
    return {'k': k, 'v': [bv(rng, n) for _ in range(m)]}


def gen_right(rng, lk, m, n, vals, two_d=False):
    ks = ['scalar', 'bscalar', 'npscalar', 'arr0', 'list', 'arr1', 'barr1', 'sv', 'slv', 'list1', 'arr1_1', 'sv1', 'slv1', 'iscalar']
    if lk in ('sa', 'sab'): ks += ['arr2', 'barr2', 'sa', 'sab', 'sa1n', 'list2', 'arr2', 'sa']
    k = rng.choice(ks)
    # added kinds: Python bool list, integer ndarray, NumPy integer / bool scalars; 2-d right operands for a 1-d left operand
    r = rng.random()
    if r < 0.08: k = rng.choice(['blist', 'iarr1', 'npint', 'npbool'])
    elif two_d and lk in ('sv', 'slv') and r < 0.2:
        k = rng.choice(['arr2', 'list2', 'sa', 'sab', 'barr2', 'sa1n'])
        # (a dense 2-d operand with a single row is reduced to 1-d by the library's documented reduce_ndim: result shape (n,) where
        #  NumPy gives (1, n); a library-specific dimension reduction outside the decided domain, so dense 2-d operands get >= 2 rows here)
        if k in ('arr2', 'list2', 'barr2'): m = max(m, 2)
    if k == 'blist': return {'k': k, 'v': bv(rng, n)}
    if k == 'iarr1': return {'k': k, 'v': [rng.choice([0, 0, 1, 2, -1, 3]) for _ in range(n)]}
    if k == 'npint': return {'k': k, 'v': rng.choice([0, 1, 2, -1])}
    if k == 'npbool': return {'k': k, 'v': rng.random() < .5}
    if k == 'scalar': return {'k': k, 'v': rng.choice(vals)}
    if k == 'iscalar': return {'k': k, 'v': rng.choice([0, 1, 2, -1])}
    if k == 'bscalar': return {'k': k, 'v': rng.random() < .5}
    if k == 'npscalar': return {'k': k, 'v': rng.choice(vals)}
    if k == 'arr0': return {'k': k, 'v': rng.choice(vals)}
    if k == 'list': return {'k': k, 'v': fv(rng, n, vals)}
    if k == 'arr1': return {'k': k, 'v': fv(rng, n, vals)}
    if k == 'barr1': return {'k': k, 'v': bv(rng, n)}
    if k == 'sv': return {'k': k, 'v': fv(rng, n, vals)}
    if k == 'slv': return {'k': k, 'v': bv(rng, n)}
    if k == 'list1': return {'k': 'list', 'v': fv(rng, 1, vals)}
    if k == 'arr1_1': return {'k': 'arr1', 'v': fv(rng, 1, vals)}
    if k == 'sv1': return {'k': 'sv', 'v': fv(rng, 1, vals)}
    if k == 'slv1': return {'k': 'slv', 'v': bv(rng, 1)}
    if k == 'arr2': return {'k': k, 'v': [fv(rng, n, vals) for _ in range(m)]}
    if k == 'list2': return {'k': k, 'v': [fv(rng, n, vals) for _ in range(m)]}
    if k == 'barr2': return {'k': k, 'v': [bv(rng, n) for _ in range(m)]}
    if k == 'sa': return {'k': k, 'v': [fv(rng, n, vals) for _ in range(m)]}
    if k == 'sab': return {'k': k, 'v': [bv(rng, n) for _ in range(m)]}
    if k == 'sa1n': return {'k': 'sa', 'v': [fv(rng, n, vals)]}


def is_sparse_kind(k): return k in ('sv', 'slv', 'sa', 'sab')


def gen_op(rng):
    vals = values(rng)
    m = rng.choice([1, 2, 3]); n = rng.choice([1, 2, 3, 4, 6])
    L = gen_left(rng, m, n, vals); lk = L['k']
    logical = lk in ('slv', 'sab')
    if rng.random() < 0.06:
        o = rng.choice(['neg', 'abs'] if not logical else ['invert', 'abs'])
        return {'t': 'op', 'fam': 'un', 'o': o, 'L': L}
    fam = rng.choice(['bin', 'bin', 'inp', 'ref', 'log'] if not logical else ['bin', 'log', 'ilog', 'inp'])
    o = rng.choice(list(TABLES[fam]))
    if rng.random() < 0.05 and fam != 'ref':
        if logical and fam in ('bin', 'inp') and o in ('add', 'sub', 'mul', 'truediv', 'iadd', 'isub', 'imul', 'itruediv'):
            return None
        if not logical and fam in ('log', 'ilog'): return None
        return {'t': 'op', 'fam': fam, 'o': o, 'L': L, 'R': 'same'}
    R = gen_right(rng, lk, m, n, vals, two_d=fam in ('bin', 'log')); rk = R['k']
    Lform = None
    if fam in ('bin', 'log') and rng.random() < 0.1:
        # added: the length-1 / single-row operand on the LEFT (broadcast against a longer right operand)
        if lk in ('sv', 'slv') and n > 1: L = {'k': lk, 'v': L['v'][:1]}; Lform = '(1)'
        elif lk in ('sa', 'sab') and m > 1: L = {'k': lk, 'v': L['v'][:1]}; Lform = '(1xn)'
    if fam == 'ref' and is_sparse_kind(rk): return None
    if fam in ('log', 'ilog'):
        if not logical or rk not in BOOLK: return None
    if logical and fam == 'inp' and rk not in BOOLK: return None
    if logical and o in ('sub', 'isub'): return None
    if fam in ('inp', 'ilog'):
        # target must absorb the broadcast
        sa_ = np.shape(twin(L)); sb_ = np.shape(twin(R))
        try:
            if np.broadcast_shapes(sa_, sb_) != sa_: return None
        except ValueError:
            return None
    else:
        try: np.broadcast_shapes(np.shape(twin(L)), np.shape(twin(R)))
        except ValueError: return None
    # D: an array against an array needs equal row counts or a single row on one side
    case = {'t': 'op', 'fam': fam, 'o': o, 'L': L, 'R': R}
    if Lform: case['Lform'] = Lform
    return case


def gen_index(rng, shape):
    if len(shape) == 1:
        n = shape[0]
        t = rng.choice(['int', 'slice', 'slice', 'ilist', 'iarr', 'blist', 'barr', 'all'])
        if t == 'int': return {'t': 'int', 'i': rng.randrange(n)}
        if t == 'all': return {'t': 'slice'}
        if t == 'slice':
            a = rng.choice([None, 0, rng.randrange(n + 1)]); b = rng.choice([None, n, rng.randrange(n + 1)]); c = rng.choice([None, 1, 2])
            return {'t': 'slice', 'a': a, 'b': b, 'c': c}
        if t in ('ilist', 'iarr'):
            k = rng.randrange(1, n + 1)
            v = rng.sample(range(n), k) if rng.random() < 0.7 else [rng.randrange(n) for _ in range(k)]
            return {'t': t, 'v': v}
        return {'t': t, 'v': bv(rng, n)}
    m, n = shape
    t = rng.choice(['row', 'rowslice', 'rows', 'brows', 'ij', ':j', 'i:', 'pairs', 'rows_j', ':cols', 'mask2', 'rslice_cslice', 'i_cslice', 'rows_cslice', 'all', 'rslice_j'])
    def sl(k):
        return {'t': 'slice', 'a': rng.choice([None, 0, rng.randrange(k + 1)]), 'b': rng.choice([None, k, rng.randrange(k + 1)]), 'c': rng.choice([None, 1, 2])}
    if t == 'row': return {'t': 'int', 'i': rng.randrange(m)}
    if t == 'all': return {'t': 'slice'}
    if t == 'rowslice': return sl(m)
    if t == 'rows': return {'t': rng.choice(['ilist', 'iarr']), 'v': [rng.randrange(m) for _ in range(rng.randrange(1, m + 1))]}
    if t == 'brows': return {'t': 'barr', 'v': bv(rng, m)}
    if t == 'ij': return {'t': 'tuple', 'v': [{'t': 'int', 'i': rng.randrange(m)}, {'t': 'int', 'i': rng.randrange(n)}]}
    if t == ':j': return {'t': 'tuple', 'v': [{'t': 'slice'}, {'t': 'int', 'i': rng.randrange(n)}]}
    if t == 'i:': return {'t': 'tuple', 'v': [{'t': 'int', 'i': rng.randrange(m)}, {'t': 'slice'}]}
    if t == 'pairs':
        k = rng.randrange(1, 4)
        return {'t': 'tuple', 'v': [{'t': 'ilist', 'v': [rng.randrange(m) for _ in range(k)]}, {'t': 'ilist', 'v': [rng.randrange(n) for _ in range(k)]}]}
    if t == 'rows_j': return {'t': 'tuple', 'v': [{'t': 'ilist', 'v': [rng.randrange(m) for _ in range(rng.randrange(1, 3))]}, {'t': 'int', 'i': rng.randrange(n)}]}
    if t == ':cols': return {'t': 'tuple', 'v': [{'t': 'slice'}, {'t': 'ilist', 'v': rng.sample(range(n), rng.randrange(1, n + 1))}]}
    if t == 'mask2': return {'t': 'barr2', 'v': [bv(rng, n) for _ in range(m)]}
    if t == 'rslice_cslice': return {'t': 'tuple', 'v': [sl(m), sl(n)]}
    if t == 'i_cslice': return {'t': 'tuple', 'v': [{'t': 'int', 'i': rng.randrange(m)}, sl(n)]}
    if t == 'rows_cslice': return {'t': 'tuple', 'v': [{'t': 'ilist', 'v': [rng.randrange(m) for _ in range(rng.randrange(1, 3))]}, sl(n)]}
    if t == 'rslice_j': return {'t': 'tuple', 'v': [sl(m), {'t': 'int', 'i': rng.randrange(n)}]}


def gen_get(rng):
    vals = values(rng)
    m = rng.choice([1, 2, 3]); n = rng.choice([1, 2, 3, 4, 6])
    L = gen_left(rng, m, n, vals)
    shape = np.shape(twin(L))
    return {'t': 'get', 'L': L, 'ix': gen_index(rng, shape)}


def gen_set(rng):
    vals = values(rng)
    m = rng.choice([1, 2, 3]); n = rng.choice([1, 2, 3, 4, 6])
    L = gen_left(rng, m, n, vals)
    tw = twin(L); shape = tw.shape
    ix = gen_index(rng, shape)
    try: target = tw[mk_index(ix)[1]]
    except Exception: return None
    tshape = np.shape(target)
    logical = L['k'] in ('slv', 'sab')
    r = rng.random()
    if r < 0.05:
        return {'t': 'set', 'L': L, 'ix': {'t': 'slice'}, 'V': 'same'}   # a[:] = a (the only aliased assignment in D)
    def val(shape_, kind=None):
        if len(shape_) == 0:
            if logical: return {'k': 'bscalar', 'v': rng.random() < .5}
            return {'k': rng.choice(['scalar', 'npscalar', 'arr0', 'iscalar']), 'v': rng.choice(vals + [0, 0]) if True else 0}
        if len(shape_) == 1:
            n_ = shape_[0]
            if logical: return {'k': rng.choice(['barr1', 'slv', 'blist']), 'v': bv(rng, n_)}
            return {'k': rng.choice(['list', 'arr1', 'sv']), 'v': fv(rng, n_, vals)}
        m_, n_ = shape_
        if logical: return {'k': rng.choice(['barr2', 'sab']), 'v': [bv(rng, n_) for _ in range(m_)]}
        return {'k': rng.choice(['list2', 'arr2', 'sa']), 'v': [fv(rng, n_, vals) for _ in range(m_)]}
    if len(tshape) and 0 in tshape: return None
    if r < 0.45 or len(tshape) == 0:
        V = val(())
        if V['k'] == 'iscalar': V['v'] = rng.choice([0, 1, 2, -1])
    elif r < 0.85:
        V = val(tshape)
    else:
        # broadcast a row over several selected rows
        if len(tshape) == 2: V = val((tshape[1],))
        else: V = val(tshape)
    return {'t': 'set', 'L': L, 'ix': ix, 'V': V}


def empty_left(rng, L):
    """an empty operand of the same kind: a size-0 vector or an array with rows of size 0."""
    if L['k'] in ('sv', 'slv'): return {'k': L['k'], 'v': []}
    return {'k': L['k'], 'v': [[] for _ in L['v']]}


def gen_reduce(rng):
    vals = values(rng, big=False)
    m = rng.choice([1, 2, 3]); n = rng.choice([1, 2, 3, 4, 6])
    L = gen_left(rng, m, n, vals)
    two = L['k'] in ('sa', 'sab')
    if rng.random() < 0.03: L = empty_left(rng, L)         # added: empty operands
    case = {'t': 'red', 'L': L, 'f': rng.choice(['any', 'all', 'sum', 'mean', 'max', 'min']),
            'axis': rng.choice([None, 0, 1]) if two else rng.choice([None, None, 0]), 'keepdims': rng.random() < 0.4}
    if rng.random() < 0.06: case['axis'] = rng.choice([-1, -2]) if two else -1          # added: negative axis (NumPy counts from the end)
    return case


def gen_construct(rng):
    vals = values(rng)
    m = rng.choice([1, 2, 3]); n = rng.choice([1, 2, 3, 4, 6])
    L = gen_left(rng, m, n, vals)
    hows = ['sparse()', 'sparse(ndarray)', 'copy', 'tolist', 'flat', 'sparse(sparse)', 'nonzero']
    if L['k'] in ('sv', 'sa'): hows.append('dict')
    if L['k'] == 'slv': hows.append('set')
    if rng.random() < 0.03: L = empty_left(rng, L)         # added: empty operands
    if rng.random() < 0.5: return {'t': 'con', 'how': rng.choice(NEW_HOWS), 'L': L}        # added forms
    return {'t': 'con', 'how': rng.choice(hows), 'L': L}


def gen_method(rng):
    vals = values(rng, big=rng.random() < 0.3)
    m = rng.choice([1, 2, 3]); n = rng.choice([1, 2, 3, 4, 6])
    f = rng.choice(['mix_from', 'mix_from', 'copy_like', 'sum_of', 'sum_of', 'remove_negatives', 'clear', 'queries', 'queries', 'sparse_equal', 'shares', 'sum_sparse_vectors'])
    L = gen_left(rng, m, n, vals); k = L['k']
    same_kind = lambda: {'k': k, 'v': ([fv(rng, n, vals) for _ in range(m)] if k == 'sa' else [bv(rng, n) for _ in range(m)] if k == 'sab' else fv(rng, n, vals) if k == 'sv' else bv(rng, n))}
    case = {'t': 'meth', 'f': f, 'L': L}
    if f == 'mix_from':
        L = case['L'] = {'k': 'sv', 'v': fv(rng, n, vals)}
        others = [{'k': 'sv', 'v': fv(rng, n, vals)} for _ in range(rng.randrange(0, 4))]
        for _ in range(rng.choice([0, 0, 1, 2])): others.insert(rng.randrange(len(others) + 1), 'self')
        if rng.random() < 0.2 and others and others[0] != 'self':     # exact cancellation between the mixed vectors
            others.append({'k': 'sv', 'v': [-v for v in others[0]['v']]})
        case['others'] = others
    elif f in ('copy_like', 'shares'):
        # (logical vectors do not offer copy_like / shares_data_with: not an offered operation)
        if k == 'slv': L = case['L'] = {'k': 'sv', 'v': fv(rng, n, vals)}; k = 'sv'
        if k == 'sab': L = case['L'] = {'k': 'sa', 'v': [fv(rng, n, vals) for _ in range(m)]}; k = 'sa'
        if f == 'shares': return case
        case['R'] = same_kind() if rng.random() < 0.9 else L
    elif f == 'sum_of':
        kk = rng.randrange(1, n + 1)
        if rng.random() < 0.3: case['ix'] = rng.randrange(n)
        else: case['ix'] = rng.sample(range(n), kk); case['ixk'] = rng.choice(['list', 'tuple', 'array'] if k in ('sv', 'slv') else ['list', 'array'])    # (a tuple is a 2-d index for an array)
        if k in ('sa', 'sab'): case['axis'] = rng.choice([None, 0, 1])
    elif f in ('remove_negatives', 'clear'):
        if k == 'slv' and f == 'clear': L = case['L'] = {'k': 'sab', 'v': [bv(rng, n) for _ in range(m)]}
    elif f == 'sparse_equal':
        R = same_kind() if rng.random() < 0.5 else dict(L)
        if rng.random() < 0.5: R = {'k': {'sv': rng.choice(['list', 'arr1']), 'slv': rng.choice(['blist', 'barr1']), 'sa': rng.choice(['list2', 'arr2']), 'sab': 'barr2'}[k], 'v': R['v']}
        case['R'] = R
    elif f == 'sum_sparse_vectors':
        if k in ('sa', 'sab'): L = case['L'] = {'k': 'sv', 'v': fv(rng, n, vals)}; k = 'sv'
        case['others'] = [{'k': k, 'v': fv(rng, n, vals) if k == 'sv' else bv(rng, n)} for _ in range(rng.randrange(0, 3))]
        if k == 'sv' and rng.random() < 0.3: case['others'].append({'k': 'sv', 'v': [-v for v in L['v']]})
    return case


def gen_getmut(rng):
    vals = [0., 0., 1., -1., 2., 0.5, -0.5, 3., 0.25]
    m = rng.choice([2, 3]); n = rng.choice([2, 3, 4])
    L = {'k': 'sa', 'v': [fv(rng, n, vals) for _ in range(m)]} if rng.random() < 0.75 else {'k': 'sv', 'v': fv(rng, n, vals)}
    shape = np.shape(twin(L))
    return {'t': 'gm', 'L': L, 'ix': gen_index(rng, shape), 'o': rng.choice(['imul', 'iadd', 'set']), 'c': rng.choice([2., 0., -1., 0.5])}


def gen_reject(rng):
    vals = [1., 2., -1., 0.5, 0.]
    r = rng.random()
    if r < 0.5:
        # shape mismatches
        which = rng.choice(['vec-vec', 'arr-vec', 'arr-arr-sparse', 'arr-arr-dense', 'vec-arr'])
        fam = rng.choice(['bin', 'inp']); o = rng.choice(['add', 'sub', 'mul', 'truediv', 'eq', 'lt'] if fam == 'bin' else ['iadd', 'isub', 'imul', 'itruediv'])
        if which == 'vec-vec':
            n1, n2 = rng.sample([2, 3, 4, 6], 2)
            L = {'k': 'sv', 'v': fv(rng, n1, [1., 2., -1., .5])}; R = {'k': rng.choice(['sv', 'arr1', 'list']), 'v': fv(rng, n2, [1., 2., .5])}
        elif which == 'arr-vec':
            n1, n2 = rng.sample([2, 3, 4, 6], 2); m = rng.choice([1, 2, 3])
            L = {'k': 'sa', 'v': [fv(rng, n1, [1., 2., -1., .5]) for _ in range(m)]}; R = {'k': rng.choice(['sv', 'arr1', 'list']), 'v': fv(rng, n2, [1., 2., .5])}
        elif which == 'vec-arr':
            if fam == 'inp': fam, o = 'bin', 'add'
            n1, n2 = rng.sample([2, 3, 4, 6], 2); m = rng.choice([1, 2, 3])
            L = {'k': 'sv', 'v': fv(rng, n1, [1., 2., -1., .5])}; R = {'k': rng.choice(['sa', 'arr2']), 'v': [fv(rng, n2, [1., 2., .5]) for _ in range(m)]}
        else:
            m1, m2 = rng.sample([2, 3, 4], 2); n = rng.choice([1, 2, 3])
            L = {'k': 'sa', 'v': [fv(rng, n, [1., 2., -1., .5]) for _ in range(m1)]}
            R = {'k': 'sa' if which == 'arr-arr-sparse' else rng.choice(['arr2', 'list2']), 'v': [fv(rng, n, [1., 2., .5]) for _ in range(m2)]}
        return {'t': 'rej', 'kind': 'op', 'fam': fam, 'o': o, 'L': L, 'R': R, 'tag': f'{which}/{"inplace" if fam == "inp" else "binary"}'}
    elif r < 0.8:
        n = rng.choice([2, 3, 4])
        tk = rng.choice(['sv', 'sa'])
        L = {'k': 'sv', 'v': fv(rng, n, vals)} if tk == 'sv' else {'k': 'sa', 'v': [fv(rng, n, vals) for _ in range(rng.choice([1, 2]))]}
        what = rng.choice(['iadd', 'isub', 'imul', 'itruediv', 'clear', 'setitem', 'setitem-slice', 'setitem-fancy', 'setitem-mask', 'copy_like', 'mix_from', 'remove_negatives', 'from_flat_array', 'row-view-iadd'])
        if what == 'mix_from' and tk == 'sa': what = 'copy_like'
        if what == 'row-view-iadd' and tk == 'sv': what = 'iadd'
        case = {'t': 'rej', 'kind': 'readonly', 'L': L, 'o': what, 'R': {'k': 'scalar', 'v': rng.choice([1., 2., .5])}, 'tag': f'{tk}/{what}'}
        m_ = 1 if tk == 'sv' else len(L['v'])
        if what == 'setitem':
            case['ix'] = {'t': 'int', 'i': 0} if tk == 'sv' else {'t': 'tuple', 'v': [{'t': 'int', 'i': 0}, {'t': 'int', 'i': 0}]}
        elif what == 'setitem-slice':
            case['ix'] = {'t': 'slice'} if tk == 'sv' else rng.choice([{'t': 'tuple', 'v': [{'t': 'slice'}, {'t': 'int', 'i': 0}]}, {'t': 'int', 'i': 0}, {'t': 'slice'}])
        elif what == 'setitem-fancy':
            case['ix'] = {'t': 'ilist', 'v': [0, n - 1]} if tk == 'sv' else {'t': 'tuple', 'v': [{'t': 'ilist', 'v': [0, m_ - 1]}, {'t': 'ilist', 'v': [0, n - 1]}]}
        elif what == 'setitem-mask':
            case['mask'] = [rng.random() < 0.6 for _ in range(n)] if tk == 'sv' else [[rng.random() < 0.6 for _ in range(n)] for _ in range(m_)]
        return case
    else:
        # slice assignment with a mismatching shape: NumPy raises, so must the sparse array
        tk = rng.choice(['sv', 'sa-rows', 'sv-fancy'])
        if tk == 'sv' and rng.random() < 0.25:
            # added: the same mismatch on a logical vector (the property names SparseLogicalVector; only 'sv' targets had been generated)
            n1, n2 = rng.sample([2, 3, 4, 6], 2)
            return {'t': 'set', 'L': {'k': 'slv', 'v': bv(rng, n1)}, 'ix': {'t': 'slice'}, 'V': {'k': rng.choice(['blist', 'barr1', 'slv']), 'v': bv(rng, n2)}, 'must_reject': True}
        if tk == 'sv':
            n1, n2 = rng.sample([2, 3, 4, 6], 2)
            return {'t': 'set', 'L': {'k': 'sv', 'v': fv(rng, n1, vals)}, 'ix': {'t': 'slice'}, 'V': {'k': rng.choice(['list', 'arr1', 'sv']), 'v': fv(rng, n2, [1., 2., .5])}, 'must_reject': True}
        if tk == 'sv-fancy':
            n = rng.choice([3, 4, 6]); k = rng.choice([2, 3])
            k2 = rng.choice([j for j in (2, 3, 4) if j != k])
            return {'t': 'set', 'L': {'k': 'sv', 'v': fv(rng, n, vals)}, 'ix': {'t': 'ilist', 'v': rng.sample(range(n), k)}, 'V': {'k': rng.choice(['list', 'arr1']), 'v': fv(rng, k2, [1., 2., .5])}, 'must_reject': True}
        m1, m2 = rng.sample([2, 3, 4], 2); n = rng.choice([2, 3])
        return {'t': 'set', 'L': {'k': 'sa', 'v': [fv(rng, n, vals) for _ in range(m1)]}, 'ix': {'t': 'slice'},
                'V': {'k': rng.choice(['arr2', 'list2', 'sa']), 'v': [fv(rng, n, [1., 2., .5]) for _ in range(m2)]}, 'must_reject': True}


def gen_history(rng, maxlen):
    vals = [0., 0., 1., -1., 2., 0.5, -0.5, 1 / 3, 3., -3., 0.25, 1e-3, 1e3]
    m = rng.choice([1, 2, 3]); n = rng.choice([1, 2, 3, 4, 6])
    pool = []
    for _ in range(4):
        k = rng.choice(['sv', 'sv', 'sa', 'sa', 'slv'])
        if rng.random() < 0.12: k = 'sab'                       # added: logical 2-d members
        if k == 'sv': pool.append({'k': k, 'v': fv(rng, n, vals)})
        elif k == 'slv': pool.append({'k': k, 'v': bv(rng, n)})
        elif k == 'sab': pool.append({'k': k, 'v': [bv(rng, n) for _ in range(m)]})
        else: pool.append({'k': k, 'v': [fv(rng, n, vals) for _ in range(m)]})
    kinds = [p['k'] for p in pool]   # tracked approximately; run_history skips steps NumPy rejects
    shapes = [np.shape(twin(p)) for p in pool]
    steps = []
    for _ in range(rng.randrange(5, maxlen + 1)):
        t = rng.choice(['bin', 'bin', 'inp', 'inp', 'inp', 'set', 'set', 'row', 'copy', 'neg'])
        i = rng.randrange(4)
        if rng.random() < 0.3:
            # added step kinds
            t = rng.choice(['log', 'ilog', 'ilog', 'abs', 'inv', 'ref', 'red', 'clear', 'get', 'get'])
            if t in ('log', 'ilog'):
                st = {'t': t, 'o': rng.choice(['and', 'or', 'xor']) if t == 'log' else rng.choice(['iand', 'ior', 'ixor']), 'i': i}
                if rng.random() < 0.6: st['j'] = rng.randrange(4) if rng.random() < 0.8 else i
                else: st['R'] = rng.choice([{'k': 'bscalar', 'v': rng.random() < .5}, {'k': 'barr1', 'v': bv(rng, n)}, {'k': 'blist', 'v': bv(rng, n)}, {'k': 'slv', 'v': bv(rng, n)}])
                if t == 'log': st['k'] = rng.randrange(4)
            elif t in ('abs', 'inv'): st = {'t': t, 'i': i, 'k': rng.randrange(4)}
            elif t == 'ref':
                st = {'t': t, 'o': rng.choice(list(REF)), 'i': i, 'k': rng.randrange(4), 'R': rng.choice([{'k': 'scalar', 'v': rng.choice(vals)}, {'k': 'arr1', 'v': fv(rng, n, vals)}, {'k': 'iscalar', 'v': rng.choice([1, 2, -1])}])}
            elif t == 'red': st = {'t': t, 'i': i, 'f': rng.choice(['any', 'all', 'sum', 'mean', 'max', 'min']), 'axis': rng.choice([None, None, 0, 1]), 'keepdims': rng.random() < 0.3}
            elif t == 'clear': st = {'t': t, 'i': i}
            else:
                ix = rng.choice([{'t': 'int', 'i': rng.randrange(m)}, {'t': 'slice'}, {'t': 'slice', 'a': rng.choice([None, 0, 1]), 'b': rng.choice([None, m, max(1, m - 1)]), 'c': rng.choice([None, 1, 2])}])
                st = {'t': t, 'i': i, 'ix': ix, 'k': rng.randrange(4)}
            steps.append(st)
            if st['t'] in ('abs', 'inv'): shapes[st['k']] = shapes[st['i']]
            elif st['t'] in ('log', 'ref') :
                sb = shapes[st['j']] if 'j' in st else np.shape(twin(st['R']))
                try: shapes[st['k']] = np.broadcast_shapes(shapes[st['i']], sb)
                except ValueError: pass
            elif st['t'] == 'get' and len(shapes[st['i']]) == 2:
                shapes[st['k']] = (n,) if st['ix']['t'] == 'int' else shapes[st['i']]
            continue
        if t in ('bin', 'inp'):
            o = rng.choice(['add', 'sub', 'mul', 'truediv'] if t == 'bin' else ['iadd', 'isub', 'imul', 'itruediv'])
            if t == 'bin' and rng.random() < 0.25: o = rng.choice(['eq', 'ne', 'gt', 'lt', 'ge', 'le'])
            st = {'t': t, 'o': o, 'i': i}
            if rng.random() < 0.6:
                st['j'] = rng.randrange(4) if rng.random() < 0.8 else i
            else:
                st['R'] = rng.choice([{'k': 'scalar', 'v': rng.choice(vals)}, {'k': 'arr1', 'v': fv(rng, n, vals)}, {'k': 'list', 'v': fv(rng, n, vals)}, {'k': 'sv', 'v': fv(rng, 1, vals)}])
            if t == 'bin': st['k'] = rng.randrange(4)
            steps.append(st)
        elif t == 'set':
            shape = shapes[i]
            ix = gen_index(rng, shape) if rng.random() < 0.8 else {'t': 'slice'}
            st = {'t': 'set', 'i': i, 'ix': ix}
            if rng.random() < 0.35: st['j'] = rng.randrange(4)
            else:
                st['R'] = rng.choice([{'k': 'scalar', 'v': rng.choice(vals)}, {'k': 'arr1', 'v': fv(rng, n, vals)}, {'k': 'list', 'v': fv(rng, n, vals)}])
            steps.append(st)
        elif t == 'row':
            steps.append({'t': 'row', 'i': i, 'r': rng.randrange(m), 'k': rng.randrange(4)})
        else:
            steps.append({'t': t, 'i': i, 'k': rng.randrange(4)})
        # shape bookkeeping for index generation only
        st = steps[-1]
        if st['t'] == 'row' and len(shapes[st['i']]) == 2: shapes[st['k']] = (n,)
        elif st['t'] in ('copy', 'neg'): shapes[st['k']] = shapes[st['i']]
        elif st['t'] == 'bin':
            sb = shapes[st['j']] if 'j' in st else np.shape(twin(st['R']))
            try: shapes[st['k']] = np.broadcast_shapes(shapes[st['i']], sb)
            except ValueError: pass
    return {'t': 'hist', 'pool': pool, 'steps': steps}

# bounded exhaustive enumeration ------------------------------------------------
ALPHA = [0., 1., -1., 0.5]


def enum_cases():
    """all vectors of size<=3 / arrays<=2x2 over ALPHA x every operator x operand kinds of D (same shape, scalar, row)."""
    ops = [('bin', o) for o in BIN] + [('inp', o) for o in INP]
    for n in (1, 2, 3):
        vecs = [list(v) for v in itertools.product(ALPHA, repeat=n)]
        for fam, o in ops:
            for L in vecs:
                for R in vecs:
                    for rk in ('sv', 'arr1', 'list'):
                        yield {'t': 'op', 'fam': fam, 'o': o, 'L': {'k': 'sv', 'v': L}, 'R': {'k': rk, 'v': R}}
                for s in ALPHA:
                    yield {'t': 'op', 'fam': fam, 'o': o, 'L': {'k': 'sv', 'v': L}, 'R': {'k': 'scalar', 'v': s}}
    for (m, n) in ((1, 1), (1, 2), (2, 1), (2, 2)):
        arrs = [[list(v[i * n:(i + 1) * n]) for i in range(m)] for v in itertools.product(ALPHA, repeat=m * n)]
        rows = [list(v) for v in itertools.product(ALPHA, repeat=n)]
        for fam, o in ops:
            for L in arrs:
                for s in ALPHA:
                    yield {'t': 'op', 'fam': fam, 'o': o, 'L': {'k': 'sa', 'v': L}, 'R': {'k': 'scalar', 'v': s}}
                for R in rows:
                    yield {'t': 'op', 'fam': fam, 'o': o, 'L': {'k': 'sa', 'v': L}, 'R': {'k': 'sv', 'v': R}}
                    yield {'t': 'op', 'fam': fam, 'o': o, 'L': {'k': 'sa', 'v': L}, 'R': {'k': 'sa', 'v': [R]}}
        if m * n <= 2:
            for fam, o in ops:
                for L in arrs:
                    for R in arrs:
                        yield {'t': 'op', 'fam': fam, 'o': o, 'L': {'k': 'sa', 'v': L}, 'R': {'k': 'sa', 'v': R}}
                        yield {'t': 'op', 'fam': fam, 'o': o, 'L': {'k': 'sa', 'v': L}, 'R': {'k': 'arr2', 'v': R}}
    # set/get on all vectors of size <=3 by every int index and every boolean mask
    for n in (1, 2, 3):
        for L in itertools.product(ALPHA, repeat=n):
            for i in range(n):
                yield {'t': 'get', 'L': {'k': 'sv', 'v': list(L)}, 'ix': {'t': 'int', 'i': i}}
                for s in ALPHA:
                    yield {'t': 'set', 'L': {'k': 'sv', 'v': list(L)}, 'ix': {'t': 'int', 'i': i}, 'V': {'k': 'scalar', 'v': s}}
            for mask in itertools.product([False, True], repeat=n):
                yield {'t': 'get', 'L': {'k': 'sv', 'v': list(L)}, 'ix': {'t': 'barr', 'v': list(mask)}}
                for s in ALPHA:
                    yield {'t': 'set', 'L': {'k': 'sv', 'v': list(L)}, 'ix': {'t': 'barr', 'v': list(mask)}, 'V': {'k': 'scalar', 'v': s}}
            for f in ('any', 'all', 'sum', 'mean', 'max', 'min'):
                for keep in (False, True):
                    yield {'t': 'red', 'L': {'k': 'sv', 'v': list(L)}, 'f': f, 'axis': None, 'keepdims': keep}


REGRESSION = [
    {'t': 'set', 'L': {'k': 'sv', 'v': [1.0, 2.0, 0.0, 4.5]}, 'ix': {'t': 'slice'}, 'V': {'k': 'list', 'v': [0.0, 1.0]}, 'must_reject': True},
]


def run(rec, rng, tier, shard, nshards):
    quick = tier == 'quick'
    if shard == 0:
        for case in REGRESSION: run_case(case, rec)
    n_rand = 28500 if quick else 285000          # (the original 25000 / 250000 plus the share of the added generators)
    n_hist = 2000 if quick else 25000
    maxlen = 30
    gens = [(gen_op, 0.42), (gen_get, 0.12), (gen_set, 0.2), (gen_reduce, 0.1), (gen_construct, 0.06), (gen_reject, 0.1), (gen_method, 0.06), (gen_getmut, 0.03), (gen_construct, 0.04)]
    names, weights = zip(*gens)
    for _ in range(n_rand):
        g = rng.choices(names, weights)[0]
        case = g(rng)
        if case is None: continue
        run_case(case, rec)
        if rec.cases % 997 == 0: rec.sample(case)
    for _ in range(n_hist):
        case = gen_history(rng, maxlen)
        run_case(case, rec)
        if rec.cases % 397 == 0: rec.sample({'t': 'hist', 'pool': case['pool'], 'steps': case['steps'][:6], 'n_steps': len(case['steps'])})
    # bounded exhaustive enumeration: every case in the thorough tier (split over the shards),
    # a stratified 1/20 sample in the quick tier
    stride = nshards * (20 if quick else 1)
    offset = shard + (rng.randrange(20) * nshards if quick else 0)
    n_enum = 0
    for idx, case in enumerate(enum_cases()):
        if idx % stride != offset % stride: continue
        run_case(case, rec); n_enum += 1
        rec.hit('enum')
    rec.notes['enumerated_cases_this_run'] = 'see reach_counters.enum'
    rec.notes['exhaustive_subspace'] = ('thorough tier: every case of the bounded enumeration is executed (shards partition the index space); '
                                        'quick tier: 1/20 stratified sample')
